package main

// C15 — typed directive lists and the syntax tree never diverge under edits.

import (
	"strings"

	"golang.org/x/mod/modfile"
)

func init() {
	register(&Prop{ID: "C15", Gen: genC15, Oracle: oracleC15,
		Rule: "same session generator as C08 (different random stream); non-trivial = at least one op hits a line of the starting file; distinct by op line"})
}

func genC15(g *Gen, n int) {
	edGenCommon(g, n, 15)
	// the histories of the twin sweep (see c15TwinSweep), compared with the model as whole sessions
	for _, h := range c15TwinSessions() {
		g.Emit(edSessionLine(false, h.file, h.ops), true, "twin-sweep")
	}
}

// edPlaceholders reports cleared entries left in the typed lists after Cleanup.
func edPlaceholders(run *edRun) string {
	if run.Work != nil {
		f := run.Work
		for _, x := range f.Godebug {
			if x == nil || x.Key == "" || x.Syntax == nil {
				return "godebug"
			}
		}
		for _, x := range f.Use {
			if x == nil || x.Path == "" || x.Syntax == nil {
				return "use"
			}
		}
		for _, x := range f.Replace {
			if x == nil || x.Old.Path == "" || x.Syntax == nil {
				return "replace"
			}
		}
		return ""
	}
	f := run.Mod
	for _, x := range f.Godebug {
		if x == nil || x.Key == "" || x.Syntax == nil {
			return "godebug"
		}
	}
	for _, x := range f.Require {
		if x == nil || x.Mod.Path == "" || x.Syntax == nil {
			return "require"
		}
	}
	for _, x := range f.Exclude {
		if x == nil || x.Mod.Path == "" || x.Syntax == nil {
			return "exclude"
		}
	}
	for _, x := range f.Replace {
		if x == nil || x.Old.Path == "" || x.Syntax == nil {
			return "replace"
		}
	}
	for _, x := range f.Retract {
		if x == nil || (x.Low == "" && x.High == "") || x.Syntax == nil {
			return "retract"
		}
	}
	for _, x := range f.Tool {
		if x == nil || x.Path == "" || x.Syntax == nil {
			return "tool"
		}
	}
	return ""
}

const edSigInherited = "retract-rationale:block-comment-inherited"
const edSigBlank = "retract-rationale:blank-line-dropped"
const edSigCollapsed = "retract-rationale:collapse-merged-block-comment"
const edSigOtherRoute = "retract-rationale:block-comment-other-route"

func edKnownCause(sig string) bool {
	return strings.HasSuffix(sig, ":"+edSigInherited) || strings.HasSuffix(sig, ":"+edSigCollapsed) || strings.HasSuffix(sig, ":"+edSigBlank) || strings.HasSuffix(sig, ":go-prerelease") ||
		strings.HasSuffix(sig, ":remainder-is-marker") ||
		strings.HasSuffix(sig, ":"+edSigOtherRoute) || strings.HasSuffix(sig, ":"+edSigEmptyBlockSuffix)
}

// edRetractDetail pairs every typed retraction with the re-parsed one on the same output line and names
// the mismatch: "" (none), "retract" (interval or pairing), "retract-rationale" (unexplained), or one
// of the two structural causes recorded as findings (computed from the session itself):
//
//	inherited: typed rationale "" for a line created by AddRetract that has no comment of its own and sits
//	           in a retract block whose comments the strict parser therefore attributes to it;
//	blank:     a parsed line preceded only by a blank line (no inheritance at parse) lost that blank line;
//	collapsed: a Cleanup of this session collapsed the one-line commented block around the line and merged
//	           the block's comments into it (re-parsed = block text [+ "\n" + typed]);
//	other-route: any other mismatch that meets the root-cause test (typed and re-parsed differ exactly by the
//	           comment text of a commented retract block that encloses or enclosed the line, own comments equal);
//	empty-block-suffix-comment: the block's END-OF-LINE comments were appended to the line by a collapse.
func edRetractDetail(run *edRun) string {
	if run.Mod == nil {
		return "" // go.work has no retractions
	}
	if run.ReMod == nil {
		return "retract"
	}
	fin, re := edTreeLines(run.Mod.Syntax), edTreeLines(run.ReMod.Syntax)
	if len(fin) != len(re) || len(run.Mod.Retract) != len(run.ReMod.Retract) {
		return "retract"
	}
	pos := map[*modfile.Line]int{}
	for i, l := range fin {
		pos[l.Ptr] = i
	}
	reBy := map[*modfile.Line]*modfile.Retract{}
	for _, r := range run.ReMod.Retract {
		reBy[r.Syntax] = r
	}
	blockOf := map[*modfile.Line]*modfile.LineBlock{}
	for _, st := range run.Mod.Syntax.Stmt {
		if b, ok := st.(*modfile.LineBlock); ok {
			for _, l := range b.Line {
				blockOf[l] = b
			}
		}
	}
	known := ""
	for _, r := range run.Mod.Retract {
		k, ok := pos[r.Syntax]
		if !ok {
			return "retract"
		}
		q := reBy[re[k].Ptr]
		if q == nil || q.VersionInterval != r.VersionInterval {
			return "retract"
		}
		if q.Rationale == r.Rationale {
			continue
		}
		ty, rp := r.Rationale, q.Rationale
		// the line's OWN comment texts must be the same in the in-memory tree and in the re-parse: a rationale
		// that lost or gained the line's own text is never a recorded finding
		if !edSameMultiset(fin[k].Before, re[k].Before) || !edSameMultiset(fin[k].Suffix, re[k].Suffix) {
			return "retract-rationale"
		}
		// recorded finding "empty-block-suffix-comment": the line sits (sat) in a block carrying end-of-line
		// comments, which Cleanup appended to the line when it collapsed the block
		if bs := run.SuffixBlock[r.Syntax]; len(bs) > 0 {
			if S := edSuffixText(bs); S != "" && (rp == S || rp == ty+"\n"+S) {
				if known == "" {
					known = edSigEmptyBlockSuffix
				}
				continue
			}
		}
		// ROOT CAUSE of the recorded rationale findings: typed and re-parsed rationale differ exactly by the
		// comment text B of a commented retract block that encloses the line now or enclosed it at some point
		root := false
		for _, B := range run.BlockTexts[r.Syntax] {
			if B == "" {
				// the block's comments are empty `//` lines: they contribute an empty text line, nothing else
				if rp == "\n"+ty || ty == "\n"+rp {
					root = true
				}
				continue
			}
			if rp == B || rp == B+"\n"+ty || ty == B+"\n"+rp || (ty == B && rp == "") {
				root = true
			}
		}
		if !root {
			return "retract-rationale"
		}
		created := !run.StartPtr[r.Syntax]
		b := blockOf[r.Syntax]
		merged, wasCollapsed := run.Collapsed[r.Syntax]
		sub := edSigOtherRoute
		switch {
		case ty == "" && created && b != nil && !edHasText(&r.Syntax.Comments) && edHasText(&b.Comments) &&
			rp == edDirectiveText(&b.Comments):
			sub = edSigInherited
		case ty == "" && run.BlankOnly[r.Syntax] && !edHasText(&r.Syntax.Comments) &&
			((b != nil && edHasText(&b.Comments) && rp == edDirectiveText(&b.Comments)) || (wasCollapsed && rp == merged)):
			// the line's only "comment" in the starting file was a blank-line placeholder; the output no longer
			// has that blank line in front of it, so the strict parser now lets it inherit the block's comments
			sub = edSigBlank
		case wasCollapsed && (rp == merged+"\n"+ty || (ty == "" && created && rp == merged)):
			sub = edSigCollapsed
		}
		if known == "" {
			known = sub
		}
	}
	return known
}

func edCheckC15(work bool, file string, ops []edOp) (sig, info string) {
	run := edRunSession(work, file, ops)
	if run.ParseErr {
		return "", ""
	}
	if run.Panic != "" {
		return "c15-panic:" + run.Panic, ""
	}
	if p := edPlaceholders(run); p != "" {
		return "c15-placeholder:" + p, ""
	}
	if run.Reparsed == nil {
		return "c15-reparse-fails", string(run.Formatted)
	}
	want := strings.Fields(run.Typed.render(true))
	got := strings.Fields(run.Reparsed.render(true))
	names := []string{"module", "go", "toolchain"}
	names = append(names, edKindName[:]...)
	knownSig, knownInfo := "", ""
	for i := range want {
		name := names[i]
		if name == "retract" {
			// always paired line by line (a multiset comparison could pair wrongly)
			if name = edRetractDetail(run); name == "" {
				continue
			}
		} else if want[i] == got[i] {
			continue
		}
		if name == "require" {
			// same (path, version) multiset but different indirect flags?
			name = edRequireDetail(run.Typed, run.Reparsed)
			if name == "require-indirect" {
				// pair line by line and name the recorded structural cause, if it is the only one
				if d := edIndirectDetail(run); d != "" {
					name = d
				}
			}
		}
		sig, info = "c15-typed-vs-reparse:"+name, "typed "+want[i]+" reparsed "+got[i]
		if !edKnownCause(sig) {
			return sig, info
		}
		knownSig, knownInfo = sig, info
	}
	return knownSig, knownInfo
}

func edRequireDetail(typed, re *edDirs) string {
	strip := func(d *edDirs) string {
		c := &edDirs{}
		for _, e := range d.L[edRequire] {
			c.L[edRequire] = append(c.L[edRequire], edEnt{K: e.K})
		}
		return strings.Fields(c.render(true))[3+edRequire]
	}
	if strip(typed) != strip(re) {
		return "require"
	}
	return "require-indirect"
}

// c15RationaleShapes: line structures of an AddRetract rationale (small scope, all of them): none, one line, two
// lines, two paragraphs (EMPTY line in the middle), paragraphs of several lines, two empty lines, an empty line first /
// last, a whitespace-only line in the middle, only a line break.
var c15RationaleShapes = []string{"", "r", "a\nb", "a\n\nb", "a\nb\n\nc\nd", "a\n\n\nb", "\na", "a\n", "a\n \nb", "\n"}

// c15RationaleSweep — input class "rationale line structure x final placement of the new retract line", exhaustive on
// a small scope and independent of the random stream. The clause "retractions WITH THEIR RATIONALE equal what a strict
// parse of the formatted file yields" depends on how AddRetract's comment lines are grouped by the parser, and that
// differs by placement: inside a `retract ( … )` block a blank line stays with the following line, at top level it
// ends the comment group. So every shape is run through every way a created retraction can come to stand (a) as a
// single top-level line — first retraction of the file, the only line put into an empty block, or the rest of its
// block dropped later so that Cleanup collapses it — and (b) inside a block, and the property is checked after every
// Cleanup of the history (each prefix is its own session). The starting files carry no block comments, so none of the
// recorded retract-rationale findings (all of them: a commented retract block lends/merges ITS comment) is in scope.
// Missing before: the rationale pool had no text with an empty line, and no sweep tied shapes to placements.
func c15RationaleSweep(g *Gen) {
	seen := map[string]bool{}
	ret := func(lo, hi, rat string) edOp { return edOp{Name: "retract", A: []string{lo, hi, rat}} }
	drop := func(lo, hi string) edOp { return edOp{Name: "dropretract", A: []string{lo, hi}} }
	cl := edOp{Name: "cleanup"}
	ivs := [][2]string{{"v1.2.0", "v1.2.0"}, {"v1.2.0", "v1.3.0"}}
	type c15Hist struct {
		file string
		ops  []edOp
	}
	hists := func(add edOp, iv [2]string) []c15Hist {
		return []c15Hist{
			// first retraction of the file
			{"module example.com/m\n\ngo 1.21\n", []edOp{add, cl, drop(iv[0], iv[1]), cl}},
			// the only line of a formerly empty block
			{"module example.com/m\n\nretract ()\n", []edOp{add, cl}},
			// joins a single top-level line (a block is formed), which is dropped later
			{"module example.com/m\n\nretract v1.0.0 // broken build\n", []edOp{add, cl, drop("v1.0.0", "v1.0.0"), cl, drop(iv[0], iv[1]), cl}},
			// joins a block of two, both dropped later
			{"module example.com/m\n\nretract (\n\tv1.0.0 // broken build\n\t[v1.1.0, v1.1.5] // data loss\n)\n",
				[]edOp{add, cl, drop("v1.0.0", "v1.0.0"), cl, drop("v1.1.0", "v1.1.5"), cl, drop(iv[0], iv[1]), cl}},
			// first retraction, then a second created one joins it, then either of the two is dropped
			{"module example.com/m\n", []edOp{add, cl, ret("v1.5.0", "v1.5.0", "p\n\nq"), cl, drop(iv[0], iv[1]), cl}},
			{"module example.com/m\n", []edOp{add, ret("v1.5.0", "v1.5.0", "other"), cl, drop("v1.5.0", "v1.5.0"), cl}},
			// no module line, SortBlocks in between
			{"go 1.21\n", []edOp{add, {Name: "sortblocks"}, cl}},
		}
	}
	// placement outermost, so that the first input reported for a signature is the shortest history
	for hi := range hists(cl, ivs[0]) {
		for _, rat := range c15RationaleShapes {
			for _, iv := range ivs {
				h := hists(ret(iv[0], iv[1], rat), iv)[hi]
				for k := range h.ops {
					if h.ops[k].Name != "cleanup" {
						continue
					}
					ops := h.ops[:k+1]
					g.Case("c15-session:rationale-sweep")
					sig, info := edCheckC15(false, h.file, ops)
					if sig == "" || seen[sig] {
						continue
					}
					seen[sig] = true
					g.Fail(sig, info+" || file: "+strings.ReplaceAll(h.file, "\n", "\\n"), edSessionLine(false, h.file, ops))
				}
			}
		}
	}
}

// c15TwinSweep - input class "keys that are equal under semver.Compare but different strings" (v and v+incompatible,
// see edTwin), exhaustive on a small scope and independent of the random stream: every combination of spelling for
// the two bounds of an AddRetract (plain/plain, plain/tagged, tagged/plain, tagged/tagged) under a module path without
// major suffix, with /v2, and without module line, in every placement of the new line (first retraction, joins a
// line, joins a block, fills an empty block, joins a retraction that already has the twin bounds), followed by the
// later operations of the session that have to see it: DropRetract of the interval read as a single version (what a
// file showing only one bound would say; a no-op while list and file agree), then DropRetract of the interval itself.
// The same for AddExclude / AddReplace of both spellings of one version and the Drop of one of them. The clause is
// checked after every Cleanup (each prefix is its own session). Missing before: no pool held both spellings of one
// version for the same module path, so "same version" and "same string" coincided on every generated key.
func c15TwinSweep(g *Gen) {
	seen := map[string]bool{}
	for _, h := range c15TwinSessions() {
		for k := range h.ops {
			if h.ops[k].Name != "cleanup" {
				continue
			}
			g.Case("c15-session:twin-sweep")
			sig, info := edCheckC15(false, h.file, h.ops[:k+1])
			if sig == "" || seen[sig] {
				continue
			}
			seen[sig] = true
			g.Fail(sig, info+" || file: "+strings.ReplaceAll(h.file, "\n", "\\n"), edSessionLine(false, h.file, h.ops[:k+1]))
		}
	}
}

type c15Session struct {
	file string
	ops  []edOp
}

// c15TwinSessions lists the histories of the twin sweep (also sent through the model correspondence by genC15).
func c15TwinSessions() (out []c15Session) {
	cl := edOp{Name: "cleanup"}
	run := func(file string, ops []edOp) { out = append(out, c15Session{file, ops}) }
	for _, m := range []struct{ head, v, other string }{
		{"module example.com/m\n\ngo 1.21\n", "v1.0.0", "v1.4.0"},
		{"module example.com/m/v2\n\ngo 1.21\n", "v2.0.0", "v2.1.0"},
		{"go 1.21\n", "v0.3.0-rc.1", "v1.4.0"},
	} {
		t := edTwin(m.v)
		for _, tail := range []string{
			"",
			"\nretract " + m.other + "\n",
			"\nretract (\n\t" + m.other + "\n\t[" + m.v + ", " + m.other + "]\n)\n",
			"\nretract ()\n",
			"\nretract [" + m.v + ", " + t + "]\n",
			"\nretract " + t + "\n",
		} {
			for _, b := range [][2]string{{m.v, t}, {t, m.v}, {t, t}, {m.v, m.v}} {
				for _, rat := range []string{"", "published by mistake"} {
					run(m.head+tail, []edOp{
						{Name: "retract", A: []string{b[0], b[1], rat}}, cl,
						{Name: "dropretract", A: []string{b[0], b[0]}}, cl,
						{Name: "sortblocks"}, cl,
						{Name: "dropretract", A: []string{b[0], b[1]}}, cl,
					})
				}
			}
		}
	}
	// exclude / replace: both spellings of one version are two entries; dropping one leaves the other
	for _, m := range []struct{ head, p, v string }{
		{"module example.com/m\n", "example.com/a", "v1.2.3"},
		{"module example.com/m\n\nexclude example.com/c/v2 v2.1.0\n\nreplace example.com/c/v2 v2.1.0 => ./c\n", "example.com/c/v2", "v2.1.0"},
	} {
		t := edTwin(m.v)
		for _, b := range [][2]string{{m.v, t}, {t, m.v}} {
			run(m.head, []edOp{
				{Name: "exclude", A: []string{m.p, b[0]}}, {Name: "exclude", A: []string{m.p, b[1]}}, cl,
				{Name: "sortblocks"}, cl,
				{Name: "dropexclude", A: []string{m.p, b[0]}}, cl,
				{Name: "exclude", A: []string{m.p, b[1]}}, cl,
			})
			run(m.head, []edOp{
				{Name: "replace", A: []string{m.p, b[0], "./x", ""}}, {Name: "replace", A: []string{m.p, b[1], "./y", ""}}, cl,
				{Name: "sortblocks"}, cl,
				{Name: "dropreplace", A: []string{m.p, b[0]}}, cl,
				{Name: "replace", A: []string{m.p, b[1], "./z", ""}}, cl,
			})
		}
	}
	return out
}

func oracleC15(g *Gen, n int) {
	c15RationaleSweep(g)
	c15TwinSweep(g)
	edOracleLoop(g, n, "c15-session", edCheckC15)
}
