package main

// C15 — typed directive lists and the syntax tree never diverge under edits.

import (
	"strings"
)

func init() {
	register(&Prop{ID: "C15", Gen: genC15, Oracle: oracleC15,
		Rule: "same session generator as C08 (different random stream); non-trivial = at least one op hits a line of the starting file; distinct by op line"})
}

func genC15(g *Gen, n int) { edGenCommon(g, n, 15) }

// edPlaceholders reports cleared entries left in the typed lists after Cleanup.
func edPlaceholders(run *edRun) string {
	if run.Work != nil {
		f := run.Work
		for _, x := range f.Godebug {
			if x == nil || x.Key == "" || x.Syntax == nil {
				return "godebug"
			}
		}
		for _, x := range f.Use {
			if x == nil || x.Path == "" || x.Syntax == nil {
				return "use"
			}
		}
		for _, x := range f.Replace {
			if x == nil || x.Old.Path == "" || x.Syntax == nil {
				return "replace"
			}
		}
		return ""
	}
	f := run.Mod
	for _, x := range f.Godebug {
		if x == nil || x.Key == "" || x.Syntax == nil {
			return "godebug"
		}
	}
	for _, x := range f.Require {
		if x == nil || x.Mod.Path == "" || x.Syntax == nil {
			return "require"
		}
	}
	for _, x := range f.Exclude {
		if x == nil || x.Mod.Path == "" || x.Syntax == nil {
			return "exclude"
		}
	}
	for _, x := range f.Replace {
		if x == nil || x.Old.Path == "" || x.Syntax == nil {
			return "replace"
		}
	}
	for _, x := range f.Retract {
		if x == nil || (x.Low == "" && x.High == "") || x.Syntax == nil {
			return "retract"
		}
	}
	for _, x := range f.Tool {
		if x == nil || x.Path == "" || x.Syntax == nil {
			return "tool"
		}
	}
	return ""
}

// edRetractDetail refines a retract mismatch: same intervals but different rationales?
func edRetractDetail(typed, re *edDirs) string {
	strip := func(d *edDirs) *edDirs {
		c := &edDirs{}
		for _, e := range d.L[edRetract] {
			c.L[edRetract] = append(c.L[edRetract], edEnt{K: []string{e.K[0], e.K[1], ""}})
		}
		return c
	}
	a := strings.Fields(strip(typed).render(true))[3+edRetract]
	b := strings.Fields(strip(re).render(true))[3+edRetract]
	if a != b {
		return "retract"
	}
	// classify: is some typed rationale empty where the re-parse has one (inherited from the block),
	// or non-empty but different (stale after comments were merged)?
	for _, e := range typed.L[edRetract] {
		if e.K[2] == "" {
			found := false
			for _, r := range re.L[edRetract] {
				if r.K[0] == e.K[0] && r.K[1] == e.K[1] && r.K[2] == "" {
					found = true
				}
			}
			if !found {
				return "retract-rationale:typed-empty"
			}
		}
	}
	return "retract-rationale:typed-stale"
}

func edCheckC15(work bool, file string, ops []edOp) (sig, info string) {
	run := edRunSession(work, file, ops)
	if run.ParseErr {
		return "", ""
	}
	if run.Panic != "" {
		return "c15-panic:" + run.Panic, ""
	}
	if p := edPlaceholders(run); p != "" {
		return "c15-placeholder:" + p, ""
	}
	if run.Reparsed == nil {
		return "c15-reparse-fails", string(run.Formatted)
	}
	want := strings.Fields(run.Typed.render(true))
	got := strings.Fields(run.Reparsed.render(true))
	names := []string{"module", "go", "toolchain"}
	names = append(names, edKindName[:]...)
	for i := range want {
		if want[i] != got[i] {
			name := names[i]
			if name == "retract" {
				name = edRetractDetail(run.Typed, run.Reparsed)
			}
			if name == "require" {
				// same (path, version) multiset but different indirect flags?
				name = edRequireDetail(run.Typed, run.Reparsed)
			}
			return "c15-typed-vs-reparse:" + name, "typed " + want[i] + " reparsed " + got[i]
		}
	}
	return "", ""
}

func edRequireDetail(typed, re *edDirs) string {
	strip := func(d *edDirs) string {
		c := &edDirs{}
		for _, e := range d.L[edRequire] {
			c.L[edRequire] = append(c.L[edRequire], edEnt{K: e.K})
		}
		return strings.Fields(c.render(true))[3+edRequire]
	}
	if strip(typed) != strip(re) {
		return "require"
	}
	return "require-indirect"
}

func oracleC15(g *Gen, n int) { edOracleLoop(g, n, "c15-session", edCheckC15) }
