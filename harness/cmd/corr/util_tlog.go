package main

// Shared helpers for the tlog/tile properties C09, C03, C10.

import (
	"crypto/sha256"
	"encoding/hex"
	"errors"
	"fmt"
	"math/bits"
	"strconv"
	"strings"

	"golang.org/x/mod/sumdb/tlog"
)

// tlogStore is a dense in-memory hash store; position = stored hash index.
type tlogStore []tlog.Hash

var errTlogReader = errors.New("tlogreader: index out of range")

func (s tlogStore) ReadHashes(idx []int64) ([]tlog.Hash, error) {
	out := make([]tlog.Hash, len(idx))
	for i, x := range idx {
		if x < 0 || x >= int64(len(s)) {
			return nil, errTlogReader
		}
		out[i] = s[x]
	}
	return out, nil
}

// tlogBuild appends the records one at a time, storing the returned hashes at consecutive positions.
func tlogBuild(recs []string) (tlogStore, error) {
	var st tlogStore
	for i, r := range recs {
		hs, err := tlog.StoredHashes(int64(i), []byte(r), st)
		if err != nil {
			return nil, err
		}
		st = append(st, hs...)
	}
	return st, nil
}

// tlogSynthPad: every fifth synthetic record is padded to one of these total lengths (SHA-256 block and
// padding edges, 255/256/257, 511..513), so that logs named by `@seed:count` also sweep record-length boundaries.
var tlogSynthPad = []int{0, 1, 31, 32, 33, 54, 55, 56, 63, 64, 65, 119, 120, 127, 128, 129, 255, 256, 257, 511, 512, 513}

func tlogSynthRecord(seed, i int) string {
	s := fmt.Sprintf("rec %d %d\n", seed, i)
	if i%5 == 2 {
		if target := tlogSynthPad[(seed*7+i/5)%len(tlogSynthPad)]; target > len(s) {
			s += strings.Repeat("x", target-len(s))
		}
	}
	return s
}

func tlogSynth(seed, n int) []string {
	out := make([]string, n)
	for i := range out {
		out[i] = tlogSynthRecord(seed, i)
	}
	return out
}

// tlogRecords decodes a records token: hex list or @seed:count.
func tlogRecords(tok string) []string {
	if strings.HasPrefix(tok, "@") {
		p := strings.Split(tok[1:], ":")
		return tlogSynth(atoi(p[0]), atoi(p[1]))
	}
	return unhxList(tok)
}

func tlogErr(err error) string {
	if err == nil {
		return "ok"
	}
	m := err.Error()
	switch {
	case strings.Contains(m, "invalid inputs in"):
		return "err:invalid"
	case m == "invalid transparency proof":
		return "err:proof"
	case err == errTlogReader || strings.HasPrefix(m, "tlog: ReadHashes(") || strings.HasPrefix(m, "tilereader:"):
		return "err:reader"
	case m == "indexes not in tree":
		return "err:range"
	case m == "downloaded inconsistent tile":
		return "err:inconsistent"
	case strings.HasPrefix(m, "bad math in tileHashReader"):
		return "err:badmath"
	case strings.HasPrefix(m, "invalid tile"), strings.HasPrefix(m, "data len"), strings.HasPrefix(m, "index "),
		strings.HasPrefix(m, "TileReader returned bad result slice"):
		return "err:tile"
	}
	return "err:unknown"
}

func tlogHashHex(h tlog.Hash) string { return hex.EncodeToString(h[:]) }

func tlogHashesHex(hs []tlog.Hash) string {
	if len(hs) == 0 {
		return "_"
	}
	out := make([]string, len(hs))
	for i, h := range hs {
		out[i] = tlogHashHex(h)
	}
	return strings.Join(out, ",")
}

// tlogHash decodes a hex hash token; the caller guarantees 32 bytes.
func tlogHash(tok string) tlog.Hash {
	var h tlog.Hash
	b := unhx(tok)
	if len(b) != tlog.HashSize {
		panic("bad hash token")
	}
	copy(h[:], b)
	return h
}

func tlogHashes(tok string) []tlog.Hash {
	l := unhxList(tok)
	out := make([]tlog.Hash, len(l))
	for i, s := range l {
		var h tlog.Hash
		if len(s) != tlog.HashSize {
			panic("bad hash token")
		}
		copy(h[:], s)
		out[i] = h
	}
	return out
}

func tlogHashList(hs []tlog.Hash) string { return tlogHashesHex(hs) }

// ---- independent RFC 6962 definitions (no code shared with package tlog)

func rfcLeaf(d string) tlog.Hash { return sha256.Sum256(append([]byte{0}, d...)) }
func rfcNode(a, b tlog.Hash) tlog.Hash {
	buf := make([]byte, 0, 65)
	buf = append(buf, 1)
	buf = append(buf, a[:]...)
	buf = append(buf, b[:]...)
	return sha256.Sum256(buf)
}

// rfcSplit: the largest power of two strictly smaller than n (n >= 2).
func rfcSplit(n int) int { return 1 << (bits.Len(uint(n-1)) - 1) }

// rfcMTH: RFC 6962 §2.1 Merkle Tree Hash of a list of entries.
func rfcMTH(d []string) tlog.Hash {
	switch len(d) {
	case 0:
		return sha256.Sum256(nil)
	case 1:
		return rfcLeaf(d[0])
	}
	k := rfcSplit(len(d))
	return rfcNode(rfcMTH(d[:k]), rfcMTH(d[k:]))
}

// rfcPath: RFC 6962 §2.1.1 PATH(m, D[n]).
func rfcPath(m int, d []string) []tlog.Hash {
	n := len(d)
	if n <= 1 {
		return nil
	}
	k := rfcSplit(n)
	if m < k {
		return append(rfcPath(m, d[:k]), rfcMTH(d[k:]))
	}
	return append(rfcPath(m-k, d[k:]), rfcMTH(d[:k]))
}

// rfcProof: RFC 6962 §2.1.2 PROOF(m, D[n]) = SUBPROOF(m, D[n], true).
func rfcProof(m int, d []string) []tlog.Hash { return rfcSubProof(m, d, true) }

func rfcSubProof(m int, d []string, b bool) []tlog.Hash {
	n := len(d)
	if m == n {
		if b {
			return nil
		}
		return []tlog.Hash{rfcMTH(d)}
	}
	k := rfcSplit(n)
	if m <= k {
		return append(rfcSubProof(m, d[:k], b), rfcMTH(d[k:]))
	}
	return append(rfcSubProof(m-k, d[k:], false), rfcMTH(d[:k]))
}

// rfc9162Inclusion: RFC 9162 §2.1.3.2, verbatim (uint64 arithmetic).
func rfc9162Inclusion(path []tlog.Hash, treeSize, leafIndex uint64, leaf, root tlog.Hash) bool {
	if leafIndex >= treeSize {
		return false
	}
	fn, sn := leafIndex, treeSize-1
	r := leaf
	for _, p := range path {
		if sn == 0 {
			return false
		}
		if fn&1 == 1 || fn == sn {
			r = rfcNode(p, r)
			if fn&1 == 0 {
				for {
					fn >>= 1
					sn >>= 1
					if fn&1 == 1 || fn == 0 {
						break
					}
				}
			}
		} else {
			r = rfcNode(r, p)
		}
		fn >>= 1
		sn >>= 1
	}
	return sn == 0 && r == root
}

// rfc9162Consistency: RFC 9162 §2.1.4.2, verbatim, for 0 < first < second.
func rfc9162Consistency(path []tlog.Hash, first, second uint64, firstHash, secondHash tlog.Hash) bool {
	if len(path) == 0 {
		return false
	}
	if first&(first-1) == 0 {
		path = append([]tlog.Hash{firstHash}, path...)
	}
	fn, sn := first-1, second-1
	for fn&1 == 1 {
		fn >>= 1
		sn >>= 1
	}
	fr, sr := path[0], path[0]
	for _, c := range path[1:] {
		if sn == 0 {
			return false
		}
		if fn&1 == 1 || fn == sn {
			fr = rfcNode(c, fr)
			sr = rfcNode(c, sr)
			if fn&1 == 0 {
				for {
					fn >>= 1
					sn >>= 1
					if fn&1 == 1 || fn == 0 {
						break
					}
				}
			}
		} else {
			sr = rfcNode(sr, c)
		}
		fn >>= 1
		sn >>= 1
	}
	return fr == firstHash && sr == secondHash && sn == 0
}

func tlogEqHashes(a, b []tlog.Hash) bool {
	if len(a) != len(b) {
		return false
	}
	for i := range a {
		if a[i] != b[i] {
			return false
		}
	}
	return true
}

func tlogI64(s string) int64 {
	n, err := strconv.ParseInt(s, 10, 64)
	if err != nil {
		panic("bad int64 " + s)
	}
	return n
}

// tlogFlip returns h with bit `bit` (0..255) flipped: byte bit/8, mask 1<<(bit%8).
func tlogFlip(h tlog.Hash, bit int) tlog.Hash {
	h[(bit/8)%tlog.HashSize] ^= 1 << uint(bit%8)
	return h
}
