package main

func init() {
	mirror("client.lookup")
}
