package main

// util_cltrace.go — turns the operation log of a scheduled run of the real Client into the trace-validation ops
// `client.pctrace` (parCache machine) and `client.trace` (latest-tree-head machine) answered by lean/ModVerif/Drv/Client.lean.
// The implementation side of these ops is the constant `ok` (the run happened); the model answers `ok` iff the observed
// sequence is a trace of the Lean machine on which the proved invariants hold.

import (
	"bytes"
	"fmt"
	"strings"

	"golang.org/x/mod/sumdb/tlog"
)

// clHeadTok encodes a signed head for the line protocol: `-` empty, `A<n>` / `B<n>`; ok=false if it is not a valid head.
func clHeadTok(w *clWorld, msg []byte) (string, bool) {
	if len(msg) == 0 {
		return "-", true
	}
	h := w.classifyHead(msg)
	if !h.valid || h.n == 0 {
		return "", false
	}
	switch {
	case h.onA:
		return "A" + i64toa(h.n), true
	case h.onB:
		return "B" + i64toa(h.n), true
	}
	return "", false
}

func clUnindent(b []byte) []byte { return bytes.Replace(b, []byte("\n\t"), []byte("\n"), -1) }

// clSecNotes extracts the two signed notes from a SecurityError message.
func clSecNotes(msg []byte) (older, newer []byte, ok bool) {
	i := bytes.Index(msg, []byte("old database:\n\t"))
	j := bytes.Index(msg, []byte("\nnew database:\n\t"))
	k := bytes.Index(msg, []byte("\nproof of misbehavior:"))
	if i < 0 || j < i || k < j {
		return nil, nil, false
	}
	older = clUnindent(msg[i+len("old database:\n\t") : j])
	newer = clUnindent(msg[j+len("\nnew database:\n\t") : k])
	return older, newer, true
}

// clPcTrace renders one `client.pctrace` line per client instance that ran concurrent lookups.
func clPcTrace(out *clOutcome) []string {
	type inst struct {
		callers map[string]int // goroutine label -> caller index
		keys    []int
		fileKey map[string]int
		evs     []string
		conc    bool
	}
	insts := map[string]*inst{}
	epoch := map[int]int{}
	fileOf := map[string]string{} // "c/g" -> lookup file of the goroutine's current lookup
	get := func(c int) *inst {
		k := fmt.Sprintf("%d.%d", c, epoch[c])
		if insts[k] == nil {
			insts[k] = &inst{callers: map[string]int{}, fileKey: map[string]int{}}
		}
		return insts[k]
	}
	private := map[string]bool{}
	for _, lk := range out.looks {
		if lk.private {
			private[fmt.Sprintf("%d/%s/%d", lk.c, lk.g, lk.from)] = true
		}
	}
	var order []string
	for _, ev := range out.env.trace {
		if ev.C < 0 {
			continue
		}
		cg := fmt.Sprintf("%d/%s", ev.C, ev.G)
		switch ev.Kind {
		case "new":
			epoch[ev.C]++
		case "start":
			if private[fmt.Sprintf("%d/%s/%d", ev.C, ev.G, ev.Seq)] {
				continue
			}
			in := get(ev.C)
			at := strings.LastIndexByte(ev.File, '@')
			remote, ok := clLookupFile(ev.File[:at], ev.File[at+1:])
			if !ok {
				continue
			}
			file := clName + remote
			if _, ok := in.fileKey[file]; !ok {
				in.fileKey[file] = 7 + len(in.fileKey)
			}
			idx := len(in.keys)
			in.callers[ev.G] = idx
			in.keys = append(in.keys, in.fileKey[file])
			in.evs = append(in.evs, "c"+itoa(idx))
			in.conc = true
			fileOf[cg] = file
			k := fmt.Sprintf("%d.%d", ev.C, epoch[ev.C])
			found := false
			for _, o := range order {
				if o == k {
					found = true
				}
			}
			if !found {
				order = append(order, k)
			}
		case "rc":
			if f, ok := fileOf[cg]; ok && ev.File == f {
				in := get(ev.C)
				in.evs = append(in.evs, "f"+itoa(in.callers[ev.G]))
			}
		case "ret":
			if _, ok := fileOf[cg]; ok {
				in := get(ev.C)
				in.evs = append(in.evs, "r"+itoa(in.callers[ev.G]))
				delete(fileOf, cg)
			}
		}
	}
	var lines []string
	for _, k := range order {
		in := insts[k]
		if !in.conc || len(in.keys) == 0 {
			continue
		}
		ks := make([]string, len(in.keys))
		for i, x := range in.keys {
			ks[i] = itoa(x)
		}
		lines = append(lines, "client.pctrace "+strings.Join(ks, ",")+" "+strings.Join(in.evs, ","))
	}
	return lines
}

// clLatestTrace renders the `client.trace` line of a run (ok=false when the run cannot be expressed: invalid heads …).
func clLatestTrace(out *clOutcome, hostile bool) (string, bool) {
	w := out.w
	type gstate struct {
		mode   string // "", "key", "merge"
		thread int
		kind   string // "init" | "look"
	}
	var threads []string
	var evs []string
	good := true
	tok := func(msg []byte) string {
		s, ok := clHeadTok(w, msg)
		if !ok {
			good = false
			return "-"
		}
		return s
	}
	epoch := map[int]int{}
	mclient := map[string]int{} // "c.epoch" -> machine client index
	mc := func(c int) int {
		k := fmt.Sprintf("%d.%d", c, epoch[c])
		if _, ok := mclient[k]; !ok {
			mclient[k] = len(mclient)
		}
		return mclient[k]
	}
	gs := map[string]*gstate{}
	isPrivate := map[string]bool{}
	retKind := map[string]string{}
	for _, lk := range out.looks {
		isPrivate[fmt.Sprintf("%d/%s/%d", lk.c, lk.g, lk.from)] = lk.private
	}
	newThread := func(c int, presented []byte, priv bool) int {
		p := "0"
		if priv {
			p = "1"
		}
		threads = append(threads, fmt.Sprintf("%d:%s:%s", mc(c), tok(presented), p))
		evs = append(evs, "b."+itoa(len(threads)-1))
		return len(threads) - 1
	}
	endThread := func(st *gstate, k int) {
		if st.mode == "merge" {
			evs = append(evs, fmt.Sprintf("e.%d.%d", st.thread, k))
		}
		st.mode = ""
	}
	// c0: the stored head before the first client instance was created
	var c0 []byte
	firstNew := -1
	for _, ev := range out.env.trace {
		if ev.Kind == "new" {
			firstNew = ev.Seq
			break
		}
	}
	_ = firstNew
	for _, cv := range out.env.cfgHist {
		if cv.by < 0 {
			c0 = cv.val
		} else {
			break
		}
	}
	// a scenario that sets the configuration after clients started cannot be expressed
	seenClient := false
	for _, cv := range out.env.cfgHist {
		if cv.by >= 0 {
			seenClient = true
		} else if seenClient {
			return "", false
		}
	}
	_ = retKind
	for _, ev := range out.env.trace {
		if ev.C < 0 {
			continue
		}
		cg := fmt.Sprintf("%d/%s", ev.C, ev.G)
		if ev.G == "t" {
			continue // tile goroutines: inside checkTrees / checkRecord, not modelled here
		}
		st := gs[cg]
		if st == nil {
			st = &gstate{}
			gs[cg] = st
		}
		switch ev.Kind {
		case "new":
			epoch[ev.C]++
		case "start":
			if isPrivate[fmt.Sprintf("%d/%s/%d", ev.C, ev.G, ev.Seq)] {
				t := newThread(ev.C, nil, true)
				st.mode, st.thread, st.kind = "merge", t, "private"
			}
		case "rf":
			switch {
			case ev.File == "key":
				st.mode = "key"
			case ev.File == clName+"/latest" && st.mode == "key":
				if ev.Err != "" {
					return "", false
				}
				t := newThread(ev.C, ev.Data, false)
				st.mode, st.thread, st.kind = "merge", t, "init"
			case ev.File == clName+"/latest" && st.mode == "merge":
				evs = append(evs, fmt.Sprintf("r.%d.%s", st.thread, tok(ev.Data)))
			default:
				return "", false
			}
		case "wf":
			if st.mode != "merge" {
				return "", false
			}
			k := "o"
			if ev.Err == "conflict" {
				k = "c"
			} else if ev.Err != "" {
				return "", false
			}
			evs = append(evs, fmt.Sprintf("w.%d.%s.%s.%s", st.thread, tok(ev.Old), tok(ev.Data), k))
		case "sec":
			if st.mode != "merge" {
				return "", false
			}
			older, newer, ok := clSecNotes(ev.Data)
			if !ok {
				return "", false
			}
			evs = append(evs, fmt.Sprintf("s.%d.%s.%s", st.thread, tok(older), tok(newer)))
		case "rc", "rr":
			isLookup := (ev.Kind == "rc" && strings.HasPrefix(ev.File, clName+"/lookup/")) || (ev.Kind == "rr" && strings.HasPrefix(ev.File, "/lookup/"))
			if !isLookup {
				continue // tile reads made on the lookup goroutine do not occur; ignore anything else
			}
			if st.mode == "merge" && st.kind == "init" {
				endThread(st, 0) // the record fetch starts only after init succeeded
			}
			if ev.Err != "" {
				continue
			}
			_, _, rest, err := tlog.ParseRecord(ev.Data)
			if err != nil {
				continue // the client returns before mergeLatest
			}
			t := newThread(ev.C, rest, false)
			st.mode, st.thread, st.kind = "merge", t, "look"
		case "wc":
			if strings.HasPrefix(ev.File, clName+"/lookup/") && st.mode == "merge" {
				endThread(st, 0)
			}
		case "ret":
			switch {
			case st.mode != "merge":
			case st.kind == "private":
				endThread(st, 2)
			case ev.Err == "ok":
				endThread(st, 0)
			case ev.Err == "err:security":
				endThread(st, 1)
			default:
				endThread(st, 3)
			}
			st.mode = ""
		}
	}
	if !good || len(threads) == 0 || len(threads) > 14 {
		return "", false
	}
	p := w.p
	if w.B == nil {
		p = 0
	}
	h := "0"
	if hostile {
		h = "1"
	}
	return fmt.Sprintf("client.trace %d %s %s %s %s", p, h, tok(c0), strings.Join(threads, ","), strings.Join(evs, ",")), good
}

func init() {
	c14GenTraces = func(g *Gen, n int) {
		wseed := g.U64()%1000 + 1
		// traces are validated by a search over the invisible steps of the Lean machine: keep the quick-tier bounds
		// (at most 4 goroutines, 2 clients) in every tier — the thorough tier validates MORE traces, not larger ones
		saved := thorough
		thorough = false
		defer func() { thorough = saved }()
		emit := func(line, suffix string) {
			sc, ok := clParseScenario(strings.Fields(line)[1:])
			if !ok {
				return
			}
			out := clRunScenario(sc)
			if out.bad || out.hang {
				return
			}
			for _, l := range clPcTrace(out) {
				g.Emit(l, strings.Count(l, "c") > 2, "pctrace"+suffix)
			}
			if l, ok := clLatestTrace(out, false); ok {
				g.Emit(l, strings.Contains(l, ".c") || strings.Count(l, "b.") > 3, "trace"+suffix)
			} else {
				g.st.Tags["trace-not-expressible"]++
			}
		}
		for i := 0; i < n; i++ {
			line, _ := c14Scenario(g.Rand, wseed+uint64(i%5))
			if i%5 == 4 {
				line = c14StaleFlushScenario(g.Rand, wseed+uint64(i%5), true)
			}
			emit(line, "")
		}
		// deep trees under tile height 1 (see c14DeepParScenario): the machines do not see tile reads, so these traces
		// are no harder to validate than the others; a couple per run (the worlds are expensive to build), last and
		// from a generator of their own so that the stream of the scenarios above is unchanged
		if n >= 50 {
			r := &Rand{s: wseed*0x9e3779b97f4a7c15 + 0xdee7}
			for i := 0; i < 2; i++ {
				emit(c14DeepParScenario(r, wseed+uint64(i)), "/deep")
			}
		}
		// early readers on a shared cache (see c14LateReaderScenario): a head that reaches a client through a cached
		// record is a head the machine must accept like one from the network; last and from a generator of their own.
		// Only the latest-head trace: clPcTrace linearises the once-cache of a client from the start/ret events of
		// scheduled goroutines, and these scenarios run sequential lookups on the same client instance beforehand
		// (a later goroutine is then served by an entry whose fetch the extraction does not see).
		r2 := &Rand{s: wseed*0x9e3779b97f4a7c15 + 0x1a7d}
		for i := 0; i < n/10; i++ {
			line, _ := c14LateReaderScenario(r2, wseed+uint64(i%5))
			sc, ok := clParseScenario(strings.Fields(line)[1:])
			if !ok {
				continue
			}
			out := clRunScenario(sc)
			if out.bad || out.hang {
				continue
			}
			if l, ok := clLatestTrace(out, false); ok {
				g.Emit(l, strings.Contains(l, ".c") || strings.Count(l, "b.") > 3, "trace/late-reader")
			} else {
				g.st.Tags["trace-not-expressible"]++
			}
		}
	}
	c13GenTraces = func(g *Gen, n int) {
		if n <= 0 {
			return
		}
		cases := c13Cases(g)
		if len(cases) == 0 {
			return
		}
		stride := (len(cases) + n - 1) / n
		if stride < 1 {
			stride = 1
		}
		off := g.Intn(stride)
		nconc := 0
		for i, c := range cases {
			isConc := strings.HasPrefix(c.tag, "concurrent/")
			if isConc && nconc < n/4 && g.Intn(8) == 0 {
				nconc++
			} else if i%stride != off {
				continue
			}
			sc, ok := clParseScenario(strings.Fields(c.line)[1:])
			if !ok {
				continue
			}
			out := clRunScenario(sc)
			if out.bad || out.hang {
				continue
			}
			if l, ok := clLatestTrace(out, true); ok {
				g.Emit(l, strings.Contains(l, "B"), "trace/"+strings.SplitN(c.tag, "/", 2)[0])
			} else {
				g.st.Tags["trace-not-expressible"]++
			}
		}
	}
}
