package main

// C20 — go.mod / go.work parsing is total, positioned, lax ⊇ strict, ModulePath agrees.
// Implementation side of the `modfile.` ops, canonical dumps, generators and oracles.
// (C02 in c02.go uses the helpers and generators of this file.)

import (
	"errors"
	"fmt"
	"strconv"
	"strings"
	"unicode"
	"unicode/utf8"

	"golang.org/x/mod/modfile"
	"golang.org/x/mod/module"
	"golang.org/x/mod/semver"
)

const c20FileName = "go.mod"

func init() {
	impls["modfile.parsesyntax"] = func(a []string) string {
		fs, err := modfile.ParseSyntax(c20FileName, []byte(unhx(a[0])))
		if err != nil {
			return c20ShowSynErr(err)
		}
		return c20ShowFile(fs)
	}
	impls["modfile.format"] = func(a []string) string {
		fs, err := modfile.ParseSyntax(c20FileName, []byte(unhx(a[0])))
		if err != nil {
			return c20ShowSynErr(err)
		}
		return "ok " + hx(string(modfile.Format(fs)))
	}
	impls["modfile.reformat"] = func(a []string) string {
		fs, err := modfile.ParseSyntax(c20FileName, []byte(unhx(a[0])))
		if err != nil {
			return c20ShowSynErr(err)
		}
		fs2, err := modfile.ParseSyntax(c20FileName, modfile.Format(fs))
		if err != nil {
			return "second-" + c20ShowSynErr(err)
		}
		return "ok " + hx(string(modfile.Format(fs2)))
	}
	impls["modfile.parse"] = func(a []string) string {
		f, err := modfile.Parse(c20FileName, []byte(unhx(a[1])), c20FixOf(a[0]))
		if err != nil {
			return c20ShowRuleErrs(err)
		}
		return c20ShowTyped(f)
	}
	impls["modfile.parselax"] = func(a []string) string {
		f, err := modfile.ParseLax(c20FileName, []byte(unhx(a[1])), c20FixOf(a[0]))
		if err != nil {
			return c20ShowRuleErrs(err)
		}
		return c20ShowTyped(f)
	}
	impls["modfile.parsework"] = func(a []string) string {
		f, err := modfile.ParseWork(c20FileName, []byte(unhx(a[1])), c20FixOf(a[0]))
		if err != nil {
			return c20ShowRuleErrs(err)
		}
		return c20ShowWork(f)
	}
	impls["modfile.modulepath"] = func(a []string) string { return hx(modfile.ModulePath([]byte(unhx(a[0])))) }
	impls["modfile.autoquote"] = func(a []string) string {
		s := unhx(a[0])
		return showBool(modfile.MustQuote(s)) + " " + hx(modfile.AutoQuote(s))
	}
	impls["modfile.isdirpath"] = func(a []string) string { return showBool(modfile.IsDirectoryPath(unhx(a[0]))) }
	impls["modfile.goversionre"] = func(a []string) string {
		s := unhx(a[0])
		lax := "nomatch"
		if m := c20LaxGoVersionRE.FindStringSubmatch(s); m != nil {
			lax = hx(m[1])
		}
		return showBool(modfile.GoVersionRE.MatchString(s)) + " " + lax
	}
	impls["modfile.toolchainre"] = func(a []string) string { return showBool(modfile.ToolchainRE.MatchString(unhx(a[0]))) }
	impls["modfile.deprecatedre"] = func(a []string) string {
		if m := c20DeprecatedRE.FindStringSubmatch(unhx(a[0])); m != nil {
			return hx(m[1])
		}
		return "nomatch"
	}
	impls["modfile.unquote"] = func(a []string) string {
		t, err := strconv.Unquote(unhx(a[0]))
		if err != nil {
			return "err"
		}
		return "ok " + hx(t)
	}
	impls["modfile.quote"] = func(a []string) string { return hx(strconv.Quote(unhx(a[0]))) }
	impls["modfile.trimspace"] = func(a []string) string { return hx(strings.TrimSpace(unhx(a[0]))) }
	impls["modfile.fields"] = func(a []string) string { return hxList(strings.Fields(unhx(a[0]))) }
	impls["modfile.isprint"] = func(a []string) string {
		r := rune(atoi(a[0]))
		return showBool(unicode.IsPrint(r) && strconv.IsPrint(r)) + " " + showBool(unicode.IsSpace(r))
	}
	register(&Prop{ID: "C20", Gen: genC20, Oracle: oracleC20,
		Rule: "grammar-directed go.mod/go.work files (all directive kinds, single-line and block forms, quoting, comments before/suffix/after/in blocks/before ')', blank lines, CRLF, BOM, unknown verbs and blocks), one-byte mutations of those, token soup, malformed byte streams (unterminated strings/blocks, /* */, stray brackets, NUL, invalid UTF-8, Unicode spaces), long lines, end-of-input family (context x last-line shape x UTF-8 width of the payload x terminator, swept and behind randomly truncated files), block lines whose first token begins with a directive keyword (x suffix-comment layout x module directive before/after, swept for `module`, random for all keywords), files with several retract / require directives of which a later one carries a version the stub fixer rejects (every accept/reject pattern of 2 and 3 directives x lines/blocks x module directive first/last/middle/missing swept, up to 7 directives random; always parsed with the stub fixer), one physical line of 65535 / 65536 / 70000 / 200000 bytes in front of or being the module directive (12 shapes x LF/CRLF); leaf ops for quoting/regexps/TrimSpace; non-trivial = parses to >= 2 statements or fails past the first token; distinct by op line"})
}

// ---- version fixer stub (mirrors ModVerif.Modfile.fixStub)

func c20FixStub(path, v string) (string, error) {
	switch {
	case strings.HasPrefix(v, "bad"):
		return "", errors.New("verif-fix-plain")
	case strings.HasPrefix(v, "modbad"):
		return "", &module.ModuleError{Path: path, Err: errors.New("verif-fix-mod")}
	case semver.IsValid(v):
		return module.CanonicalVersion(v), nil
	case v == "latest":
		return "v1.0.0", nil
	case v == "master":
		return "v0.0.0-20200101000000-000000000000", nil
	case v == "pathlen":
		return "v1." + strconv.Itoa(len(path)) + ".0", nil
	}
	return "", errors.New("verif-fix-plain")
}

func c20FixOf(s string) modfile.VersionFixer {
	if s == "stub" {
		return c20FixStub
	}
	return nil
}

// ---- canonical dumps

func c20Pos(p modfile.Position) string { return fmt.Sprintf("%d.%d.%d", p.Line, p.LineRune, p.Byte) }

func c20Comment(c modfile.Comment) string {
	s := "0"
	if c.Suffix {
		s = "1"
	}
	return c20Pos(c.Start) + "~" + hx(c.Token) + "~" + s
}

func c20CommentList(l []modfile.Comment) string {
	out := make([]string, len(l))
	for i, c := range l {
		out[i] = c20Comment(c)
	}
	return "[" + strings.Join(out, ",") + "]"
}

func c20Comments(c *modfile.Comments) string {
	return "b" + c20CommentList(c.Before) + "s" + c20CommentList(c.Suffix) + "a" + c20CommentList(c.After)
}

// c20LineIDs numbers the lines of a tree in source order (the model's Line.id).
func c20LineIDs(fs *modfile.FileSyntax) map[*modfile.Line]int {
	ids := map[*modfile.Line]int{}
	for _, st := range fs.Stmt {
		switch x := st.(type) {
		case *modfile.Line:
			ids[x] = len(ids)
		case *modfile.LineBlock:
			for _, l := range x.Line {
				ids[l] = len(ids)
			}
		}
	}
	return ids
}

func c20Bool01(b bool) string {
	if b {
		return "1"
	}
	return "0"
}

func c20Line(l *modfile.Line, ids map[*modfile.Line]int) string {
	return fmt.Sprintf("L(%d;%s;%s;%s;%s;%s)", ids[l], c20Pos(l.Start), c20Pos(l.End), c20Bool01(l.InBlock), hxList(l.Token), c20Comments(&l.Comments))
}

func c20ShowFile(fs *modfile.FileSyntax) string {
	ids := c20LineIDs(fs)
	out := []string{"ok F(" + c20Comments(&fs.Comments) + ")"}
	for _, st := range fs.Stmt {
		switch x := st.(type) {
		case *modfile.CommentBlock:
			out = append(out, "C("+c20Pos(x.Start)+";"+c20Comments(&x.Comments)+")")
		case *modfile.Line:
			out = append(out, c20Line(x, ids))
		case *modfile.LineBlock:
			ls := make([]string, len(x.Line))
			for i, l := range x.Line {
				ls[i] = c20Line(l, ids)
			}
			out = append(out, fmt.Sprintf("B(%s;%s;%s;%s;%s;%s;%s;%s)", c20Pos(x.Start), hxList(x.Token), c20Pos(x.LParen.Pos), c20Comments(&x.LParen.Comments),
				c20Pos(x.RParen.Pos), c20Comments(&x.RParen.Comments), c20Comments(&x.Comments), strings.Join(ls, "|")))
		default:
			out = append(out, fmt.Sprintf("?%T", st))
		}
	}
	return strings.Join(out, " ")
}

// c20ErrKind maps one modfile.Error to the model's kind enum (by the fixed prefix of the
// message produced by the code, or structurally for wrapped errors; never by user-controlled text).
func c20ErrKind(e modfile.Error) string {
	if e.Err == nil {
		return "nil-error"
	}
	if inner, ok := e.Err.(*modfile.Error); ok {
		// parseVersion's *Error{Verb, ModPath, Err}
		var ive *module.InvalidVersionError
		if errors.As(inner.Err, &ive) {
			if ive.Err != nil && ive.Err.Error() == "must be of the form v1.2.3" {
				return "version-not-canonical"
			}
			return "version-string"
		}
		if inner.Err != nil && inner.Err.Error() == "verif-fix-mod" {
			return "fix-module-error"
		}
		return "unknown-wrapped"
	}
	if e.ModPath != "" || e.Verb != "" {
		// wrapModPathError
		if _, ok := e.Err.(*module.InvalidVersionError); ok {
			return "path-major-mismatch"
		}
		if e.Err.Error() == "invalid module path" {
			return "invalid-module-path"
		}
		return "unknown-modpath"
	}
	msg := e.Err.Error()
	table := []struct{ pre, kind string }{
		{"internal lexer error", "syn-internal-readrune"},
		{"internal parse error", "syn-internal-parseline"},
		{"internal error", "syn-internal-panic"},
		{"mod files must use // comments", "syn-block-comment"},
		{"unexpected EOF in string", "syn-eof-in-string"},
		{"unexpected newline in string", "syn-newline-in-string"},
		{"unexpected input character", "syn-bad-char"},
		{"syntax error (unterminated block", "syn-unterminated-block"},
		{"syntax error (expected newline after closing paren", "syn-after-rparen"},
		{"unknown block type: ", "unknown-block"},
		{"unknown directive: ", "unknown-directive"},
		{"repeated go statement", "repeated-go"},
		{"go directive expects exactly one argument", "go-args"},
		{"invalid go version '", "invalid-go-version"},
		{"repeated toolchain statement", "repeated-toolchain"},
		{"toolchain directive expects exactly one argument", "toolchain-args"},
		{"invalid toolchain version '", "invalid-toolchain"},
		{"repeated module statement", "repeated-module"},
		{"usage: module module/path", "module-usage"},
		{"invalid quoted string: ", "invalid-quoted-string"},
		{"usage: godebug key=value", "godebug-usage"},
		{"usage: require module/path v1.2.3", "require-usage"},
		{"usage: exclude module/path v1.2.3", "require-usage"},
		{"verif-fix-plain", "fix-error"},
		{"invalid module path", "invalid-module-path"},
		{"usage: replace module/path [v1.2.3] => ", "replace-usage"},
		{"replacement module must match format 'path version'", "replace-at-version"},
		{"replacement module without version must be directory path", "replace-needs-dir"},
		{"replacement directory appears to be Windows path", "replace-windows-path"},
		{"replacement module directory path ", "replace-dir-with-version"},
		{"expected '[' or version", "interval-start"},
		{"expected version after '['", "interval-after-lbracket"},
		{"expected ',' after version", "interval-comma"},
		{"expected version after ','", "interval-after-comma"},
		{"expected ']' after version", "interval-rbracket"},
		{"unexpected token after version: ", "token-after-version"},
		{"tool directive expects exactly one argument", "tool-args"},
		{"usage: use local/dir", "use-usage"},
		{"no module directive found, so retract cannot be used", "retract-no-module"},
	}
	for _, t := range table {
		if strings.HasPrefix(msg, t.pre) {
			return t.kind
		}
	}
	return "unknown-message"
}

func c20ErrList(err error) modfile.ErrorList {
	var el modfile.ErrorList
	if errors.As(err, &el) {
		return el
	}
	return nil
}

func c20ShowSynErr(err error) string {
	el := c20ErrList(err)
	if len(el) != 1 {
		return fmt.Sprintf("err-list-of-%d", len(el))
	}
	return "err " + c20Pos(el[0].Pos) + " " + strings.TrimPrefix(c20ErrKind(el[0]), "syn-")
}

func c20ShowRuleErrs(err error) string {
	el := c20ErrList(err)
	if el == nil {
		return "err-not-a-list"
	}
	out := make([]string, len(el))
	for i, e := range el {
		out[i] = c20Pos(e.Pos) + ":" + c20ErrKind(e)
	}
	return "err " + strings.Join(out, ";")
}

func c20MV(m module.Version) string { return hx(m.Path) + "/" + hx(m.Version) }

func c20Brackets(l []string) string { return "[" + strings.Join(l, ",") + "]" }

func c20ShowGo(g *modfile.Go, ids map[*modfile.Line]int) string {
	if g == nil {
		return "-"
	}
	return hx(g.Version) + "/" + itoa(ids[g.Syntax])
}

func c20ShowToolchain(t *modfile.Toolchain, ids map[*modfile.Line]int) string {
	if t == nil {
		return "-"
	}
	return hx(t.Name) + "/" + itoa(ids[t.Syntax])
}

func c20ShowGodebugs(l []*modfile.Godebug, ids map[*modfile.Line]int) string {
	out := []string{}
	for _, g := range l {
		out = append(out, hx(g.Key)+"/"+hx(g.Value)+"/"+itoa(ids[g.Syntax]))
	}
	return c20Brackets(out)
}

func c20ShowReplaces(l []*modfile.Replace, ids map[*modfile.Line]int) string {
	out := []string{}
	for _, r := range l {
		out = append(out, c20MV(r.Old)+"/"+c20MV(r.New)+"/"+itoa(ids[r.Syntax]))
	}
	return c20Brackets(out)
}

func c20ShowTyped(f *modfile.File) string {
	ids := c20LineIDs(f.Syntax)
	m := "-"
	if f.Module != nil {
		m = c20MV(f.Module.Mod) + "/" + hx(f.Module.Deprecated) + "/" + itoa(ids[f.Module.Syntax])
	}
	req, exc, ret, tool := []string{}, []string{}, []string{}, []string{}
	for _, r := range f.Require {
		req = append(req, c20MV(r.Mod)+"/"+showBool(r.Indirect)+"/"+itoa(ids[r.Syntax]))
	}
	for _, r := range f.Exclude {
		exc = append(exc, c20MV(r.Mod)+"/"+itoa(ids[r.Syntax]))
	}
	for _, r := range f.Retract {
		ret = append(ret, hx(r.Low)+"/"+hx(r.High)+"/"+hx(r.Rationale)+"/"+itoa(ids[r.Syntax]))
	}
	for _, t := range f.Tool {
		tool = append(tool, hx(t.Path)+"/"+itoa(ids[t.Syntax]))
	}
	return "ok mod=" + m + " go=" + c20ShowGo(f.Go, ids) + " tc=" + c20ShowToolchain(f.Toolchain, ids) + " gd=" + c20ShowGodebugs(f.Godebug, ids) +
		" req=" + c20Brackets(req) + " exc=" + c20Brackets(exc) + " rep=" + c20ShowReplaces(f.Replace, ids) + " ret=" + c20Brackets(ret) +
		" tool=" + c20Brackets(tool) + " fmt=" + hx(string(modfile.Format(f.Syntax)))
}

func c20ShowWork(f *modfile.WorkFile) string {
	ids := c20LineIDs(f.Syntax)
	use := []string{}
	for _, u := range f.Use {
		use = append(use, hx(u.Path)+"/"+hx(u.ModulePath)+"/"+itoa(ids[u.Syntax]))
	}
	return "ok go=" + c20ShowGo(f.Go, ids) + " tc=" + c20ShowToolchain(f.Toolchain, ids) + " gd=" + c20ShowGodebugs(f.Godebug, ids) +
		" use=" + c20Brackets(use) + " rep=" + c20ShowReplaces(f.Replace, ids) + " fmt=" + hx(string(modfile.Format(f.Syntax)))
}

// ---- generators

var c20Paths = []string{"example.com/m", "a.b/c", "golang.org/x/mod", "gopkg.in/yaml.v2", "example.com/m/v2", "rsc.io/quote/v3", "gopkg.in/check.v1",
	"x", "github.com/a/b", "é.com/ü", "example.com/a+b", "gopkg.in/x.v0-unstable", "example.com/v2", "m/v3",
	"example.com/a\u00a0b", "x\u2003y.com/z", "a\u3000b", "example.com/with space", "example.com/q(r)", "example.com/tab\tbed"}
var c20OddPaths = []string{"example.com/m/v1", "example.com/m/v02", "x y", "", "(", ")", ",", "[", "a//b", "a/*b", "a\"b", "a'b", "a`b", "a\\b", "a\tb", "a\x00b", "a\xffb", "a\u00a0b", "a\u2028b", "[x", "a,b", "a\u200bb", "日本語", "a\x7fb", "module", "retract", "=>", "a\u00adb"}
var c20Versions = []string{"v1.0.0", "v1.2.3", "v0.0.0-20200101000000-abcdefabcdef", "v2.0.0+incompatible", "v2.3.4", "v3.0.0", "v0.1.0-pre", "v1.2.3-rc.1", "v1.0.0+meta", "v0.0.0", "v1.2.3-0.20200101000000-abcdefabcdef"}
var c20OddVersions = []string{"v1", "v1.2", "v2", "latest", "master", "pathlen", "bad1", "modbadx", "1.2.3", "v1.2.3.4", "", "v01.2.3", "v1.2.3 ", "v1 .0", "vX", "retract", "[", "v1.2.3+incompatible", "v1.2.3-", "none"}
var c20Dirs = []string{"./a", "../b", "/abs/dir", ".", "..", "./a b", ".\\w", "C:\\x", "c:/y", "./", "\\r"}
var c20GoVersions = []string{"1.21", "1.21.0", "1.22rc1", "1.9", "1.21.13", "1.0", "2.0", "1.21.0rc2", "1.21beta1"}
var c20OddGoVersions = []string{"1", "1.21.x", "v1.21", "1.21-foo", "v1.21.3-pre", "01.2", "1.02", "1.21.", "1.21rc", "1.2.3.4", "go1.21", "1.21 ", "1.21é", "1.21\xff", "\"1.21\"", "1.21+x"}
var c20Toolchains = []string{"go1.21.0", "default", "go1", "go1.", "go1.21.0-gccgo", "go1.22rc1"}
var c20OddToolchains = []string{"go2", "go", "go10", "defaults", "1.21", "\"go1.21\"", "go1x", "default "}
var c20Godebugs = []string{"a=b", "panicnil=1", "x=", "=y", "a=b=c", "default=go1.21"}
var c20OddGodebugs = []string{"ab", "a,b=c", "\"a=b\"", "a='b'", "`a`=b"}
var c20CommentTexts = []string{"// c", "//", "// indirect", "//indirect", "// indirect; reason", "//  indirect ;x", "// Deprecated: use other", "// Deprecated:", "// Deprecated:   spaced  ",
	"// not Deprecated: x", "//\t tab ", "// trailing spaces   ", "// é ü", "// \xff invalid", "// a // b", "// /* x */", "// \u00a0nbsp\u00a0", "// (", "// \"q", "// x\ry", "// 100% sure", "// %s %d %v %!", "// %", "//%%"}
var c20UnknownVerbs = []string{"frobnicate", "future", "modulex", "goo", "replacex", "ignore", "uses"}
var c20Spaces = []string{" ", " ", " ", "  ", "\t", " \t ", "\r"}

// c20OddScale scales the probability of odd atoms (percent); set per generated file so that a good
// share of files is entirely well-formed.
var c20OddScale = 100

func c20Pick(r *Rand, common, odd []string, oddPct int) string {
	if r.Intn(10000) < oddPct*c20OddScale {
		return r.Pick(odd)
	}
	return r.Pick(common)
}

// c20NeedsQuote: the documented rule for when a string must be quoted to be one go.mod token, written
// independently of modfile.MustQuote (the generator must not inherit a defect of the code under test):
// empty, contains white space, a quote character, a non-printable rune, a comment opener, or a
// bracket/comma unless it is the whole string.
func c20NeedsQuote(s string) bool {
	if s == "" || strings.Contains(s, "//") || strings.Contains(s, "/*") {
		return true
	}
	for _, r := range s {
		switch {
		case unicode.IsSpace(r) || !unicode.IsPrint(r) || r == '"' || r == '\'' || r == '`':
			return true
		case strings.ContainsRune("()[]{},", r) && len(s) > 1:
			return true
		}
	}
	return false
}

// c20Quote renders an atom as a token: bare, "quoted" or `raw`, biased towards forms that stay one token.
func c20Quote(r *Rand, s string) string {
	need := c20NeedsQuote(s)
	switch {
	case need && (c20OddScale == 0 || r.Chance(85)):
		return strconv.Quote(s)
	case r.Chance(12):
		return strconv.Quote(s)
	case r.Chance(4):
		return "`" + s + "`"
	case r.Chance(2):
		return "'" + s + "'"
	}
	return s
}

func c20Sp(r *Rand) string { return r.Pick(c20Spaces) }

func c20Suffix(r *Rand, pct int) string {
	if r.Chance(pct) {
		return c20Sp(r) + r.Pick(c20CommentTexts)
	}
	return ""
}

// c20Before returns 0..3 whole-line comments (each with newline) at the given indent.
func c20Before(r *Rand, indent string, pct int) string {
	if !r.Chance(pct) {
		return ""
	}
	var b strings.Builder
	for n := 1 + r.Intn(3); n > 0; n-- {
		b.WriteString(indent + r.Pick(c20CommentTexts) + "\n")
	}
	return b.String()
}

func c20Path(r *Rand) string    { return c20Quote(r, c20Pick(r, c20Paths, c20OddPaths, 8)) }
func c20Version(r *Rand) string { return c20Quote(r, c20Pick(r, c20Versions, c20OddVersions, 12)) }

// c20ArgLine: the argument tokens of one directive line (without verb).
func c20ArgLine(r *Rand, verb string) string {
	sp := c20Sp(r)
	switch verb {
	case "module":
		if r.Chance(5) {
			return c20Path(r) + sp + c20Path(r)
		}
		return c20Path(r)
	case "go":
		return c20Pick(r, c20GoVersions, c20OddGoVersions, 25)
	case "toolchain":
		return c20Pick(r, c20Toolchains, c20OddToolchains, 25)
	case "godebug":
		return c20Pick(r, c20Godebugs, c20OddGodebugs, 20)
	case "require", "exclude":
		if r.Chance(5) {
			return c20Path(r)
		}
		p := c20Pick(r, c20Paths, c20OddPaths, 8)
		v := c20Pick(r, c20Versions, c20OddVersions, 12)
		if r.Chance(60) {
			// make the version fit the path's major suffix most of the time
			if _, pm, ok := module.SplitPathVersion(p); ok && pm != "" {
				m := module.PathMajorPrefix(pm)
				v = m + ".1.0"
				if r.Chance(20) {
					v = m + ".0.0-20200101000000-abcdefabcdef"
				}
			}
		}
		return c20Quote(r, p) + sp + c20Quote(r, v)
	case "replace":
		old := c20Path(r)
		if r.Chance(50) {
			old += sp + c20Version(r)
		}
		arrow := "=>"
		if r.Chance(4) {
			arrow = r.Pick([]string{"=", "->", "= >", ""})
		}
		var nw string
		switch r.Intn(4) {
		case 0, 1:
			nw = c20Path(r) + sp + c20Version(r)
		case 2:
			nw = c20Quote(r, r.Pick(c20Dirs))
		default:
			nw = c20Quote(r, r.Pick([]string{"example.com/x@v1.0.0", "example.com/nodir", "./d"})) + r.Pick([]string{"", "", " v1.0.0"})
		}
		return old + sp + arrow + sp + nw
	case "retract":
		switch r.Intn(8) {
		case 0, 1, 2:
			return c20Version(r)
		case 3, 4, 5:
			comma := ","
			if r.Chance(30) {
				comma = " , "
			}
			return "[" + c20Sp(r)[:r.Intn(2)] + c20Version(r) + comma + c20Version(r) + r.Pick([]string{"]", " ]"})
		case 6:
			return r.Pick([]string{"[v1.0.0", "[v1.0.0,", "[v1.0.0, v1.1.0", "[", "[v1.0.0 v1.1.0]", "v1.0.0 extra", "(v1.0.0, v1.1.0)", "[v1.0.0, v1.1.0] extra", "retract v1.0.0", "[\"v1.0.0\", 'x']"})
		default:
			return c20Version(r) + sp + c20Version(r)
		}
	case "tool", "use":
		if verb == "use" {
			return c20Quote(r, c20Pick(r, c20Dirs, c20OddPaths, 10))
		}
		return c20Path(r)
	}
	// unknown verb: random args
	n := r.Intn(4)
	out := []string{}
	for i := 0; i < n; i++ {
		out = append(out, c20Quote(r, r.Pick([]string{"a", "b/c", "v1.0.0", "=>", "x y", "1.21"})))
	}
	return strings.Join(out, sp)
}

// c20Chunk: one statement (with its own leading comments), ending with a newline.
func c20Chunk(r *Rand, verb string, blockPct int) string {
	var b strings.Builder
	b.WriteString(c20Before(r, "", 25))
	lead := ""
	if r.Chance(5) {
		lead = c20Sp(r)
	}
	if !r.Chance(blockPct) {
		b.WriteString(lead + verb + c20Sp(r) + c20ArgLine(r, verb) + c20Suffix(r, 30) + "\n")
		return b.String()
	}
	// block form
	b.WriteString(lead + verb + c20Sp(r) + "(" + c20Suffix(r, 15) + "\n")
	n := r.Intn(5)
	if r.Chance(10) {
		n = 0
	}
	for i := 0; i < n; i++ {
		if r.Chance(20) {
			b.WriteString(r.Pick([]string{"\n", "\n\n", " \t\n"}))
		}
		b.WriteString(c20Before(r, "\t", 20))
		b.WriteString("\t" + c20ArgLine(r, verb) + c20Suffix(r, 30) + "\n")
	}
	if r.Chance(15) {
		b.WriteString("\n")
	}
	b.WriteString(c20Before(r, "\t", 15)) // comments before ")"
	b.WriteString(")" + c20Suffix(r, 15) + "\n")
	return b.String()
}

var c20ModVerbs = []string{"module", "go", "toolchain", "godebug", "require", "require", "require", "exclude", "replace", "replace", "retract", "retract", "tool"}
var c20WorkVerbs = []string{"go", "toolchain", "godebug", "use", "use", "replace"}

// c20GenChunks builds a file as a list of chunks; kind "mod" or "work".
func c20GenChunks(r *Rand, kind string, unknownPct int) []string {
	verbs := c20ModVerbs
	if kind == "work" {
		verbs = c20WorkVerbs
	}
	var chunks []string
	if kind == "mod" && r.Chance(85) {
		chunks = append(chunks, c20Chunk(r, "module", 10))
	}
	if r.Chance(70) {
		chunks = append(chunks, c20Chunk(r, "go", 0))
	}
	for n := r.Intn(6); n > 0; n-- {
		v := r.Pick(verbs)
		if v == "module" && r.Chance(80) {
			continue
		}
		if v == "go" || v == "toolchain" {
			if r.Chance(70) {
				continue
			}
			chunks = append(chunks, c20Chunk(r, v, 3))
			continue
		}
		chunks = append(chunks, c20Chunk(r, v, 45))
	}
	if r.Chance(unknownPct) {
		i := r.Intn(len(chunks) + 1)
		u := c20UnknownChunk(r)
		chunks = append(chunks[:i:i], append([]string{u}, chunks[i:]...)...)
	}
	if r.Chance(15) { // free-standing comment block
		i := r.Intn(len(chunks) + 1)
		cb := c20Before(r, "", 100) + "\n"
		chunks = append(chunks[:i:i], append([]string{cb}, chunks[i:]...)...)
	}
	if r.Chance(10) { // shuffle a little
		r2 := r.Intn(len(chunks) + 1)
		if r2 > 1 {
			chunks[0], chunks[r2-1] = chunks[r2-1], chunks[0]
		}
	}
	return chunks
}

// every verb of File.add / WorkFile.add: a block whose header has a known verb FIRST and more tokens
// after it is still an unknown block type.
var c20AllVerbs = []string{"module", "go", "require", "exclude", "replace", "retract", "tool", "godebug", "toolchain", "use"}
var c20HeaderExtras = []string{"future", "v2", "because", "also", "x", "\"q r\"", "=>", "[", ",", "(", "v1.0.0", "require", "]"}
var c20GarbageTokens = []string{"a", "b/c", "v1.0.0", "=>", "x y", "1.21", "[", "]", ",", "{", "}", "\"q\"", "`r`", "'s'", "a\"b", "é", "\xff", "//c", "module", "(", "v1", "k=v"}

// c20KnownVerbMultiBlock: `verb extra… (` + body + `)`, the body being valid lines of that verb or garbage.
func c20KnownVerbMultiBlock(r *Rand, verb string, garbage bool) string {
	var b strings.Builder
	b.WriteString(c20Before(r, "", 15))
	b.WriteString(verb)
	for n := 1 + r.Intn(2); n > 0; n-- {
		b.WriteString(c20Sp(r) + r.Pick(c20HeaderExtras))
	}
	b.WriteString(c20Sp(r) + "(" + c20Suffix(r, 10) + "\n")
	saved := c20OddScale
	c20OddScale = 0
	for n := r.Intn(4); n > 0; n-- {
		b.WriteString(c20Before(r, "\t", 10))
		if garbage {
			toks := []string{}
			for k := 1 + r.Intn(4); k > 0; k-- {
				toks = append(toks, r.Pick(c20GarbageTokens))
			}
			b.WriteString("\t" + strings.Join(toks, " ") + "\n")
		} else {
			b.WriteString("\t" + c20ArgLine(r, verb) + c20Suffix(r, 20) + "\n")
		}
	}
	c20OddScale = saved
	b.WriteString(c20Before(r, "\t", 10))
	b.WriteString(")" + c20Suffix(r, 10) + "\n")
	return b.String()
}

// c20UnknownChunkKind: a statement the lax parser must ignore; isBlock says whether it is a block
// (the strict parser must then report "unknown block type").
func c20UnknownChunkKind(r *Rand) (string, bool) {
	v := r.Pick(c20UnknownVerbs)
	switch r.Intn(6) {
	case 0:
		return c20Chunk(r, v, 100), true
	case 1:
		return v + " x (\n\ta b\n)\n", true // block with two header tokens
	case 2, 3:
		return c20KnownVerbMultiBlock(r, r.Pick(c20AllVerbs), false), true
	case 4:
		return c20KnownVerbMultiBlock(r, r.Pick(c20AllVerbs), true), true
	}
	return c20Chunk(r, v, 0), false
}

func c20UnknownChunk(r *Rand) string {
	s, _ := c20UnknownChunkKind(r)
	return s
}

// c20Join joins chunks with 0..2 blank lines and applies whole-file layout variations.
func c20Join(r *Rand, chunks []string) string {
	var b strings.Builder
	for i, c := range chunks {
		if i > 0 {
			b.WriteString(r.Pick([]string{"", "\n", "\n", "\n\n"}))
		}
		b.WriteString(c)
	}
	s := b.String()
	if r.Chance(8) {
		s = strings.ReplaceAll(s, "\n", "\r\n")
	}
	if r.Chance(6) {
		s = strings.TrimSuffix(s, "\n") // no final newline
	}
	if r.Chance(2) {
		s = "\xef\xbb\xbf" + s // BOM
	}
	return s
}

func c20GenFile(r *Rand, kind string) string {
	c20OddScale = []int{0, 0, 10, 100}[r.Intn(4)]
	defer func() { c20OddScale = 100 }()
	return c20Join(r, c20GenChunks(r, kind, 12*c20OddScale/100))
}

const c20SoupAlphabet = "abmv01.-/ \t\n\n\r\"`'\\()[]{},=>*/\x00\xff\xc2\x85\xa0\xe2\x80\xa8"

var c20SoupTokens = []string{"module", "go", "require", "replace", "retract", "exclude", "tool", "use", "godebug", "toolchain", "(", ")", "[", "]", "{", "}", ",", "=>",
	"a.b/c", "v1.0.0", "1.21", "\"x y\"", "`raw`", "\"unterminated", "`unterminated", "//c", "// c", "/*", "*/", "/* x */", "a//b", "a/*b", "\"esc\\\"q\"", "\"\\", "x/", "/",
	"\xff", "\xc2", "\u00a0", "\u2028", "\u0085", "\ufeff", "\x00", "\x7f", "é", "日本", "'q'", "a\"b", "\\", "=", "\"\"", "``", "\"\\x41\\u00e9\\U0001F600\\101\\n\"", "\"\\q\"", "\"p\\\nq\""}

// c20EscapedNewlineLine: a line with a double-quoted token containing backslash-newline (the lexer
// accepts it, so the Line spans two source lines), with or without end-of-line comments around it.
func c20EscapedNewlineLine(r *Rand) string {
	tok := r.Pick([]string{"\"p\\\nq\"", "\"\\\n\"", "\"a b\\\n c\\\nd\"", "\"\\\\\\\n\""})
	words := []string{"a", "b", "x", "use", "require", "v1.0.0"}
	line := []string{}
	for n := r.Intn(3); n > 0; n-- {
		line = append(line, r.Pick(words))
	}
	line = append(line, tok)
	for n := r.Intn(2); n > 0; n-- {
		line = append(line, r.Pick(words))
	}
	out := ""
	if r.Chance(60) {
		out = r.Pick(words) + " " + r.Pick(words) + c20Suffix(r, 60) + "\n"
	}
	out += strings.Join(line, " ") + c20Suffix(r, 60) + "\n"
	if r.Chance(30) {
		out = "r (\n\t" + strings.ReplaceAll(strings.TrimSuffix(out, "\n"), "\n", "\n\t") + "\n)" + c20Suffix(r, 30) + "\n"
	}
	return out
}

func c20Soup(r *Rand) string {
	var b strings.Builder
	if r.Chance(8) {
		b.WriteString(c20EscapedNewlineLine(r))
	}
	for n := r.Intn(14); n > 0; n-- {
		b.WriteString(r.Pick(c20SoupTokens))
		b.WriteString(r.Pick([]string{" ", " ", "", "\n", "\n", "\t", "\r\n", " \n", "  "}))
	}
	return b.String()
}

func c20Malformed(r *Rand) string {
	return r.Bytes(r.Intn(24), c20SoupAlphabet)
}

func c20LongLine(r *Rand) string {
	n := 3000 + r.Intn(5000)
	if thorough {
		n = 60000 + r.Intn(60000)
	}
	body := strings.Repeat(r.Pick([]string{"a", "ab/", "é", "x.y/", "\xff"}), n/2)
	switch r.Intn(5) {
	case 0:
		return "module " + body + "\n"
	case 1:
		return "require " + body + " v1.0.0 // " + body + "\n"
	case 2:
		return "x \"" + body + "\n"
	case 3:
		return "// " + body
	}
	// many tokens on one line (capped: the list-based model recomputes the remaining length per token)
	k := n / 8
	if k > 1500 {
		k = 1500
	}
	return "retract (\n\t" + strings.Repeat("v1.0.0 ", k) + body[:n/4] + "\n)\n"
}

// c20GenInput returns an input text and its family tag.
func c20GenInput(r *Rand) (string, string) {
	switch k := r.Intn(100); {
	case k < 45:
		return c20GenFile(r, "mod"), "gomod"
	case k < 58:
		return c20GenFile(r, "work"), "gowork"
	case k < 72:
		kind := "mod"
		if r.Chance(25) {
			kind = "work"
		}
		s := c20GenFile(r, kind)
		for n := 1 + r.Intn(2); n > 0; n-- {
			s = mutate(r, s, c20SoupAlphabet)
		}
		return s, "mutated"
	case k < 86:
		return c20Soup(r), "soup"
	case k < 99:
		return c20Malformed(r), "malformed"
	}
	if thorough && !r.Chance(4) {
		// 100 kB lines are 0.04% of the thorough stream (each is a 200 kB op line)
		return c20GenFile(r, "mod"), "gomod"
	}
	return c20LongLine(r), "longline"
}

var c20Boundary = []string{"", "\n", "\r", "\r\n", " ", "//", "//\n", "// c", "/", "/*", "x", "x\n", "(", ")", "(\n", ")\n", "x (", "x (\n", "x ( )", "x ( )\n", "x ( ) y\n", "x ( y\n",
	"x (\n)", "x (\n)\n", "x (\n) y\n", "x (\n\n)\n", "x (\n// c\n)\n", "x (\ny\n// c\n\n)\n", "x ( // c\n)\n", "x (\n) // c\n", "x ( ) // c\n", "\"", "`", "\"\\", "\"a\nb\"", "`a\nb`",
	"\xef\xbb\xbfmodule x\n", "x // a\n// b\ny\n", "// a\n\n// b\nx\n", "// a\nx\n// b\n", "x\n\n\n\ny\n", "module x // Deprecated: y\n", "module (\n\t// Deprecated: z\n\tx\n)\n",
	"require (\n\tmodule v1.0.0\n)\nmodule example.com/m\n", "module (\n)\nmodule example.com/m\n", "retract (\n\tretract v1.0.0\n)\n", "go 1.21\ngo 1.22\n", "module x y\nmodule z\nretract v1.0.0\n",
	"retract [\"v1.0.0\", 'x']\n", "retract \"v1 .0\"\n", "require \"(\" v1.0.0\n", "x ( ) (\n)\n", "a\u00a0// c\n", "a \xc2// c\n", "\u2028// c\n", "x y // c1 // c2\n", "x\t//c\r\n",
	"module example.com/m\nrequire future (\n\texample.com/extra v1.0.0\n)\n", "module example.com/m\nrequire v2 (\n\texample.com/extra v1.0.0\n)\nretract because (\n\tv1.5.0\n)\n",
	"module also (\n\texample.com/other\n)\nmodule example.com/m\n", "go x (\n\t1.21\n)\n", "exclude a b (\n\tgarbage [ , ]\n)\nuse x (\n\t./a\n)\n", "x % y // 100% %s %d\n",
	"a b // c1\nx \"p\\\nq\" // c2\n", "r (\n\ta b // c1\n\tx \"p\\\nq\" // c2\n)\n", "x \"p\\\nq\"\n", "x \"\\\\\\\nq\"\n",
	"module \"a//b\"\n", "module `x`\n", "module 'x'\n", "  module   x  \n", "module\tx\r\n", "module x\r", "modulex y\n", "module\u00a0x\n"}

func c20Nontrivial(s string) bool {
	fs, err := modfile.ParseSyntax(c20FileName, []byte(s))
	if err == nil {
		return len(fs.Stmt) >= 2
	}
	el := c20ErrList(err)
	first := len(s) - len(strings.TrimLeft(s, " \t\r\n"))
	if i := strings.IndexAny(s[first:], " \t\r\n"); i >= 0 {
		first += i
	} else {
		first = len(s)
	}
	return len(el) > 0 && el[0].Pos.Byte > first
}

// c20Emit emits one op and records the error kinds / result shape of its output as tags.
func c20Emit(g *Gen, line string, nt bool, tag string) {
	out := g.Emit(line, nt, tag)
	switch {
	case strings.HasPrefix(out, "err "):
		for _, e := range strings.Split(out[4:], ";") {
			k := e
			if i := strings.LastIndexAny(e, ": "); i >= 0 {
				k = e[i+1:]
			}
			g.st.Tags["kind:"+k]++
		}
	case strings.HasPrefix(out, "second-err"):
		g.st.Tags["kind:second-parse-error"]++
	case strings.HasPrefix(out, "ok"):
		g.st.Tags["accepted"]++
	}
}

func c20EmitOps(g *Gen, s, tag string, all bool) {
	nt := c20Nontrivial(s)
	h := hx(s)
	fix := "nofix"
	if g.Chance(35) {
		fix = "stub"
	}
	pick := g.Intn(7)
	if all || pick == 0 {
		c20Emit(g, "modfile.parsesyntax "+h, nt, tag)
	}
	if all || pick == 1 {
		c20Emit(g, "modfile.format "+h, nt, tag)
	}
	if all || pick == 2 {
		c20Emit(g, "modfile.reformat "+h, nt, tag)
	}
	if all || pick == 3 || pick == 6 {
		if tag == "gowork" {
			c20Emit(g, "modfile.parsework "+fix+" "+h, nt, tag)
		} else {
			c20Emit(g, "modfile.parse "+fix+" "+h, nt, tag)
		}
	}
	if all || pick == 4 {
		c20Emit(g, "modfile.parselax "+fix+" "+h, nt, tag)
	}
	if all || pick == 5 {
		if g.Bool() {
			c20Emit(g, "modfile.modulepath "+h, nt, tag)
		} else {
			c20Emit(g, "modfile.parsework "+fix+" "+h, nt, tag)
		}
	}
	if all {
		c20Emit(g, "modfile.parse stub "+h, nt, tag)
		c20Emit(g, "modfile.parselax stub "+h, nt, tag)
		c20Emit(g, "modfile.parsework stub "+h, nt, tag)
		c20Emit(g, "modfile.modulepath "+h, nt, tag)
	}
}

func c20LeafOps(g *Gen) {
	atom := func() string {
		switch g.Intn(6) {
		case 0:
			return g.Pick(c20OddPaths)
		case 1:
			return g.Pick(c20SoupTokens)
		case 2:
			return g.Bytes(g.Intn(8), c20SoupAlphabet)
		case 3:
			return mutate(g.Rand, g.Pick(c20SoupTokens), c20SoupAlphabet)
		case 4:
			return g.Pick(c20CommentTexts)
		}
		return g.Pick(c20Paths)
	}
	switch g.Intn(11) {
	case 0:
		g.Emit("modfile.autoquote "+hx(atom()), true, "leaf")
	case 1:
		s := atom()
		if g.Bool() {
			s = strconv.Quote(s)
			if g.Chance(30) {
				s = mutate(g.Rand, s, "\\\"xu0123nU'`")
			}
		}
		if !strings.HasPrefix(s, "\"") && !strings.HasPrefix(s, "`") {
			s = "\"" + s // modfile calls strconv.Unquote only on strings starting with " or `
		}
		g.Emit("modfile.unquote "+hx(s), true, "leaf")
	case 2:
		g.Emit("modfile.quote "+hx(atom()), true, "leaf")
	case 3:
		pad := func() string {
			return g.Pick([]string{"", " ", "\t", "\u00a0", "\u2028", "\u0085", "\xc2", "\x85", "\xe2\x80", "\r\n", "\v\f", "\u3000", "\xa0", "\xe2"})
		}
		g.Emit("modfile.trimspace "+hx(pad()+pad()+atom()+pad()+pad()), true, "leaf")
	case 4:
		g.Emit("modfile.fields "+hx(atom()+g.Pick([]string{" ", "\u00a0", "\t", "\xc2"})+atom()), true, "leaf")
	case 5:
		s := c20Pick(g.Rand, c20GoVersions, c20OddGoVersions, 50)
		if g.Chance(30) {
			s = mutate(g.Rand, s, "0123456789.vrcx-\n\xff")
		}
		g.Emit("modfile.goversionre "+hx(s), true, "leaf")
	case 6:
		s := c20Pick(g.Rand, c20Toolchains, c20OddToolchains, 50)
		if g.Chance(30) {
			s = mutate(g.Rand, s, "go1.default\n")
		}
		g.Emit("modfile.toolchainre "+hx(s), true, "leaf")
	case 7:
		parts := []string{}
		for n := g.Intn(5); n > 0; n-- {
			parts = append(parts, g.Pick([]string{"Deprecated: x", "Deprecated:", "Deprecated:   y z", "", "", "text", "deprecated: no", "Deprecated: a\nb", " Deprecated: sp"}))
		}
		g.Emit("modfile.deprecatedre "+hx(strings.Join(parts, "\n")), true, "leaf")
	case 8:
		g.Emit("modfile.isdirpath "+hx(c20Pick(g.Rand, c20Dirs, c20Paths, 40)), true, "leaf")
	default:
		var rn int
		switch g.Intn(4) {
		case 0:
			rn = g.Intn(0x300)
		case 1:
			rn = g.Intn(0x3000)
		case 2:
			rn = g.Intn(0x110000)
		default:
			rn = []int{0, 0x20, 0x7f, 0x85, 0xa0, 0xad, 0x1680, 0x2000, 0x200a, 0x200b, 0x2028, 0x2029, 0x202f, 0x205f, 0x3000, 0xfeff, 0xfffd, 0xd800, 0x10ffff, 0xe000}[g.Intn(20)]
		}
		g.Emit("modfile.isprint "+itoa(rn), true, "leaf")
	}
}

// ---- input class "end of input" (added for C20 only; C02 keeps using c20GenInput / c20Boundary)
//
// Why it was missing: the grammar-directed files end with a newline (6% lose only the final "\n" of a
// complete file), and unterminated blocks / strings arose only from one-byte mutations, so the state
// "the input ends in the middle of a line, inside an open block, after non-ASCII text" was practically
// never produced. That state is the only one in which the lexer's position AFTER the last token is
// observable (through the end-of-input errors: unterminated block, EOF in string, …), i.e. the only
// place where the column bookkeeping of the last line is checked by the position clause.
//
// The class: (context before the last line) × (shape of the last line) × (payload by UTF-8 width:
// ASCII, 2-, 3-, 4-byte runes, invalid bytes, mixed, empty) × (line terminator: none, LF, CRLF, lone CR).
// It is swept exhaustively (small scope) and also sampled at random behind a truncated random file.

var c20EOFContexts = []string{
	"",
	"module example.com/m\n\ngo 1.21\n\n",
	"module example.com/m\n\nrequire (\n\texample.com/x v1.0.0\n",
	"go 1.21\nuse (\n",
}

// payloads by encoded width of their runes
var c20EOFPayloads = []string{"abc def", "à suivre", "続く", "\U0001F600 ok \U00010348", "\xff\xfe x", "a é日\U0001F600z", ""}

// shapes of the last line; %s is the payload
var c20EOFShapes = []string{
	"// %s",                      // whole-line comment
	"\t// %s",                    // indented whole-line comment
	"example.com/y v1.2.3 // %s", // tokens and a suffix comment
	"\t./a //%s",                 // glued suffix comment
	"tok %s",                     // bare tokens (non-ASCII identifiers, bad characters)
	"x \"%s",                     // unterminated interpreted string
	"x `%s",                      // unterminated raw string
	") // %s",                    // closing parenthesis and comment
	"y ( // %s",                  // a block opened on the last line
	"x \"%s\" z",                 // quoted token followed by another token
}

var c20EOFTerminators = []string{"", "\n", "\r\n", "\r"}

func c20EOFLastLine(shape, payload string) string { return strings.Replace(shape, "%s", payload, 1) }

// c20EOFSweep calls f on every member of the exhaustive small-scope family.
func c20EOFSweep(f func(s string)) {
	for _, ctx := range c20EOFContexts {
		for _, shape := range c20EOFShapes {
			for _, p := range c20EOFPayloads {
				for _, t := range c20EOFTerminators {
					f(ctx + c20EOFLastLine(shape, p) + t)
				}
			}
		}
	}
}

// c20Truncated: a random grammar-directed file cut at a random byte (possibly inside a rune, a string,
// a comment or a block), optionally continued by a last line of the end-of-input family.
func c20Truncated(r *Rand) string {
	kind := "mod"
	if r.Chance(25) {
		kind = "work"
	}
	s := c20GenFile(r, kind)
	switch r.Intn(3) {
	case 0: // anywhere
		s = s[:r.Intn(len(s)+1)]
	case 1: // after a line
		if i := strings.LastIndexByte(s[:r.Intn(len(s)+1)], '\n'); i >= 0 {
			s = s[:i+1]
		} else {
			s = ""
		}
	default: // just after an opening parenthesis line, if there is one
		if i := strings.Index(s, "(\n"); i >= 0 {
			j := i + 2
			// keep a random number of the block's lines
			for r.Chance(50) {
				k := strings.IndexByte(s[j:], '\n')
				if k < 0 || strings.HasPrefix(strings.TrimLeft(s[j:], " \t"), ")") {
					break
				}
				j += k + 1
			}
			s = s[:j]
		}
	}
	if r.Chance(70) {
		s += c20EOFLastLine(r.Pick(c20EOFShapes), r.Pick(c20EOFPayloads)) + r.Pick(c20EOFTerminators)
	}
	return s
}

// ---- input class "block line whose first token merely BEGINS with a directive keyword"
//
// Why it was missing: the atoms of the generated lines (c20Paths, godebug keys, …) never begin with a
// keyword, the module directive is the first statement of 85% of the generated files, and the only
// keyword-prefixed words were the unknown top-level verbs (`modulex`), which make the strict parser
// reject the file, so the ModulePath clause did not apply. ModulePath is a line scanner that does not know
// about blocks and looks for the text `module` at the start of a line; the strict parser looks at the
// statement's first TOKEN. Where both must agree although the line starts with the keyword's letters is
// exactly: a line inside a require/exclude/replace/tool/godebug block whose first token is longer than
// the keyword (with every layout of suffix comment after it), before or after the real module directive.
//
// The class: (block verb and line shape) × (keyword-prefixed atom) × (suffix comment layout) × (module
// directive before / after the block); indentation, CRLF and the module directive's own layout vary
// with the case number. Exhaustive for the keyword `module` (the one ModulePath scans for), random for
// the other keywords.

var c20KeywordTails = []string{"s.example.com/kit", ".example.com/x", "cache/y", "-x.io/a", "_x/a", "x", "1.io/v"}

// c20BlockLineShapes: verb + line template, %s is the atom (godebug lines are keys: atom "=1" form)
var c20BlockLineShapes = []struct{ verb, line string }{
	{"require", "%s v1.2.3"},
	{"exclude", "%s v1.2.3"},
	{"replace", "%s => ./local"},
	{"replace", "%s v1.0.0 => example.com/r v1.0.1"},
	{"tool", "%s"},
	{"godebug", "%s=1"},
}

var c20SuffixLayouts = []string{"", " // indirect", "// glued", "\t//x", "  //", " // a // b", " // é module x"}

var c20ModuleDirectives = []string{"module example.com/app\n", "module \"example.com/app\" // the module\n", "module\texample.com/app\r\n", "  module `example.com/app`  \n",
	"// Deprecated: no\nmodule example.com/app // c\n"}

func c20KeywordAtom(verb, kw, tail string) string {
	if verb == "godebug" {
		// a godebug key must not contain '/' … keep the letters only
		return kw + strings.Map(func(c rune) rune {
			if c == '/' || c == '.' {
				return -1
			}
			return c
		}, tail)
	}
	return kw + tail
}

// c20KeywordFile builds one member of the family; k varies the secondary layout choices.
func c20KeywordFile(verb, lineT, atom, suffix string, moduleFirst bool, k int) string {
	indent := []string{"\t", "", "  ", "\t\t"}[k%4]
	line := indent + strings.Replace(lineT, "%s", atom, 1) + suffix + "\n"
	other := map[string]string{"require": "\texample.com/other v1.0.0\n", "exclude": "\texample.com/other v1.0.0\n", "replace": "\texample.com/other => ../o\n",
		"tool": "\texample.com/other/cmd\n", "godebug": "\tpanicnil=1\n"}[verb]
	block := verb + " (\n"
	switch (k / 4) % 3 {
	case 0:
		block += line + other
	case 1:
		block += other + line
	default:
		block += line
	}
	block += ")\n"
	mod := c20ModuleDirectives[(k/12)%len(c20ModuleDirectives)]
	var s string
	if moduleFirst {
		s = mod + "\ngo 1.21\n\n" + block
	} else {
		s = block + "\n" + mod + "\ngo 1.21\n"
	}
	if (k/60)%4 == 3 {
		s = strings.ReplaceAll(strings.ReplaceAll(s, "\r\n", "\n"), "\n", "\r\n")
	}
	return s
}

// c20KeywordSweep: exhaustive over shapes × tails × suffix layouts × position for the keyword `module`.
func c20KeywordSweep(f func(s string)) {
	k := 0
	for _, sh := range c20BlockLineShapes {
		for _, tail := range c20KeywordTails {
			for _, suf := range c20SuffixLayouts {
				for _, first := range []bool{false, true} {
					f(c20KeywordFile(sh.verb, sh.line, c20KeywordAtom(sh.verb, "module", tail), suf, first, k))
					k += 7 // co-prime with the layout cycle lengths: all secondary layouts are visited
				}
			}
		}
	}
}

// c20KeywordRandom: the same family with any keyword, several blocks, statements in random order.
func c20KeywordRandom(r *Rand) string {
	chunks := []string{r.Pick(c20ModuleDirectives)}
	if r.Chance(70) {
		chunks = append(chunks, "go 1.21\n")
	}
	for n := 1 + r.Intn(3); n > 0; n-- {
		sh := c20BlockLineShapes[r.Intn(len(c20BlockLineShapes))]
		var b strings.Builder
		b.WriteString(sh.verb + " (" + c20Suffix(r, 10) + "\n")
		for m := 1 + r.Intn(3); m > 0; m-- {
			kw := "module"
			if r.Chance(40) {
				kw = r.Pick(c20AllVerbs)
			}
			atom := c20KeywordAtom(sh.verb, kw, r.Pick(c20KeywordTails))
			if r.Chance(20) {
				atom = r.Pick(c20Paths[:9])
				if sh.verb == "godebug" {
					atom = "panicnil"
				}
			}
			b.WriteString(r.Pick([]string{"\t", "\t", "", "  "}) + strings.Replace(sh.line, "%s", atom, 1) + r.Pick(c20SuffixLayouts) + "\n")
		}
		b.WriteString(")\n")
		chunks = append(chunks, b.String())
	}
	for i := len(chunks) - 1; i > 0; i-- { // random order: the module directive is anywhere
		j := r.Intn(i + 1)
		chunks[i], chunks[j] = chunks[j], chunks[i]
	}
	s := strings.Join(chunks, r.Pick([]string{"", "\n"}))
	if r.Chance(10) {
		s = strings.ReplaceAll(strings.ReplaceAll(s, "\r\n", "\n"), "\n", "\r\n")
	}
	if r.Chance(10) {
		s = strings.TrimSuffix(s, "\n")
	}
	return s
}

// c20GenInputC20: C20's own random stream = the shared families plus the two classes above.
func c20GenInputC20(r *Rand) (string, string) {
	switch k := r.Intn(100); {
	case k < 5:
		return c20Truncated(r), "truncated"
	case k < 9:
		return c20KeywordRandom(r), "keyword-prefix"
	}
	return c20GenInput(r)
}

func genC20(g *Gen, n int) {
	for _, s := range c20Boundary {
		c20EmitOps(g, s, "boundary", true)
	}
	// end-of-input family: the syntax layer on every member, one directive-layer entry point in turn
	i := 0
	c20EOFSweep(func(s string) {
		h := hx(s)
		nt := c20Nontrivial(s)
		c20Emit(g, "modfile.parsesyntax "+h, nt, "eof-sweep")
		if i%2 == 0 {
			c20Emit(g, []string{"modfile.parse nofix ", "modfile.parsework nofix ", "modfile.parselax nofix "}[(i/2)%3]+h, nt, "eof-sweep")
		}
		i++
	})
	// keyword-prefix family: the line scanner on every member, the strict parser on every other one
	i = 0
	c20KeywordSweep(func(s string) {
		h := hx(s)
		c20Emit(g, "modfile.modulepath "+h, true, "keyword-sweep")
		if i%2 == 0 {
			c20Emit(g, "modfile.parse nofix "+h, true, "keyword-sweep")
		}
		i++
	})
	// fixer rejects a later directive (util_c20classes.go): both entry points with the stub fixer on every member
	i = 0
	c20FixSweep(func(f c20FixFile) {
		c20GenFix(g, f, "fix-sweep", i)
		i++
	})
	// one very long physical line at or before the module directive (util_c20classes.go). Each op line is
	// 130–400 kB: the line scanner on the three lengths around 64 KiB of every shape, the strict parser on one
	// length per shape in turn (the thorough tier: everything on every member)
	i = 0
	c20LongSweep(func(s, shape string, size int) {
		if shape == "token-run-before" {
			return // thousands of tokens on one line: the list-based model is quadratic there (oracle only)
		}
		if thorough || size <= 70000 {
			c20Emit(g, "modfile.modulepath "+hx(s), true, "long-sweep")
		}
		if thorough || size == c20LongSizes[(i/8)%3] && i%2 == 0 {
			// the REGENERATED directive layer needs 10–90 s for one 64 kB token (hand model: 30 ms): those
			// members are compared with the hand model only
			c20NoMirrorParse = c20LongTokenShapes[shape]
			c20Emit(g, "modfile.parse nofix "+hx(s), true, "long-sweep")
			c20NoMirrorParse = false
		}
		i++
	})
	// The deterministic families above (with their derived and mirrored ops) are more than the quick tier's n
	// by themselves: the random stream gets at least n/2 ops of its own.
	if n < g.st.Ops+n/2 {
		n = g.st.Ops + n/2
	}
	for g.st.Ops < n {
		if g.Chance(12) {
			c20LeafOps(g)
			continue
		}
		if g.Chance(3) {
			c20GenFix(g, c20FixRandom(g.Rand), "fix-later-directive", g.Intn(4))
			continue
		}
		s, tag := c20GenInputC20(g.Rand)
		c20EmitOps(g, s, tag, false)
	}
}

// ---- oracles (implementation only)

// c20PosOK: Line = 1 + count('\n' before Byte), LineRune = 1 + runes since the last newline.
func c20PosOK(data string, p modfile.Position) bool {
	if p.Byte < 0 || p.Byte > len(data) {
		return false
	}
	pre := data[:p.Byte]
	if p.Line != 1+strings.Count(pre, "\n") {
		return false
	}
	return p.LineRune == 1+utf8.RuneCountInString(pre[strings.LastIndex(pre, "\n")+1:])
}

// c20CheckTreePositions checks every Position of a tree returned by ParseSyntax against the input.
// Documented exception: the blank-line placeholder comment inside blocks (Token == "" and zero Start).
func c20CheckTreePositions(data string, fs *modfile.FileSyntax) string {
	at := func(p modfile.Position, text string) bool {
		return c20PosOK(data, p) && strings.HasPrefix(data[p.Byte:], text)
	}
	endsAt := func(p modfile.Position, text string) bool {
		return c20PosOK(data, p) && strings.HasSuffix(data[:p.Byte], text)
	}
	comments := func(c *modfile.Comments, where string) string {
		for _, l := range [][]modfile.Comment{c.Before, c.Suffix, c.After} {
			for _, com := range l {
				if com.Token == "" && com.Start == (modfile.Position{}) {
					continue // blank-line placeholder
				}
				if !at(com.Start, com.Token) {
					return "comment position in " + where
				}
			}
		}
		return ""
	}
	line := func(l *modfile.Line) string {
		if len(l.Token) == 0 {
			return "line without tokens"
		}
		if !at(l.Start, l.Token[0]) {
			return "line start"
		}
		if !endsAt(l.End, l.Token[len(l.Token)-1]) {
			return "line end"
		}
		return comments(&l.Comments, "line")
	}
	if w := comments(&fs.Comments, "file"); w != "" {
		return w
	}
	for _, st := range fs.Stmt {
		switch x := st.(type) {
		case *modfile.CommentBlock:
			if len(x.Before) == 0 || x.Start != x.Before[0].Start {
				return "comment block start"
			}
			if w := comments(&x.Comments, "comment block"); w != "" {
				return w
			}
		case *modfile.Line:
			if w := line(x); w != "" {
				return w
			}
		case *modfile.LineBlock:
			if len(x.Token) == 0 || !at(x.Start, x.Token[0]) {
				return "block start"
			}
			if !at(x.LParen.Pos, "(") {
				return "lparen"
			}
			if !at(x.RParen.Pos, ")") {
				return "rparen"
			}
			for _, c := range []*modfile.Comments{&x.Comments, &x.LParen.Comments, &x.RParen.Comments} {
				if w := comments(c, "block"); w != "" {
					return w
				}
			}
			for _, l := range x.Line {
				if w := line(l); w != "" {
					return w
				}
			}
		}
	}
	return ""
}

// c20CheckErrors: every error has a consistent position and none is an internal error.
func c20CheckErrors(data string, err error) string {
	el := c20ErrList(err)
	if el == nil {
		return "error is not an ErrorList"
	}
	if len(el) == 0 {
		return "empty error list"
	}
	for _, e := range el {
		if e.Err == nil {
			return "nil error in list"
		}
		if strings.Contains(e.Err.Error(), "internal") && strings.HasPrefix(c20ErrKind(e), "syn-internal") {
			return "internal error reported"
		}
		if !c20PosOK(data, e.Pos) {
			return "error position"
		}
	}
	return ""
}

type c20Core struct {
	mod, dep, goV string
	req, ret      []string
}

func c20CoreOf(f *modfile.File) c20Core {
	var c c20Core
	if f.Module != nil {
		c.mod = "some:" + f.Module.Mod.Path + "@" + f.Module.Mod.Version
		c.dep = f.Module.Deprecated
	}
	if f.Go != nil {
		c.goV = "some:" + f.Go.Version
	}
	for _, r := range f.Require {
		c.req = append(c.req, fmt.Sprintf("%q %q %v", r.Mod.Path, r.Mod.Version, r.Indirect))
	}
	for _, r := range f.Retract {
		c.ret = append(c.ret, fmt.Sprintf("%q %q %q", r.Low, r.High, r.Rationale))
	}
	return c
}

func (a c20Core) eq(b c20Core) bool {
	return a.mod == b.mod && a.dep == b.dep && a.goV == b.goV && strings.Join(a.req, "\n") == strings.Join(b.req, "\n") && strings.Join(a.ret, "\n") == strings.Join(b.ret, "\n")
}

// c20BlockModuleLineBefore: F8's trigger — a line inside a parenthesised block whose first token is
// `module` precedes the real module directive.
func c20BlockModuleLineBefore(f *modfile.File) bool {
	if f.Module == nil || f.Module.Syntax == nil {
		return false
	}
	for _, st := range f.Syntax.Stmt {
		if b, ok := st.(*modfile.LineBlock); ok {
			for _, l := range b.Line {
				if len(l.Token) > 0 && l.Token[0] == "module" && l.Start.Byte < f.Module.Syntax.Start.Byte {
					return true
				}
			}
		}
	}
	return false
}

// c20ModuleBlockHeaderBefore: second trigger of the same defect — the header line `module (` of a
// module block without lines (so the block defines no module) precedes the real module directive.
func c20ModuleBlockHeaderBefore(f *modfile.File) bool {
	if f.Module == nil || f.Module.Syntax == nil {
		return false
	}
	for _, st := range f.Syntax.Stmt {
		if b, ok := st.(*modfile.LineBlock); ok && len(b.Token) == 1 && b.Token[0] == "module" && len(b.Line) == 0 && b.Start.Byte < f.Module.Syntax.Start.Byte {
			return true
		}
	}
	return false
}

// c20SigCount counts reports per classified (known-shape) signature.
var c20SigCount = map[string]int{}

func c20Guard(g *Gen, what string, ops []string, f func()) {
	done := make(chan string, 1)
	go func() {
		defer func() {
			if r := recover(); r != nil {
				done <- fmt.Sprint("panic: ", r)
				return
			}
			done <- ""
		}()
		f()
	}()
	select {
	case s := <-done:
		if s != "" {
			g.Fail(what+" panics", s, ops...)
		}
	case <-c20TimeAfter(opTimeout):
		g.Fail(what+" hangs", "", ops...)
	}
}

func c20OracleInput(g *Gen, s, tag string) {
	data := []byte(s)
	h := hx(s)
	g.Case(tag)
	c20Guard(g, "parser", []string{"modfile.parsesyntax " + h, "modfile.parse nofix " + h, "modfile.parselax nofix " + h, "modfile.parsework nofix " + h, "modfile.modulepath " + h}, func() {
		// syntax layer: positions in tree / error
		fs, err := modfile.ParseSyntax(c20FileName, data)
		if (fs == nil) == (err == nil) {
			g.Fail("ParseSyntax returns neither or both of result and error", s, "modfile.parsesyntax "+h)
		}
		if err != nil {
			if w := c20CheckErrors(s, err); w != "" {
				g.Fail("syntax error list: "+w, s, "modfile.parsesyntax "+h)
			}
		} else if w := c20CheckTreePositions(s, fs); w != "" {
			g.Fail("inconsistent position in syntax tree: "+w, s, "modfile.parsesyntax "+h)
		}
		for _, fix := range []string{"nofix", "stub"} {
			fx := c20FixOf(fix)
			strict, serr := modfile.Parse(c20FileName, data, fx)
			lax, lerr := modfile.ParseLax(c20FileName, data, fx)
			wf, werr := modfile.ParseWork(c20FileName, data, fx)
			for _, r := range []struct {
				nilRes bool
				err    error
				op     string
			}{{strict == nil, serr, "parse"}, {lax == nil, lerr, "parselax"}, {wf == nil, werr, "parsework"}} {
				op := "modfile." + r.op + " " + fix + " " + h
				if r.nilRes == (r.err == nil) {
					g.Fail(r.op+" returns neither or both of result and error", s, op)
				}
				if r.err != nil {
					if w := c20CheckErrors(s, r.err); w != "" {
						g.Fail(r.op+" error list: "+w, s, op)
					}
				}
			}
			// positions of the trees returned by the directive layer (tokens may have been rewritten:
			// consistency of line/column/byte only)
			for _, t := range []*modfile.FileSyntax{c20SyntaxOf(strict), c20SyntaxOf(lax), c20WorkSyntaxOf(wf)} {
				if t == nil {
					continue
				}
				for _, st := range t.Stmt {
					a, b := st.Span()
					if !c20PosOK(s, a) || !c20PosOK(s, b) {
						g.Fail("inconsistent span in typed file's syntax tree", s, "modfile.parse "+fix+" "+h)
					}
				}
			}
			if serr == nil {
				g.Case("strict-accepted")
				// strict accepted => lax accepted, same module / go / require / retract
				if lerr != nil {
					g.Fail("strict accepts but lax rejects", s, "modfile.parse "+fix+" "+h, "modfile.parselax "+fix+" "+h)
				} else if !c20CoreOf(strict).eq(c20CoreOf(lax)) {
					g.Fail("lax differs from strict in module/go/require/retract", s, "modfile.parse "+fix+" "+h, "modfile.parselax "+fix+" "+h)
				}
				// ModulePath agrees when the module directive is a single line naming a valid import path
				if fix == "nofix" && strict.Module != nil && !strict.Module.Syntax.InBlock && module.CheckImportPath(strict.Module.Mod.Path) == nil {
					g.Case("modulepath-applicable")
					if got := modfile.ModulePath(data); got != strict.Module.Mod.Path {
						sig := "modulepath-disagrees"
						if c20BlockModuleLineBefore(strict) {
							sig = "modulepath-block-line"
						} else if c20ModuleBlockHeaderBefore(strict) {
							sig = "modulepath-module-block-header"
						}
						// the two block-unaware shapes are reported a few times only, so that they cannot
						// crowd other failures out of the (bounded) failure list
						if c20SigCount[sig]++; sig == "modulepath-disagrees" || c20SigCount[sig] <= 3 {
							g.Fail(sig, fmt.Sprintf("ModulePath=%q strict=%q input=%q", got, strict.Module.Mod.Path, s), "modfile.modulepath "+h, "modfile.parse nofix "+h)
						} else {
							g.Case("repeat:" + sig)
						}
					}
				}
			}
		}
		_ = modfile.ModulePath(data)
	})
}

func c20SyntaxOf(f *modfile.File) *modfile.FileSyntax {
	if f == nil {
		return nil
	}
	return f.Syntax
}

func c20WorkSyntaxOf(f *modfile.WorkFile) *modfile.FileSyntax {
	if f == nil {
		return nil
	}
	return f.Syntax
}

// c20OracleLaxIgnores: inserting unknown directives / blocks between the statements of a file that
// ParseLax accepts leaves it accepted with the same module / go / require / retract values.
func c20OracleLaxIgnores(g *Gen) {
	chunks := c20GenChunks(g.Rand, "mod", 0)
	var with []string
	blocks := 0
	ins := func() {
		u, isBlock := c20UnknownChunkKind(g.Rand)
		if isBlock {
			blocks++
		}
		with = append(with, u)
	}
	for _, c := range chunks {
		if g.Chance(40) {
			ins()
		}
		with = append(with, c)
	}
	ins()
	c20CheckLaxIgnores(g, chunks, with, blocks, "lax-ignores")
}

// c20CheckLaxIgnores: `with` is `chunks` plus inserted unknown statements (`blocks` of them are blocks).
// If the lax parser accepts the file without them, it accepts the file with them, with the same
// module / go / require / retract values; the strict parser rejects it and reports "unknown block
// type" once per inserted block.
func c20CheckLaxIgnores(g *Gen, chunks, with []string, blocks int, tag string) {
	base := strings.Join(chunks, "\n")
	f0, err := modfile.ParseLax(c20FileName, []byte(base), nil)
	if err != nil {
		return
	}
	ext := strings.Join(with, "\n")
	// the inserted chunks must be syntactically fine (their generator may produce odd atoms) and must
	// each have become exactly one more top-level statement (a base chunk such as `tool (` can open a
	// block that swallows what follows; that is not an insertion "between statements")
	t0, err0 := modfile.ParseSyntax(c20FileName, []byte(base))
	t1, err1 := modfile.ParseSyntax(c20FileName, []byte(ext))
	if err0 != nil || err1 != nil || len(t1.Stmt) != len(t0.Stmt)+len(with)-len(chunks) {
		return
	}
	// … and the statements of the base file must all still be there, unchanged and in order
	s0, _ := c02Shape(t0)
	s1, _ := c02Shape(t1)
	j := 0
	for _, x := range s1 {
		if j < len(s0) && x == s0[j] {
			j++
		}
	}
	if j != len(s0) {
		return
	}
	g.Case(tag)
	ops := []string{"modfile.parselax nofix " + hx(base), "modfile.parselax nofix " + hx(ext), "modfile.parse nofix " + hx(ext)}
	f1, err := modfile.ParseLax(c20FileName, []byte(ext), nil)
	if err != nil {
		g.Fail("lax rejects a file because of unknown directives/blocks", fmt.Sprintf("%q: %v", ext, err), ops...)
	} else if !c20CoreOf(f0).eq(c20CoreOf(f1)) {
		g.Fail("unknown directives/blocks change the lax result", fmt.Sprintf("%q", ext), ops...)
	}
	_, serr := modfile.Parse(c20FileName, []byte(ext), nil)
	if serr == nil {
		g.Fail("strict accepts a file with unknown directives/blocks", fmt.Sprintf("%q", ext), ops...)
	} else {
		n := 0
		for _, e := range c20ErrList(serr) {
			if c20ErrKind(e) == "unknown-block" {
				n++
			}
		}
		if n < blocks {
			g.Fail("strict does not report every unknown block type", fmt.Sprintf("%q: %d of %d", ext, n, blocks), ops...)
		}
	}
}

// c20OracleKnownVerbBlocks: deterministic sweep — for every verb, a multi-token block header starting
// with that verb (valid body / garbage body) appended to a small accepted file.
func c20OracleKnownVerbBlocks(g *Gen) {
	base := []string{"module example.com/m\n", "go 1.21\n", "require a.b/c v1.0.0\n", "retract v1.0.1 // bad\n"}
	for _, verb := range c20AllVerbs {
		for _, garbage := range []bool{false, true} {
			for k := 0; k < 3; k++ {
				u := c20KnownVerbMultiBlock(g.Rand, verb, garbage)
				i := g.Intn(len(base) + 1)
				with := append(append(append([]string{}, base[:i]...), u), base[i:]...)
				c20CheckLaxIgnores(g, base, with, 1, "lax-ignores-known-verb-header")
			}
		}
	}
}

func oracleC20(g *Gen, n int) {
	for _, s := range c20Boundary {
		c20OracleInput(g, s, "boundary")
	}
	c20OracleKnownVerbBlocks(g)
	// the two exhaustive small-scope families (see their definitions for why they exist)
	c20EOFSweep(func(s string) { c20OracleInput(g, s, "eof-sweep") })
	c20KeywordSweep(func(s string) { c20OracleInput(g, s, "keyword-sweep") })
	// the two classes of util_c20classes.go: errors of the version fixer are positioned at their own directive;
	// a very long line at or before the module directive
	c20FixSweep(func(f c20FixFile) { c20OracleFix(g, f, "fix-sweep") })
	c20LongSweep(func(s, shape string, size int) { c20OracleInput(g, s, "long-sweep") })
	for i := 0; i < n; i++ {
		if g.Chance(10) {
			c20OracleLaxIgnores(g)
			continue
		}
		if g.Chance(4) {
			c20OracleFix(g, c20FixRandom(g.Rand), "fix-later-directive")
			continue
		}
		s, tag := c20GenInputC20(g.Rand)
		c20OracleInput(g, s, tag)
	}
}
