package main

// C10 — reads through tiles on UNIFORM logs of any size below 2^62.
//
// Input class added here (gap r6-C10-b). It was missing because every tree of c10.go is a materialised log (tlogBuild
// of at most a few thousand records), so tile numbers never exceeded a few hundred and a level never exceeded 11: the
// whole upper part of the coordinate domain that the property quantifies over ("every tree": sizes up to 2^62, tile
// numbers up to 2^61, H*L up to 61, about 60 tree-hash tiles and walk-ups of 60 parents) was never in an actual
// ReadHashes call. A log in which ALL RECORDS ARE EQUAL needs no storage: the stored hash at an index depends on the
// level of that index only, so the true stored hashes, the true tree hash and the true content of every tile are
// computable for any tree size, and the tile server (honest or with the faults of c10.go) can be run against it.
//
// Everything "true" here is computed from the RFC 6962 definitions and the storage order, with no code shared with
// package tlog (rfcLeaf / rfcNode; index arithmetic by population counts):
//
//	record r stores its leaf hash and then the hashes of the subtrees that r completes, levels 1..tz(r+1);
//	before record r there are f(r) = 2r - popcount(r) stored hashes; hash (level l, number k) is stored by
//	record r = ((k+1) << l) - 1 at index f(r) + l.
//
// op:  tile.readuni N h idx faults seed      (tokens as tile.readhashes; every record is record 0 of the synthetic log `seed`)
// out: as tile.readhashes
//
// Position-set families (c10UniCase): single positions on every level (first / last / random number, numbers of the
// form a*2^s+b), random sets, and PAIRS OF POSITIONS WHOSE TILES ALIAS when a tile coordinate is cut or packed into a
// machine word: tile (L, N) with N = a*2^s + b together with tile (L + a, b) (level held in the bits above a field of
// s bits) or with tile (L, b) (number truncated to s bits), s over the word-structure boundaries (8, 16, …, 56..63)
// and random widths. Tiles that differ must be fetched, authenticated and used as different tiles whatever their
// coordinates look like; on small trees no two tiles of one read agree in the low bits of N with a different L.

import (
	"crypto/sha256"
	"fmt"
	"math/bits"

	"golang.org/x/mod/sumdb/tlog"
)

// c10Uni is the (virtual) hash storage of a log of n equal records.
type c10Uni struct {
	n     int64
	level *[64]tlog.Hash // level[l] = hash of a complete subtree of 2^l records
}

var c10UniLevelCache = map[int]*[64]tlog.Hash{}

func c10UniLevels(seed int) *[64]tlog.Hash {
	if lv, ok := c10UniLevelCache[seed]; ok {
		return lv
	}
	var lv [64]tlog.Hash
	lv[0] = rfcLeaf(tlogSynthRecord(seed, 0))
	for l := 1; l < len(lv); l++ {
		lv[l] = rfcNode(lv[l-1], lv[l-1])
	}
	c10UniLevelCache[seed] = &lv
	return &lv
}

// c10UniBefore: the number of hashes stored before record r (= the number of stored hashes of a tree of r records).
func c10UniBefore(r int64) int64 { return 2*r - int64(bits.OnesCount64(uint64(r))) }

// c10UniIndex: the storage index of hash (level, k); the caller keeps (k+1)<<level below 2^62.
func c10UniIndex(level int, k int64) int64 {
	return c10UniBefore((k+1)<<uint(level)-1) + int64(level)
}

// c10UniSplit: the (level, number) of the hash stored at index x >= 0.
func c10UniSplit(x int64) (level int, k int64) {
	lo, hi := int64(0), int64(1)<<62 // c10UniBefore(lo) <= x < c10UniBefore(hi)
	for hi-lo > 1 {
		mid := lo + (hi-lo)/2
		if c10UniBefore(mid) <= x {
			lo = mid
		} else {
			hi = mid
		}
	}
	level = int(x - c10UniBefore(lo))
	return level, (lo+1)>>uint(level) - 1
}

func (u *c10Uni) hashAt(x int64) (tlog.Hash, bool) {
	if x < 0 || x >= c10UniBefore(u.n) {
		return tlog.Hash{}, false
	}
	l, _ := c10UniSplit(x)
	return u.level[l], true
}

func (u *c10Uni) ReadHashes(idx []int64) ([]tlog.Hash, error) {
	out := make([]tlog.Hash, len(idx))
	for i, x := range idx {
		h, ok := u.hashAt(x)
		if !ok {
			return nil, errTlogReader
		}
		out[i] = h
	}
	return out, nil
}

// treeHash: RFC 6962 MTH of n equal entries: the complete subtrees of the binary expansion of n, combined from the right.
func (u *c10Uni) treeHash() tlog.Hash {
	if u.n == 0 {
		return sha256.Sum256(nil)
	}
	var th tlog.Hash
	first := true
	for b := 0; b < 63; b++ {
		if u.n>>uint(b)&1 == 0 {
			continue
		}
		if first {
			th, first = u.level[b], false
		} else {
			th = rfcNode(u.level[b], th)
		}
	}
	return th
}

// has: the tree holds the W hashes of level H*L with numbers N<<H … N<<H + W-1, 1 <= W <= 2^H (no overflow for any int64 coordinates).
func (u *c10Uni) has(t tlog.Tile) bool {
	if t.H < 1 || t.H > 30 || t.L < 0 || t.L > 62 || t.H*t.L > 62 || t.N < 0 || t.W < 1 || t.W > 1<<uint(t.H) {
		return false
	}
	avail := u.n >> uint(t.H*t.L)
	return avail >= int64(t.W) && t.N <= (avail-int64(t.W))>>uint(t.H)
}

// trueTile: the true content of tile t of the log, nil if the log has no such tile.
func (u *c10Uni) trueTile(t tlog.Tile) []byte {
	if !u.has(t) {
		return nil
	}
	if t.W > 1<<16 {
		panic("c10Uni: tile too wide for the harness")
	}
	lv := u.level[t.H*t.L]
	out := make([]byte, 0, t.W*tlog.HashSize)
	for i := 0; i < t.W; i++ {
		out = append(out, lv[:]...)
	}
	return out
}

var c10UniLogs = map[[2]int64]*c10LogT{}

func c10UniLog(seed int, n int64) *c10LogT {
	k := [2]int64{int64(seed), n}
	if l, ok := c10UniLogs[k]; ok {
		return l
	}
	u := &c10Uni{n: n, level: c10UniLevels(seed)}
	l := &c10LogT{tree: tlog.Tree{N: n, Hash: u.treeHash()}, uni: u}
	if len(c10UniLogs) > 5000 {
		c10UniLogs = map[[2]int64]*c10LogT{}
	}
	c10UniLogs[k] = l
	return l
}

func c10UniOp(n int64, h int, idx []int64, fs []c10Fault, seed int) string {
	return fmt.Sprintf("tile.readuni %d %d %s %s %d", n, h, c10IdxTok(idx), c10FaultsTok(fs), seed)
}

func init() {
	impls["tile.readuni"] = func(a []string) string {
		l := c10UniLog(atoi(a[4]), tlogI64(a[0]))
		hs, res, r := c10Read(l, atoi(a[1]), c10ParseIdx(a[2]), c10ParseFaults(a[3]))
		if res == "ok" {
			res = tlogHashesHex(hs)
		}
		return res + " saved=" + r.savedTok()
	}
	mirror("tile.readuni")
}

// ---- generation

// c10UniSize draws a tree size: mostly above 2^58 (tile numbers beyond any materialised log), shapes 2^k, 2^k ± small
// (one tree-hash tile … about 60 of them), few set bits, random; below 2^62.
func c10UniSize(r *Rand) int64 {
	k := uint(59 + r.Intn(3)) // 2^59 … 2^61
	if r.Chance(25) {
		k = uint(20 + r.Intn(42))
	}
	var n int64
	switch r.Intn(6) {
	case 0:
		n = int64(1) << k
	case 1:
		n = int64(1)<<k + 1 + int64(r.Intn(100000))
	case 2:
		n = int64(1)<<(k+1) - 1 - int64(r.Intn(100000))
	case 3: // few set bits
		n = int64(1) << k
		for i := r.Intn(4); i >= 0; i-- {
			n |= int64(1) << uint(r.Intn(int(k)))
		}
	default:
		n = int64(1)<<k | int64(r.U64()>>uint(64-k))
	}
	if n >= int64(1)<<62 {
		n = int64(1)<<62 - 1 - int64(r.Intn(1000))
	}
	return n
}

// c10UniNumber draws a number in [0, avail): first few, last few, a*2^s+b with small a and b, or random.
func c10UniNumber(r *Rand, avail int64) int64 {
	if avail <= 1 {
		return 0
	}
	var k int64
	switch r.Intn(4) {
	case 0:
		k = int64(r.Intn(6))
	case 1:
		k = avail - 1 - int64(r.Intn(6))
	case 2:
		s := uint(r.Intn(bits.Len64(uint64(avail))))
		k = int64(1+r.Intn(3))<<s + int64(r.Intn(6))
	default:
		k = int64(r.U64() % uint64(avail))
	}
	if k < 0 || k >= avail {
		k = int64(r.U64() % uint64(avail))
	}
	return k
}

// c10UniPos draws one stored-hash position of the tree of n records: a level, then a number on that level.
func c10UniPos(r *Rand, n int64) int64 {
	top := bits.Len64(uint64(n)) - 1
	level := 0
	if r.Chance(60) {
		level = r.Intn(top + 1)
	}
	return c10UniIndex(level, c10UniNumber(r, n>>uint(level)))
}

// c10UniInTile: the position of one of the hashes that tile (H = h, L, N) of the tree of n records holds (level
// h*L + j for a j < h), or -1 if the tree has no hash of that tile.
func c10UniInTile(r *Rand, n int64, h, L int, N int64) int64 {
	if L < 0 || h*L > 61 || N < 0 || N > (n>>uint(h*L))>>uint(h) {
		return -1
	}
	for try := 0; try < 4; try++ {
		j := r.Intn(h)
		if try == 3 {
			j = 0
		}
		m := N<<uint(h-j) + int64(r.Intn(1<<uint(h-j)))
		if try == 3 {
			m = N << uint(h)
		}
		if m < n>>uint(h*L+j) {
			return c10UniIndex(h*L+j, m)
		}
	}
	return -1
}

// c10UniAliasWidth draws the width s of the bit field: word-structure boundaries with weight, else any width below top.
func c10UniAliasWidth(r *Rand, top int) uint {
	var s int
	switch r.Intn(4) {
	case 0, 1: // a level held in the 1..8 bits above the number in a 64-bit word
		s = 64 - (1 + r.Intn(8))
	case 2:
		s = []int{8, 16, 24, 31, 32, 40, 48}[r.Intn(7)]
	default:
		s = 1 + r.Intn(62)
	}
	if s >= top {
		s = 1 + r.Intn(top-1)
	}
	return uint(s)
}

// c10UniCase draws (tree size, tile height, position set) for a read on a uniform log.
func c10UniCase(r *Rand) (n int64, h int, idx []int64, tag string) {
	n = c10UniSize(r)
	h = 1 + r.Intn(3)
	if r.Chance(20) {
		h = 1 + r.Intn(8) // full tiles of 2^h hashes are served: keep them small
	}
	switch r.Intn(8) {
	case 0, 1:
		return n, h, []int64{c10UniPos(r, n)}, "uni-single"
	case 2:
		k := r.Intn(5)
		for i := 0; i < k; i++ {
			x := c10UniPos(r, n)
			if r.Chance(4) {
				x = c10UniBefore(n) + int64(r.Intn(3)) // out of range
			}
			idx = append(idx, x)
		}
		return n, h, idx, "uni-set"
	}
	// aliasing pair
	L1 := 0
	if r.Chance(25) {
		L1 = r.Intn(3)
	}
	tiles1 := (n >> uint(h*L1)) >> uint(h) // full tiles on level L1
	top := bits.Len64(uint64(tiles1))
	if top < 3 {
		return n, h, []int64{c10UniPos(r, n)}, "uni-single"
	}
	s := c10UniAliasWidth(r, top)
	a := int64(1 + r.Intn(3))
	if a<<s >= tiles1 {
		a = 1
	}
	b := int64(r.Intn(6))
	N1 := a<<s | b
	x := c10UniInTile(r, n, h, L1, N1)
	var y int64 = -1
	tag = "uni-alias-level"
	if r.Chance(65) {
		y = c10UniInTile(r, n, h, L1+int(a), b)
	}
	if y < 0 {
		tag = "uni-alias-number"
		y = c10UniInTile(r, n, h, L1, b)
	}
	if x < 0 || y < 0 {
		return n, h, []int64{c10UniPos(r, n)}, "uni-single"
	}
	idx = []int64{x, y}
	if r.Bool() {
		idx = []int64{y, x}
	}
	if r.Chance(20) {
		idx = append(idx, c10UniPos(r, n))
	}
	return n, h, idx, tag
}

// c10GenUni emits about cnt tile.readuni lines: honest reads and reads with one or two faults on fetched tiles.
func c10GenUni(g *Gen, cnt int) {
	// fixed: the sizes 2^61 and 2^62-1 at height 1, first and last record
	g.Emit(c10UniOp(1<<61, 1, []int64{0, c10UniIndex(0, 1<<61-1)}, nil, 1), true, "uni-set")
	g.Emit(c10UniOp(1<<62-1, 1, []int64{c10UniIndex(0, 1<<62-2), 0}, nil, 1), true, "uni-set")
	for i := 2; i < cnt; i++ {
		n, h, idx, tag := c10UniCase(g.Rand)
		seed := 1 + g.Intn(3)
		if g.Chance(50) {
			g.Emit(c10UniOp(n, h, idx, nil, seed), tag != "uni-single", tag)
			continue
		}
		l := c10UniLog(seed, n)
		req := c10Honest(l, h, idx)
		var fs []c10Fault
		if len(req) > 0 {
			fs = append(fs, c10RandFault(g.Rand, l, h, req[g.Intn(len(req))]))
			if g.Chance(15) {
				fs = append(fs, c10RandFault(g.Rand, l, h, req[g.Intn(len(req))]))
			}
		}
		g.Emit(c10UniOp(n, h, idx, c10NormFaults(fs), seed), len(fs) > 0, tag+"-fault")
	}
}

// c10OracleUni: the property on about cnt reads of uniform logs (honest: the true hashes come back and the true
// tiles are saved; one or two faults on fetched tiles: error, or only true hashes and true tiles).
func c10OracleUni(g *Gen, cnt int) (cases int) {
	for cases < cnt {
		n, h, idx, tag := c10UniCase(g.Rand)
		seed := 1 + g.Intn(3)
		l := c10UniLog(seed, n)
		g.Case(tag)
		cases++
		c10CheckRead(g, l, int(n), h, idx, nil, seed)
		if !g.Chance(40) {
			continue
		}
		req := c10Honest(l, h, idx)
		for j := 0; j < 3 && len(req) > 0; j++ {
			fs := []c10Fault{c10RandFault(g.Rand, l, h, req[g.Intn(len(req))])}
			if g.Chance(25) {
				fs = append(fs, c10RandFault(g.Rand, l, h, req[g.Intn(len(req))]))
			}
			g.Case("uni-" + fs[0].Kind)
			cases++
			c10CheckRead(g, l, int(n), h, idx, fs, seed)
		}
	}
	return cases
}
