package main

// C19, real-file-system part: two input classes added for the gaps r7-C19-a and r7-C19-b.
//
// (a) prefix variants (gap r7-C19-a).  The implementation-only oracle hashed every directory under a module
// prefix "path@version" (with or without a trailing slash), the only prefix the go command uses.  HashDir and
// DirFiles document the prefix as "what replaces the directory name", and the EMPTY prefix is a legal
// argument (the names are then the relative paths themselves).  The correspondence ops had the empty prefix
// (c19Prefixes), but a disagreement there is not a concrete failing input.  The class: a directory tree hashed
// under the empty prefix, under a one-element prefix, under a dotted prefix (".a", "..a") and under any of
// them with one trailing slash - together with TOP-LEVEL names that start with '.' (.gitignore, .github/x)
// and, for a share of the trees, the same path without the dot (.env and env, with different contents): the
// places where mapping a listed name back to its file by cutting a string off its front is delicate.
// For exactly these prefixes (empty, or clean relative without "." / ".." elements, optionally one trailing
// slash) DirFiles lists prefix/rel (rel itself for the empty prefix) for every regular file, and HashDir is
// the documented formula over (listed name, content of THAT file).  Other prefixes (".", "a/../b", ...) stay
// with the correspondence only: for them HashDir's TrimPrefix may open another file (DESIGN O6).
//
// (b) directories reached through a symbolic link (gap r7-C19-b).  Every scratch directory was created below
// /verif/work and handed over by a path without symbolic links, so "the path as given" and "the path the
// operating system resolves it to" were the same string in every call.  The class: the tree lives at
// /S/store/real-target-directory/mod/c19root and DirFiles/HashDir are called with a path that reaches it
// through a link in an ANCESTOR component: link shorter than its target, longer than its target, of the same
// length (control), absolute and relative targets, a chain of links, two links in one path, a link deep below
// /S whose target lies higher up, an unclean spelling, and relative directory names after chdir.  The
// operating system confirms (os.SameFile) that the path denotes the directory; then DirFiles must list the
// same names as for the real path, and HashDir must equal HashDir of the real path - which is checked against
// the documented formula and, when the tree was extracted from a module zip (through such a link), equals
// HashZip of that zip.  When the directory ITSELF is a link, filepath.Walk does not follow it and DirFiles
// refuses ("is not a directory"); that is today's behaviour and C19 does not fix it, so for those layouts the
// oracle only says: no panic, and IF HashDir succeeds, its value is the one of the real path (names and
// bytes only).  The model has no links; the ops `dirhash.dirfileslink` / `dirhash.hashdirlink` of the
// ancestor layouts are compared with the model's dirFiles / hashDir of the tree.

import (
	"fmt"
	"os"
	"path/filepath"
	"strings"

	"golang.org/x/mod/sumdb/dirhash"
	modzip "golang.org/x/mod/zip"
)

// ---- (a) prefix variants

// c19ExactPrefixPool: prefixes for which C19 fixes DirFiles/HashDir outright, besides the empty one and the
// module prefixes: clean relative, no "." or ".." element, optionally one trailing slash.
var c19ExactPrefixPool = []string{"a", "b", "mod@v1", "p@v1/", ".a", "..a", ".x/", "a/b", "a/b/", "é", "a b", "env", ".env",
	"example.com/m@v1.0.0/", "a\nb"}

// c19PrefixName is the name DirFiles documents for the file rel under the prefix.
func c19PrefixName(prefix, rel string) string {
	if prefix == "" {
		return rel
	}
	return strings.TrimSuffix(prefix, "/") + "/" + rel
}

// c19GenExactPrefix: a module prefix, the empty prefix, or one of the pool.
func c19GenExactPrefix(r *Rand) string {
	switch k := r.Intn(10); {
	case k < 4:
		m := c19Mods[r.Intn(len(c19Mods))]
		p := m.Path + "@" + m.Version
		if r.Chance(25) {
			p += "/"
		}
		return p
	case k < 8:
		return ""
	}
	return r.Pick(c19ExactPrefixPool)
}

// c19TopDot reports whether a path has a top-level element that starts with '.'.
func c19TopDot(rels []string) bool {
	for _, p := range rels {
		if strings.HasPrefix(p, ".") {
			return true
		}
	}
	return false
}

// c19TreeConsistent: pairwise distinct paths, none of them a directory of another.
func c19TreeConsistent(rels []string) bool {
	files := map[string]bool{}
	for _, p := range rels {
		if p == "" || files[p] {
			return false
		}
		files[p] = true
	}
	for _, p := range rels {
		for i := 0; i < len(p); i++ {
			if p[i] == '/' && files[p[:i]] {
				return false
			}
		}
	}
	return true
}

// c19DotTwin is the path that differs from p by one leading '.': ".env" <-> "env", ".github/x" <-> "github/x",
// "..a" -> ".a"; "" when that is not a usable path.
func c19DotTwin(p string) string {
	t := "." + p
	if strings.HasPrefix(p, ".") {
		t = p[1:]
	}
	first := t
	if i := strings.IndexByte(t, '/'); i >= 0 {
		first = t[:i]
	}
	if first == "" || first == "." || first == ".." {
		return ""
	}
	return t
}

// c19AddDotTwins adds, for up to two files of the tree (an empty tree gets a dot file first), the path that
// differs by a leading '.' at the top level, with another content; it reports how many twins were added.
func c19AddDotTwins(r *Rand, rels, contents []string) ([]string, []string, int) {
	if len(rels) == 0 {
		rels = append(rels, r.Pick([]string{".env", ".gitignore", ".github/x.yml", ".a"}))
		contents = append(contents, c19GenContent(r))
	}
	added := 0
	for tries := 0; tries < 6 && added < 2; tries++ {
		i := r.Intn(len(rels))
		if !strings.HasPrefix(rels[i], ".") && r.Chance(50) { // prefer the files that already have the dot
			continue
		}
		t := c19DotTwin(rels[i])
		if t == "" || !c19TreeConsistent(append(append([]string(nil), rels...), t)) {
			continue
		}
		c := c19GenContent(r)
		if i < len(contents) && c == contents[i] {
			c += "x"
		}
		rels, contents = append(rels, t), append(contents, c)
		added++
	}
	return rels, contents, added
}

// ---- (b) directories reached through symbolic links

// c19LinkRealDir is where the tree of the link ops lives (symbolic, /S = the scratch directory).
const c19LinkRealDir = "/S/store/real-target-directory/mod/c19root"

const c19LinkLong = "/S/a-link-with-a-much-longer-name-than-the-directory-that-it-stands-for"

// c19LinkSame is a link name exactly as long as its target /S/store/real-target-directory/mod.
var c19LinkSame = "/S/" + strings.Repeat("s", len("/S/store/real-target-directory/mod")-len("/S/"))

type c19Symlink struct {
	at     string // symbolic absolute path of the link
	target string // a symbolic absolute path (/S/...) or a relative one, as written into the link
}

// c19Symlinks are created (in this order) in every link fixture; none lies inside c19root.
var c19Symlinks = []c19Symlink{
	{"/S/ln", "/S/store/real-target-directory"},         // shorter than its target, absolute
	{"/S/lr", "store/real-target-directory"},            // shorter than its target, relative
	{c19LinkLong, "/S/store/real-target-directory/mod"}, // longer than its target
	{c19LinkSame, "/S/store/real-target-directory/mod"}, // as long as its target
	{"/S/c1", "/S/c2-middle"},                           // a chain: c1 -> c2-middle -> store
	{"/S/c2-middle", "store"},                           //
	{"/S/x/y/z/ln", "/S/store"},                         // deep link, target higher up (link longer)
	{"/S/x/y/up", "../../store/real-target-directory"},  // relative target with ..
	{"/S/store/real-target-directory/m2", "mod"},        // a second link, next to the real parent
	{"/S/self", c19LinkRealDir},                         // the directory itself, shorter
	{"/S/self-" + strings.Repeat("long-", 12) + "name", "store/real-target-directory/mod/c19root"}, // the directory itself, longer
}

// c19LinkLayout: how DirFiles/HashDir are handed the directory c19LinkRealDir.
type c19LinkLayout struct {
	name string // anc-...: a link in an ancestor component; self-...: the directory itself is a link
	cwd  string // symbolic working directory to change to first, "" = none
	dir  string // the dir argument: symbolic (/S/...) when absolute, literal when relative
}

var c19LinkLayouts = []c19LinkLayout{
	{"anc-short-abs", "", "/S/ln/mod/c19root"},
	{"anc-short-rel", "", "/S/lr/mod/c19root"},
	{"anc-long", "", c19LinkLong + "/c19root"},
	{"anc-same-length", "", c19LinkSame + "/c19root"},
	{"anc-chain", "", "/S/c1/real-target-directory/mod/c19root"},
	{"anc-deep", "", "/S/x/y/z/ln/real-target-directory/mod/c19root"},
	{"anc-updots", "", "/S/x/y/up/mod/c19root"},
	{"anc-two-links", "", "/S/ln/m2/c19root"},
	{"anc-parent", "", "/S/store/real-target-directory/m2/c19root"},
	{"anc-unclean", "", "/S/ln//mod/./c19root/"},
	{"anc-rel-dir", "/S", "ln/mod/c19root"},
	{"anc-rel-dir-long", "/S", strings.TrimPrefix(c19LinkLong, "/S/") + "/c19root/"},
	{"anc-rel-dir-dotdot", "/S/x/y", "../../lr/mod/c19root"},
	{"anc-cwd-in-link", "/S/ln", "mod/c19root"}, // the working directory was entered through the link
	{"anc-cwd-in-link-m2", "/S/ln", "./m2/c19root"},
	{"self-short", "", "/S/self"},
	{"self-long", "", "/S/self-" + strings.Repeat("long-", 12) + "name"},
	{"self-rel", "/S", "self"},
}

func c19LinkLayoutByName(name string) (c19LinkLayout, bool) {
	for _, l := range c19LinkLayouts {
		if l.name == name {
			return l, true
		}
	}
	return c19LinkLayout{}, false
}

// c19AncLayouts: the layouts with the link in an ancestor component (the ones the ops use).
func c19AncLayouts() []c19LinkLayout {
	var out []c19LinkLayout
	for _, l := range c19LinkLayouts {
		if strings.HasPrefix(l.name, "anc-") {
			out = append(out, l)
		}
	}
	return out
}

// c19MakeLinkFixture creates the tree (kind as in c19MakeTree) at c19LinkRealDir below scratch, and all links.
func c19MakeLinkFixture(scratch, kind string, rels, contents []string) error {
	real := c19Spell(scratch, c19LinkRealDir)
	if err := os.MkdirAll(filepath.Dir(real), 0o755); err != nil {
		return err
	}
	if err := c19MakeTree(real, kind, rels, contents); err != nil {
		return err
	}
	for _, l := range c19Symlinks {
		at := c19Spell(scratch, l.at)
		if err := os.MkdirAll(filepath.Dir(at), 0o755); err != nil {
			return err
		}
		target := l.target
		if strings.HasPrefix(target, "/S/") {
			target = c19Spell(scratch, target)
		}
		if err := os.Symlink(target, at); err != nil {
			return err
		}
	}
	return nil
}

// c19InLayout runs f(dir) with the dir argument of the layout (after chdir when the layout has a working
// directory); false: the working directory could not be entered.
func c19InLayout(scratch string, l c19LinkLayout, f func(dir string)) bool {
	if l.cwd == "" {
		f(c19Spell(scratch, l.dir))
		return true
	}
	return c19WithCwd(c19Spell(scratch, l.cwd), func() { f(l.dir) })
}

func init() {
	impls["dirhash.dirfileslink"] = func(a []string) string {
		if len(a) != 4 {
			return "bad-op"
		}
		l, ok := c19LinkLayoutByName(a[0])
		if !ok {
			return "bad-op"
		}
		kind, prefix, rels := a[1], unhx(a[2]), unhxList(a[3])
		scratch := c19Scratch()
		defer os.RemoveAll(scratch)
		if err := c19MakeLinkFixture(scratch, kind, rels, nil); err != nil {
			return "err:setup"
		}
		var files []string
		var err error
		if !c19InLayout(scratch, l, func(dir string) { files, err = dirhash.DirFiles(dir, prefix) }) {
			return "err:setup"
		}
		if err != nil {
			return c19Err(err)
		}
		return hxList(files)
	}
	impls["dirhash.hashdirlink"] = func(a []string) string {
		if len(a) != 5 {
			return "bad-op"
		}
		l, ok := c19LinkLayoutByName(a[0])
		if !ok {
			return "bad-op"
		}
		kind, prefix, rels, contents := a[1], unhx(a[2]), unhxList(a[3]), unhxList(a[4])
		scratch := c19Scratch()
		defer os.RemoveAll(scratch)
		if err := c19MakeLinkFixture(scratch, kind, rels, contents); err != nil {
			return "err:setup"
		}
		var h string
		var err error
		if !c19InLayout(scratch, l, func(dir string) { h, err = dirhash.HashDir(dir, prefix, dirhash.Hash1) }) {
			return "err:setup"
		}
		return c19Res(h, err)
	}
}

// c19EmitLinkOps emits the two link ops for a tree under a random ancestor layout.
func c19EmitLinkOps(g *Gen, files bool, kind, pfx string, rels, contents []string) {
	anc := c19AncLayouts()
	l := anc[g.Intn(len(anc))]
	if files {
		g.Emit("dirhash.dirfileslink "+l.name+" "+kind+" "+hx(pfx)+" "+hxList(rels), len(rels) >= 1 || kind != "dir", "dirfileslink", "link:"+l.name)
	} else {
		g.Emit("dirhash.hashdirlink "+l.name+" "+kind+" "+hx(pfx)+" "+hxList(rels)+" "+hxList(contents), len(rels) >= 1 || kind != "dir", "hashdirlink", "link:"+l.name)
	}
}

// c19LinkBoundary: every ancestor layout once, on a fixed tree with top-level dot names.
func c19LinkBoundary(g *Gen) {
	rels := []string{"go.mod", "m.go", "internal/deep/x.go", ".gitignore", "gitignore"}
	contents := []string{"module example.com/m\n", "package m\n", "package deep\n", "*.o\n", "x"}
	for _, l := range c19AncLayouts() {
		for _, pfx := range []string{"example.com/m@v1.0.0", ""} {
			g.Emit("dirhash.dirfileslink "+l.name+" dir "+hx(pfx)+" "+hxList(rels), true, "boundary", "dirfileslink", "link:"+l.name)
			g.Emit("dirhash.hashdirlink "+l.name+" dir "+hx(pfx)+" "+hxList(rels)+" "+hxList(contents), true, "boundary", "hashdirlink", "link:"+l.name)
		}
	}
}

// c19OracleLinks: a tree (written directly, or extracted from a module zip by zip.Unzip THROUGH one of the
// links) is hashed by its real path - checked against the documented formula and HashZip - and then through
// every layout that the operating system confirms to denote the same directory.
func c19OracleLinks(g *Gen) {
	scratch := c19Scratch()
	defer os.RemoveAll(scratch)
	real := c19Spell(scratch, c19LinkRealDir)
	anc := c19AncLayouts()
	var prefix, hz, replayBase string
	fromZip := g.Chance(50)
	if fromZip {
		m := c19Mods[g.Intn(len(c19Mods))]
		rels, contents := c19GenModFiles(g.Rand, true)
		replayBase = "dirhash.hashunzip " + hx(m.Path) + " " + hx(m.Version) + " " + hxList(rels) + " " + hxList(contents)
		if c19MakeLinkFixture(scratch, "missing", nil, nil) != nil {
			return
		}
		z := filepath.Join(scratch, "mod.zip")
		if c19CreateModZip(z, m, rels, contents) != nil {
			return
		}
		var errz error
		if hz, errz = dirhash.HashZip(z, dirhash.Hash1); errz != nil {
			return // the zip/dir oracle reports that
		}
		// extract through a link (absolute layouts only: Unzip gets an absolute target), sometimes by the real path
		target := real
		if g.Chance(80) {
			for tries := 0; tries < 10; tries++ {
				if l := anc[g.Intn(len(anc))]; l.cwd == "" {
					target = c19Spell(scratch, l.dir)
					break
				}
			}
		}
		if modzip.Unzip(target, m, z) != nil {
			return // extraction is the zip package's matter (C05/C12)
		}
		prefix = m.Path + "@" + m.Version
		if g.Chance(25) {
			prefix += "/"
		}
		g.Case("link-tree-unzipped-through-link")
	} else {
		rels := c19GenTree(g.Rand, c19FsElems, false)
		contents := c19GenContents(g.Rand, len(rels))
		if g.Chance(40) {
			rels, contents, _ = c19AddDotTwins(g.Rand, rels, contents)
		}
		prefix = c19GenExactPrefix(g.Rand)
		if c19MakeLinkFixture(scratch, "dir", rels, contents) != nil {
			return
		}
		g.Case("link-tree-plain")
	}
	// what is there, found by a walk of our own over the real path
	wr, wc, err := c19WalkTree(real)
	if err != nil {
		return
	}
	replayReal := "dirhash.hashdir dir " + hx(prefix) + " " + hxList(wr) + " " + hxList(wc)
	if !c19CheckDirFormula(g, real, prefix, wr, wc, replayReal) {
		return
	}
	want, err := dirhash.DirFiles(real, prefix)
	if err != nil {
		return
	}
	href, eref := dirhash.HashDir(real, prefix, dirhash.Hash1)
	if fromZip && (eref != nil || href != hz) {
		g.Fail("HashZip of a module zip differs from HashDir of the directory it extracts to", fmt.Sprintf("zip=%q dir=%q,%v prefix=%q (extracted through a symbolic link)", hz, href, eref, prefix), c19Ops(replayBase, replayReal)...)
		return
	}
	ref, err := os.Stat(real)
	if err != nil {
		return
	}
	counted := map[string]bool{}
	for _, l := range c19LinkLayouts {
		self := strings.HasPrefix(l.name, "self-")
		ok := true
		c19InLayout(scratch, l, func(dir string) {
			fi, err := os.Stat(dir)
			if err != nil || !os.SameFile(ref, fi) {
				return // not a name of the directory on this system
			}
			class := "link-in-ancestor"
			if self {
				class = "link-is-the-directory"
			} else if l.cwd != "" {
				class = "link-in-ancestor-relative-dir"
			}
			if !counted[class] { // one oracle case per class and tree: the sweep must not use up the case budget
				counted[class] = true
				g.Case(class)
			}
			info := fmt.Sprintf("layout %s: dir argument %q, working directory %q, the tree is at %q (same file); links: %s", l.name, l.dir, l.cwd, c19LinkRealDir, c19LinkInfo(l))
			replayFiles := "dirhash.dirfileslink " + l.name + " dir " + hx(prefix) + " " + hxList(wr)
			replayHash := "dirhash.hashdirlink " + l.name + " dir " + hx(prefix) + " " + hxList(wr) + " " + hxList(wc)
			var got []string
			e := c19Guard(func() (e error) { got, e = dirhash.DirFiles(dir, prefix); return })
			var hd string
			e2 := c19Guard(func() (e error) { hd, e = dirhash.HashDir(dir, prefix, dirhash.Hash1); return })
			if self {
				// today DirFiles refuses a path that is itself a link; C19 only excludes a panic and another value
				for _, x := range []error{e, e2} {
					if x != nil && strings.HasPrefix(x.Error(), "panic:") {
						g.Fail("DirFiles/HashDir panics on a path that is itself a symbolic link to a directory", info+": "+x.Error(), replayFiles, replayHash)
						ok = false
						return
					}
				}
				if e == nil && strings.Join(got, "\x00") != strings.Join(want, "\x00") {
					g.Fail("DirFiles succeeds on a path that is itself a symbolic link to the directory, with names other than those of the real path",
						fmt.Sprintf("%s: %q, by the real path %q", info, got, want), replayFiles, replayReal)
					ok = false
					return
				}
				if e2 == nil && (eref != nil || hd != href) {
					g.Fail("HashDir succeeds on a path that is itself a symbolic link to the directory, with a value other than that of the real path",
						fmt.Sprintf("%s: %q, by the real path %q,%v", info, hd, href, eref), replayHash, replayReal)
					ok = false
				}
				return
			}
			if e != nil {
				g.Fail("DirFiles fails or panics on a directory reached through a symbolic link in an ancestor component of its path", info+": "+e.Error(), replayFiles, replayReal)
				ok = false
				return
			}
			if strings.Join(got, "\x00") != strings.Join(want, "\x00") {
				g.Fail("DirFiles lists different names when the same directory is reached through a symbolic link",
					fmt.Sprintf("%s: %q, by the real path %q", info, got, want), replayFiles, replayReal)
				ok = false
				return
			}
			if (e2 == nil) != (eref == nil) || hd != href {
				what := "HashDir of a directory reached through a symbolic link differs from HashDir of its real path"
				if fromZip {
					what = "HashZip of a module zip differs from HashDir of the directory it extracts to (directory reached through a symbolic link)"
				}
				g.Fail(what, fmt.Sprintf("%s: through the link %q,%v; by the real path %q,%v; zip %q", info, hd, e2, href, eref, hz), c19Ops(replayHash, replayReal, replayBase)...)
				ok = false
			}
		})
		if !ok {
			return
		}
	}
}

// c19Ops drops the empty op lines of a replay list.
func c19Ops(ops ...string) []string {
	var out []string
	for _, o := range ops {
		if o != "" {
			out = append(out, o)
		}
	}
	return out
}

// c19LinkInfo spells the links a layout goes through (for the failure report).
func c19LinkInfo(l c19LinkLayout) string {
	p := l.dir
	if l.cwd != "" {
		p = l.cwd + "/" + l.dir
	}
	var out []string
	for _, s := range c19Symlinks {
		if p == s.at || strings.HasPrefix(p, s.at+"/") || strings.HasSuffix(s.at, "/c2-middle") && strings.HasPrefix(p, "/S/c1/") ||
			strings.HasSuffix(s.at, "/m2") && strings.Contains(p, "/m2/") {
			out = append(out, s.at+" -> "+s.target)
		}
	}
	return strings.Join(out, ", ")
}
