package main

// C05 — READER BEHAVIOUR of File.Open.
//
// The property is about Create on an abstract list of File values: whatever a conforming io.Reader
// does, the archive must hold the valid files byte for byte.  The harness' files (zipuFile) always
// opened as io.NopCloser(bytes.NewReader(content)): every Read fills the whole buffer, the end of the
// data is reported by a separate (0, io.EOF), nothing is ever returned as (0, nil), the buffer beyond n
// is left alone.  So a Create whose copy loop is only right for that one reader (drops data delivered
// together with io.EOF, takes (0, nil) for the end, relies on full reads, re-uses what it finds behind
// n in a shared buffer) passed every check.  This file adds the missing class: the SAME file lists
// opened through readers that use the freedom of the io.Reader contract:
//   - the final data returned TOGETHER with io.EOF (iotest.DataErrReader; what flate-backed readers,
//     i.e. the entries of a deflated archive/zip file, do),
//   - short reads: one byte at a time, a fixed chunk size, half of the buffer, random sizes,
//   - zero-length reads (0, nil) before the first data and between chunks,
//   - the rest of the buffer used as scratch space during the call,
//   - a reader without the WriterTo short cut of bytes.Reader,
//   - and real entries of an in-memory archive/zip file, deflated and stored (how CreateFromVCS and the
//     go command hand a VCS archive to Create).
// The oracle takes them through the whole round trip (CheckFiles on the same File values -> Create ->
// CheckZip -> Unzip -> byte-for-byte comparison with the contents the list was built from).

import (
	"archive/zip"
	"bytes"
	"errors"
	"hash/fnv"
	"io"

	"golang.org/x/mod/module"
	modzip "golang.org/x/mod/zip"
)

// c05Reading: how the regular files of a list deliver their content.
type c05Reading struct {
	kind     byte // 'p' plain bytes.Reader (the harness' historical behaviour), 'c' custom reader below, 'z' deflated zip entry, 's' stored zip entry
	chunk    int  // 'c': at most this many bytes per Read; 0 = as many as fit; -1 = half of the buffer (at least 1); -2 = random sizes
	eofData  bool // 'c': the last bytes come with io.EOF from the same call
	zeros    int  // 'c': this many (0, nil) results before the first data and after every chunk
	scribble bool // 'c': the buffer beyond the returned bytes is overwritten during the call
	seed     uint64
}

var c05Plain = c05Reading{kind: 'p'}

func (b c05Reading) String() string {
	switch b.kind {
	case 'p':
		return "bytes.Reader"
	case 'z':
		return "deflated archive/zip entry"
	case 's':
		return "stored archive/zip entry"
	}
	s := "reader with"
	switch {
	case b.chunk == 0:
		s += " full reads"
	case b.chunk == -1:
		s += " half-buffer reads"
	case b.chunk == -2:
		s += " reads of random sizes (seed " + itoa(int(b.seed%1000000)) + ")"
	default:
		s += " reads of at most " + itoa(b.chunk) + " bytes"
	}
	if b.eofData {
		s += ", final data returned together with io.EOF"
	} else {
		s += ", io.EOF returned by a separate call"
	}
	if b.zeros > 0 {
		s += ", " + itoa(b.zeros) + " zero-length (0, nil) reads before the data and after every chunk"
	}
	if b.scribble {
		s += ", rest of the buffer used as scratch space"
	}
	return s
}

// c05ReadingSweep: every combination of the chunking, end-of-data and zero-read choices (the chunk sizes
// straddle nothing in particular for small files and the 512-byte / 32 KiB buffer sizes of bufio, flate
// and io.Copy for the large ones), each once with a scribbled buffer, plus the two zip-entry readers.
func c05ReadingSweep() []c05Reading {
	out := []c05Reading{c05Plain, {kind: 'z'}, {kind: 's'}}
	for _, chunk := range []int{0, 1, 2, 7, 512, 32767, 32768, -1, -2} {
		for _, eofData := range []bool{true, false} {
			for _, zeros := range []int{0, 1, 3} {
				out = append(out, c05Reading{kind: 'c', chunk: chunk, eofData: eofData, zeros: zeros, scribble: (chunk+zeros)%2 == 0, seed: uint64(len(out))})
			}
		}
	}
	return out
}

// c05ReadingFor: a reading picked by a hash of the op line (not drawn from the run's random stream, so
// that the lists themselves stay what they were): a third plain, the rest spread over the sweep's
// dimensions.
func c05ReadingFor(line string) c05Reading {
	h := fnv.New64a()
	h.Write([]byte(line))
	r := &Rand{s: h.Sum64()}
	switch r.Intn(9) {
	case 0, 1, 2:
		return c05Plain
	case 3:
		return c05Reading{kind: 'z'}
	case 4:
		return c05Reading{kind: 's'}
	}
	chunks := []int{0, 1, 2, 3, 7, 64, 512, -1, -2}
	return c05Reading{kind: 'c', chunk: chunks[r.Intn(len(chunks))], eofData: r.Chance(60), zeros: []int{0, 0, 1, 2}[r.Intn(4)], scribble: r.Bool(), seed: r.U64()}
}

// c05Reader: the custom reader.  It keeps to the io.Reader contract: 0 <= n <= len(p); a call with
// len(p) == 0 returns (0, nil); once io.EOF has been returned every further call returns (0, io.EOF).
type c05Reader struct {
	data    []byte
	off     int
	b       c05Reading
	r       *Rand
	pending int // (0, nil) results still to give before the next data
	closed  bool
}

func (x *c05Reader) Read(p []byte) (int, error) {
	if x.closed {
		return 0, errors.New("c05: read after close")
	}
	if len(p) == 0 {
		return 0, nil
	}
	if x.pending > 0 {
		x.pending--
		return 0, nil
	}
	if x.off >= len(x.data) {
		return 0, io.EOF
	}
	n := len(x.data) - x.off
	if n > len(p) {
		n = len(p)
	}
	switch {
	case x.b.chunk > 0 && n > x.b.chunk:
		n = x.b.chunk
	case x.b.chunk == -1 && n > (len(p)+1)/2:
		n = (len(p) + 1) / 2
	case x.b.chunk == -2:
		// mostly small, sometimes everything that fits
		switch x.r.Intn(4) {
		case 0:
			n = 1
		case 1:
			n = 1 + x.r.Intn(n)
		case 2:
			if n > 16 {
				n = 1 + x.r.Intn(16)
			}
		}
	}
	copy(p, x.data[x.off:x.off+n])
	x.off += n
	if x.b.scribble {
		// the 64 bytes behind the data and the last 8 of the buffer (all of it would cost 32 KiB per
		// one-byte read)
		for i := n; i < len(p) && i < n+64; i++ {
			p[i] = 0xA5 ^ byte(i)
		}
		for i := len(p) - 8; i < len(p); i++ {
			if i >= n {
				p[i] = 0x5A ^ byte(i)
			}
		}
	}
	x.pending = x.b.zeros
	if x.off == len(x.data) && x.b.eofData {
		return n, io.EOF
	}
	return n, nil
}

func (x *c05Reader) Close() error { x.closed = true; return nil }

// c05RFile: a zipuFile (path, Lstat as before) whose Open follows a reading.
type c05RFile struct {
	*zipuFile
	b     c05Reading
	entry *zip.File // kinds 'z' and 's'
}

func (f c05RFile) Open() (io.ReadCloser, error) {
	if f.mode != 'r' || f.b.kind == 'p' {
		return f.zipuFile.Open()
	}
	if f.entry != nil {
		return f.entry.Open()
	}
	h := fnv.New64a()
	h.Write([]byte(f.path))
	return &c05Reader{data: f.content, b: f.b, r: &Rand{s: f.b.seed ^ h.Sum64()}, pending: f.b.zeros}, nil
}

// c05AsFiles: the list as File values that are read as b says.  For the zip-entry kinds the contents
// of the regular files are first written to an in-memory archive (entry i = file i, so odd or repeated
// paths do not matter), deflated or stored, and Open opens the entry.
func c05AsFiles(fs []*zipuFile, b c05Reading) []modzip.File {
	out := make([]modzip.File, len(fs))
	var entries map[int]*zip.File
	if b.kind == 'z' || b.kind == 's' {
		var buf bytes.Buffer
		zw := zip.NewWriter(&buf)
		var idx []int
		ok := true
		for i, f := range fs {
			if f.mode != 'r' {
				continue
			}
			method := zip.Deflate
			if b.kind == 's' {
				method = zip.Store
			}
			w, err := zw.CreateHeader(&zip.FileHeader{Name: "src/" + itoa(i), Method: method})
			if err == nil {
				_, err = w.Write(f.content)
			}
			if err != nil {
				ok = false
				break
			}
			idx = append(idx, i)
		}
		if ok && zw.Close() == nil {
			if zr, err := zip.NewReader(bytes.NewReader(buf.Bytes()), int64(buf.Len())); err == nil && len(zr.File) == len(idx) {
				entries = map[int]*zip.File{}
				for k, i := range idx {
					entries[i] = zr.File[k]
				}
			}
		}
		if entries == nil {
			b = c05Plain // cannot happen; fall back to the plain reader rather than state something else
		}
	}
	for i, f := range fs {
		out[i] = c05RFile{zipuFile: f, b: b, entry: entries[i]}
	}
	return out
}

func c05CreateFiles(m module.Version, files []modzip.File) ([]byte, error) {
	var buf bytes.Buffer
	err := modzip.Create(&buf, m, files)
	return buf.Bytes(), err
}

// c05Pattern: n bytes that depend on their position and on the salt (never periodic in a power of two:
// a chunk that is lost, repeated or moved changes the content).
func c05Pattern(n int, salt byte) []byte {
	out := make([]byte, n)
	for i := range out {
		out[i] = byte(i*7+i/251) ^ salt
	}
	return out
}

// c05ReaderLists: the lists of the reader sweep.  small = true: lists of a few bytes (go.mod, a source
// file, a one-byte file, an empty file, a nested file, a LICENSE; with and without files that are left
// out: vendored package, submodule) -- the failing inputs to report.  small = false: one file per list
// with a size on either side of the 512-byte and 32 KiB buffer sizes and of twice 32 KiB, next to a
// go.mod (a copy loop that is right for everything that fits one Read shows only here).
func c05ReaderLists(small bool) [][]*zipuFile {
	reg := func(p string, c []byte) *zipuFile { return &zipuFile{path: p, mode: 'r', size: int64(len(c)), content: c} }
	gomod := reg("go.mod", []byte("module example.com/m\n\ngo 1.21\n"))
	if small {
		return [][]*zipuFile{
			{gomod},
			{reg("a.go", []byte("package a\n"))},
			{gomod, reg("a.go", []byte("package a\n")), reg("sub/tiny.md", []byte("x")), reg("empty.txt", nil), reg("LICENSE", []byte("license text\n"))},
			{reg("go.mod", []byte("module example.com/m\n\ngo 1.24\n")), reg("vendor/modules.txt", []byte("# x.org/y v1.0.0\n")), reg("vendor/x.org/y/y.go", []byte("package y\n")),
				reg("sub/go.mod", []byte("module example.com/m/sub\n")), reg("sub/s.go", []byte("package s\n")), reg("z/z.go", c05Pattern(300, 3)),
				{path: "dir", mode: 'd'}, {path: "link", mode: 's', size: 4}},
		}
	}
	var out [][]*zipuFile
	for i, n := range []int{511, 512, 513, 4096, 32767, 32768, 32769, 65535, 65536, 65537} {
		out = append(out, []*zipuFile{gomod, reg("data/blob"+itoa(n)+".bin", c05Pattern(n, byte(i+1)))})
	}
	// several files in one archive, large and small alternating (a buffer shared between files)
	out = append(out, []*zipuFile{reg("a.bin", c05Pattern(40000, 9)), reg("b.txt", []byte("b")), gomod, reg("c.bin", c05Pattern(32768, 11)), reg("d/e.txt", []byte("de\n")), reg("f.bin", c05Pattern(33000, 13))})
	return out
}
