package main

// C09 — the int64 EDGE of the stored-hash layout (input class added for seeded change r6-C09-a).
//
// Why it was missing: the coordinate streams of c09.go (c09Coord / c09Index / c09Size) stop at positions around
// 2^62 (level < 60, (n+1)<<level <= 2^61), i.e. a factor of two below the largest position an int64 can hold, and
// level 62 was never sampled.  A change that only touches the LAST representable offset of a level
// (n+1 == 1<<(62-level)) was therefore visible to the regenerated tie proofs only.
//
// The class, from the layout formula.  The hash (level, n) is the level'th hash written by record
// r = (n+1)<<level - 1, and records 0..r-1 have written  B(r) = Σ_{i=1..r} (1 + tz(i)) = 2r - popcount(r)  hashes, so
//
//	position(level, n) = B((n+1)<<level - 1) + level.
//
// For n+1 == 1<<(62-level):  r = 2^62-1, B(r) = 2^63-64, position = 2^63-64+level  — fits in an int64 for EVERY level
// 0..62 (these 63 hashes are exactly the ones record 2^62-1 writes: positions 2^63-64 .. 2^63-2, consecutive).
// For n == 1<<(62-level) (one more): r = 2^62+2^level-1, position = 2^63 + 2^(level+1) - 3, which fits only for
// level == 0: position(0, 2^62) = 2^63-1 = MaxInt64.  Every other coordinate one past the top overflows.
// So the boundary coordinates are, for every level 0..62, the offsets 1<<(62-level) - {2,1} (where >= 0), and
// 1<<(62-level) - 0 for level 0 only.
//
// What is demanded where:
//   - generator (model-vs-code correspondence; the model is over Nat and the Go code has no int64 overflow of any
//     intermediate at these inputs — the exact hypothesis of StoredHashIndex_tie / SplitStoredHashIndex_tie /
//     StoredHashCount_tie): all of the above including (0, 2^62), the indexes 2^63-2-k, and the sizes 2^62-{2,1,0}.
//     NOT SplitStoredHashIndex(MaxInt64): the real function does not return there (observation O11).
//   - oracle (the property on the implementation alone): position <-> (level, offset) is the first-principles layout
//     bijection for every coordinate of a log whose store fits in int64, i.e. logs of at most 2^62 records:
//     (n+1)<<level <= 2^62, positions <= 2^63-2; StoredHashCount(n) is the layout length for n <= 2^62.
//     Nothing is demanded at position MaxInt64 (it belongs to record 2^62, outside every such log; O11).

import (
	"fmt"
	"math/bits"
	"time"

	"golang.org/x/mod/sumdb/tlog"
)

// c09RefBase: number of hashes written by records 0..r-1 = Σ_{i=1..r} (1 + tz(i)) = 2r - popcount(r) (Legendre).
// r <= 2^62 (then the result is <= 2^63-1).
func c09RefBase(r uint64) uint64 { return 2*r - uint64(bits.OnesCount64(r)) }

// c09RefPos: first-principles position of the hash (level, n); ok=false outside the range the reference covers:
// it covers 0 <= level <= 62, n >= 0 with (n+1)<<level <= 2^62, and the single further coordinate (0, 2^62).
func c09RefPos(level int, n int64) (uint64, bool) {
	if level < 0 || level > 62 || n < 0 {
		return 0, false
	}
	recs := uint64(n) + 1 // r+1
	if recs > (uint64(1)<<62)>>uint(level) && !(level == 0 && recs == 1<<62+1) {
		return 0, false
	}
	return c09RefBase(recs<<uint(level)-1) + uint64(level), true
}

// c09RefSplit: first-principles inverse for p <= 2^63-1: the record r with B(r) <= p < B(r+1) wrote position p as
// its (p-B(r))'th hash.
func c09RefSplit(p uint64) (int, int64) {
	lo, hi := uint64(0), uint64(1)<<62 // B(2^62) = 2^63-1 >= p
	for lo < hi {                      // greatest r with B(r) <= p
		mid := lo + (hi-lo+1)/2
		if c09RefBase(mid) <= p {
			lo = mid
		} else {
			hi = mid - 1
		}
	}
	level := int(p - c09RefBase(lo))
	return level, int64(lo >> uint(level))
}

// c09EdgeCoords: the boundary coordinates of every level (see the header). withMax adds (0, 2^62) -> MaxInt64.
func c09EdgeCoords(withMax bool) [][2]int64 {
	var out [][2]int64
	seen := map[[2]int64]bool{}
	add := func(l int, n int64) {
		c := [2]int64{int64(l), n}
		if n >= 0 && !seen[c] {
			seen[c] = true
			out = append(out, c)
		}
	}
	for level := 0; level <= 62; level++ {
		top := int64(1)<<uint(62-level) - 1 // last offset of this level whose position fits
		for _, n := range []int64{top, top - 1, top - 2, top / 2, top/2 + 1, top/2 - 1} {
			if n <= top {
				add(level, n)
			}
		}
	}
	if withMax {
		add(0, 1<<62)
	}
	return out
}

// c09EdgeIndexes: positions near the top of the int64 range (never MaxInt64 itself), around 2^62 and 3*2^61.
func c09EdgeIndexes() []int64 {
	var out []int64
	for k := int64(0); k < 200; k++ {
		out = append(out, (1<<63-2)-k)
	}
	for k := int64(-3); k <= 66; k++ {
		out = append(out, 1<<62+k)
	}
	for k := int64(-3); k <= 3; k++ {
		out = append(out, 3<<61+k)
	}
	return out
}

// c09EdgeSizes: log sizes whose store just fits: StoredHashCount(2^62) = 2^63-1.
func c09EdgeSizes() []int64 { return []int64{1<<62 - 2, 1<<62 - 1, 1 << 62} }

// genC09Edge: the boundary class as correspondence ops (deterministic, no randomness consumed).
func genC09Edge(g *Gen) {
	for _, c := range c09EdgeCoords(true) {
		g.Emit(fmt.Sprintf("tlog.storedhashindex %d %d", c[0], c[1]), true, "index-int64-edge")
	}
	for _, p := range c09EdgeIndexes() {
		g.Emit(fmt.Sprintf("tlog.splitstoredhashindex %d", p), true, "split-int64-edge")
	}
	for _, n := range c09EdgeSizes() {
		g.Emit(fmt.Sprintf("tlog.storedhashcount %d", n), true, "count-int64-edge")
	}
}

// c09Guarded runs f (calls into the implementation) and reports "" / "panic: …" / "hang".
func c09Guarded(f func()) string {
	ch := make(chan string, 1)
	go func() {
		defer func() {
			if e := recover(); e != nil {
				ch <- fmt.Sprintf("panic: %v", e)
			}
		}()
		f()
		ch <- ""
	}()
	select {
	case s := <-ch:
		return s
	case <-time.After(3 * time.Second):
		return "hang"
	}
}

// c09EdgeOracle: position <-> (level, offset) against the first-principles layout at the int64 edge.
// Deterministic; consumes no randomness.
func c09EdgeOracle(g *Gen) {
	// the reference itself against the literal definition (record i writes levels 0..tz(i+1), one position each):
	// independent of the implementation
	p := uint64(0)
	for i := uint64(0); i < 3000; i++ {
		for l := 0; l <= bits.TrailingZeros64(i+1); l++ {
			rp, ok := c09RefPos(l, int64(i>>uint(l)))
			rl, rn := c09RefSplit(p)
			if !ok || rp != p || rl != l || rn != int64(i>>uint(l)) {
				g.Fail("harness self-check: the reference layout formula disagrees with the literal layout", fmt.Sprintf("record %d level %d position %d", i, l, p))
				return
			}
			p++
		}
	}
	bad := 0 // a hang leaks a spinning goroutine: stop after a few
	for _, c := range c09EdgeCoords(false) {
		level, n := int(c[0]), c[1]
		want, ok := c09RefPos(level, n)
		if !ok || want > 1<<63-2 {
			continue // not a coordinate of a log whose store fits in int64
		}
		g.Case("coord-int64-edge")
		iop := fmt.Sprintf("tlog.storedhashindex %d %d", level, n)
		sop := fmt.Sprintf("tlog.splitstoredhashindex %d", want)
		var got int64
		if r := c09Guarded(func() { got = tlog.StoredHashIndex(level, n) }); r != "" {
			g.Fail("StoredHashIndex does not return on a coordinate whose position fits in int64", fmt.Sprintf("(%d,%d) -> %s, layout position %d", level, n, r, want), iop)
			if bad++; bad >= 4 {
				return
			}
			continue
		}
		if got < 0 || uint64(got) != want {
			g.Fail("StoredHashIndex(l,k) is not the position of (l,k) in the RFC 6962 store layout", fmt.Sprintf("(%d,%d) -> %d, layout position %d", level, n, got, want), iop)
			continue
		}
		var l2 int
		var n2 int64
		if r := c09Guarded(func() { l2, n2 = tlog.SplitStoredHashIndex(got) }); r != "" {
			g.Fail("SplitStoredHashIndex does not return on a position below MaxInt64", fmt.Sprintf("p=%d -> %s", got, r), sop)
			if bad++; bad >= 4 {
				return
			}
			continue
		}
		if l2 != level || n2 != n {
			g.Fail("SplitStoredHashIndex(StoredHashIndex(l,k)) != (l,k)", fmt.Sprintf("(%d,%d) -> %d -> (%d,%d)", level, n, got, l2, n2), iop, sop)
		}
	}
	for _, x := range c09EdgeIndexes() {
		g.Case("position-int64-edge")
		sop := fmt.Sprintf("tlog.splitstoredhashindex %d", x)
		wl, wn := c09RefSplit(uint64(x))
		var l, n, back int64
		r := c09Guarded(func() {
			li, ni := tlog.SplitStoredHashIndex(x)
			l, n = int64(li), ni
		})
		if r != "" {
			g.Fail("SplitStoredHashIndex does not return on a position below MaxInt64", fmt.Sprintf("p=%d -> %s", x, r), sop)
			if bad++; bad >= 4 {
				return
			}
			continue
		}
		if l != int64(wl) || n != wn {
			g.Fail("SplitStoredHashIndex(p) is not the coordinate at position p of the RFC 6962 store layout", fmt.Sprintf("p=%d -> (%d,%d), layout (%d,%d)", x, l, n, wl, wn), sop)
			continue
		}
		iop := fmt.Sprintf("tlog.storedhashindex %d %d", l, n)
		if r := c09Guarded(func() { back = tlog.StoredHashIndex(int(l), n) }); r != "" {
			g.Fail("StoredHashIndex does not return on a coordinate whose position fits in int64", fmt.Sprintf("(%d,%d) -> %s, layout position %d", l, n, r, x), sop, iop)
			if bad++; bad >= 4 {
				return
			}
			continue
		}
		if back != x {
			g.Fail("StoredHashIndex(SplitStoredHashIndex(p)) != p", fmt.Sprintf("p=%d -> (%d,%d) -> %d", x, l, n, back), sop, iop)
		}
	}
	for _, sz := range c09EdgeSizes() {
		g.Case("count-int64-edge")
		cop := fmt.Sprintf("tlog.storedhashcount %d", sz)
		var cnt int64
		if r := c09Guarded(func() { cnt = tlog.StoredHashCount(sz) }); r != "" {
			g.Fail("StoredHashCount does not return on a log size whose store fits in int64", fmt.Sprintf("n=%d -> %s", sz, r), cop)
			if bad++; bad >= 4 {
				return
			}
			continue
		}
		if want := c09RefBase(uint64(sz)); cnt < 0 || uint64(cnt) != want {
			g.Fail("StoredHashCount(n) is not the length of the RFC 6962 store layout of n records", fmt.Sprintf("n=%d -> %d, layout length %d", sz, cnt, want), cop)
		}
	}
}
