package main

// C10 — hashes read through tiles are authenticated against the tree head.

import (
	"bytes"
	"crypto/sha256"
	"encoding/hex"
	"errors"
	"fmt"
	"sort"
	"strings"

	"golang.org/x/mod/sumdb/tlog"
)

func c10TileTok(t tlog.Tile) string { return fmt.Sprintf("%d/%d/%d/%d", t.H, t.L, t.N, t.W) }

func c10ParseTile(tok string) tlog.Tile {
	p := strings.Split(tok, "/")
	if len(p) != 4 {
		panic("bad tile token")
	}
	return tlog.Tile{H: atoi(p[0]), L: atoi(p[1]), N: tlogI64(p[2]), W: atoi(p[3])}
}

func c10TilesTok(ts []tlog.Tile) string {
	if len(ts) == 0 {
		return "_"
	}
	out := make([]string, len(ts))
	for i, t := range ts {
		out[i] = c10TileTok(t)
	}
	return strings.Join(out, ",")
}

// c10Fault: corruption `kind(a, b)` of the tile at (L, N).
//
// Input class "ragged length" (kinds extb / truncb, added for the gap r4-C10-b): the served tile is longer or shorter
// than the true tile by a number of BYTES that is not a multiple of HashSize (1..31 bytes, or whole hashes plus 1..31
// bytes). It was missing because every other kind works in whole hashes (trunc and ext drop / repeat whole hashes), so
// the served length was always a multiple of HashSize and a length check that counts hashes instead of bytes, or any
// code that slices a tile by hash positions and ignores a tail, could not be told from the exact check.
type c10Fault struct {
	L    int
	N    int64
	Kind string
	A, B int
}

func (f c10Fault) ragged() bool { return f.Kind == "extb" || f.Kind == "truncb" }

// c10NormFaults moves the ragged-length faults behind the others (stable). Only needed for the correspondence run: the
// Lean environment (Drv/Tile.lean) keeps a tile as a list of hashes and turns it into flat bytes for a ragged fault
// only, so the whole-hash kinds are exact only on data that is still a whole number of hashes.
func c10NormFaults(fs []c10Fault) []c10Fault {
	out := make([]c10Fault, 0, len(fs))
	for _, f := range fs {
		if !f.ragged() {
			out = append(out, f)
		}
	}
	for _, f := range fs {
		if f.ragged() {
			out = append(out, f)
		}
	}
	return out
}

// c10RaggedFault draws a ragged-length fault for tile t: extension or truncation by r, or by k whole hashes plus r,
// bytes with 1 <= r <= 31 (the boundary values 1 and 31 with weight).
func c10RaggedFault(r *Rand, t tlog.Tile) c10Fault {
	f := c10Fault{L: t.L, N: t.N, Kind: "extb", B: r.Intn(256)}
	if r.Chance(50) {
		f.Kind, f.B = "truncb", 0
	}
	f.A = 1 + r.Intn(tlog.HashSize-1)
	switch r.Intn(5) {
	case 0:
		f.A = 1
	case 1:
		f.A = tlog.HashSize - 1
	}
	if r.Chance(25) {
		w := t.W
		if w < 1 {
			w = 1
		}
		f.A += tlog.HashSize * (1 + r.Intn(w)) // truncb with k = W leaves nothing
	}
	return f
}

func (f c10Fault) tok() string { return fmt.Sprintf("%d:%d:%s:%d:%d", f.L, f.N, f.Kind, f.A, f.B) }

func c10FaultsTok(fs []c10Fault) string {
	if len(fs) == 0 {
		return "_"
	}
	out := make([]string, len(fs))
	for i, f := range fs {
		out[i] = f.tok()
	}
	return strings.Join(out, ",")
}

func c10ParseFaults(tok string) []c10Fault {
	if tok == "_" {
		return nil
	}
	var out []c10Fault
	for _, s := range strings.Split(tok, ",") {
		p := strings.Split(s, ":")
		if len(p) != 5 {
			panic("bad fault token")
		}
		out = append(out, c10Fault{L: atoi(p[0]), N: tlogI64(p[1]), Kind: p[2], A: atoi(p[3]), B: atoi(p[4])})
	}
	return out
}

var errC10Reader = errors.New("tilereader: tile not available")

// c10Reader serves tiles of the true log with the listed corruptions and records what it is asked and told.
type c10Reader struct {
	h         int
	st        tlogStore
	uni       *c10Uni // a uniform log (util_c10uni.go) instead of st
	faults    []c10Fault
	requested []tlog.Tile
	saveCalls int
	savedT    []tlog.Tile
	savedD    [][]byte
}

func (r *c10Reader) Height() int { return r.h }

// trueTile: the true content of tile t, or an error if the log has no such tile.
func (r *c10Reader) trueTile(t tlog.Tile) ([]byte, error) {
	if r.uni != nil {
		if d := r.uni.trueTile(t); d != nil {
			return d, nil
		}
		return nil, errC10Reader
	}
	return tlog.ReadTileData(t, r.st)
}

func (r *c10Reader) serve(t tlog.Tile) ([]byte, error) {
	data, err := r.trueTile(t)
	if err != nil {
		return nil, errC10Reader
	}
	for _, f := range r.faults {
		if f.L != t.L || f.N != t.N {
			continue
		}
		const S = tlog.HashSize
		w := len(data) / S
		switch f.Kind {
		case "flip":
			if f.A < w {
				data[f.A*S+(f.B/8)%S] ^= 1 << uint(f.B%8)
			}
		case "swap":
			if f.A < w && f.B < w {
				var tmp [S]byte
				copy(tmp[:], data[f.A*S:])
				copy(data[f.A*S:f.A*S+S], data[f.B*S:f.B*S+S])
				copy(data[f.B*S:f.B*S+S], tmp[:])
			}
		case "dup":
			if f.A < w && f.B < w {
				var tmp [S]byte
				copy(tmp[:], data[f.A*S:])
				copy(data[f.B*S:f.B*S+S], tmp[:])
			}
		case "trunc":
			k := w - f.A
			if k < 0 {
				k = 0
			}
			data = data[:k*S]
		case "ext":
			if w > 0 {
				first := append([]byte(nil), data[:S]...)
				for i := 0; i < f.A; i++ {
					data = append(data, first...)
				}
			}
		case "extb": // f.A bytes appended: B, B+1, … (mod 256); f.A need not be a multiple of HashSize
			for i := 0; i < f.A; i++ {
				data = append(data, byte(f.B+i))
			}
		case "truncb": // the last f.A bytes removed; f.A need not be a multiple of HashSize
			k := len(data) - f.A
			if k < 0 {
				k = 0
			}
			data = data[:k]
		case "repl":
			other := t
			other.L, other.N = f.A, int64(f.B)
			data, err = r.trueTile(other)
			if err != nil {
				return nil, errC10Reader
			}
		case "miss":
			return nil, errC10Reader
		}
	}
	return data, nil
}

func (r *c10Reader) ReadTiles(tiles []tlog.Tile) ([][]byte, error) {
	r.requested = append(r.requested, tiles...)
	out := make([][]byte, len(tiles))
	for i, t := range tiles {
		d, err := r.serve(t)
		if err != nil {
			return nil, err
		}
		out[i] = d
	}
	return out, nil
}

func (r *c10Reader) SaveTiles(tiles []tlog.Tile, data [][]byte) {
	r.saveCalls++
	r.savedT = append(r.savedT, tiles...)
	for _, d := range data {
		r.savedD = append(r.savedD, append([]byte(nil), d...))
	}
}

func (r *c10Reader) savedTok() string {
	if r.saveCalls == 0 {
		return "none"
	}
	if len(r.savedT) == 0 {
		return "_"
	}
	out := make([]string, len(r.savedT))
	for i, t := range r.savedT {
		d := sha256.Sum256(r.savedD[i])
		out[i] = c10TileTok(t) + "=" + hex.EncodeToString(d[:8])
	}
	return strings.Join(out, ",")
}

// c10Log caches logs by (seed, N).
type c10LogT struct {
	recs []string
	st   tlogStore
	tree tlog.Tree
	uni  *c10Uni // non-nil: a uniform log of any size (util_c10uni.go); recs and st are not materialised
}

// hashAt: the true stored hash at index x.
func (l *c10LogT) hashAt(x int64) (tlog.Hash, bool) {
	if l.uni != nil {
		return l.uni.hashAt(x)
	}
	if x < 0 || x >= int64(len(l.st)) {
		return tlog.Hash{}, false
	}
	return l.st[x], true
}

var c10Logs = map[[2]int]*c10LogT{}

func c10Log(seed, n int) *c10LogT {
	k := [2]int{seed, n}
	if l, ok := c10Logs[k]; ok {
		return l
	}
	recs := tlogSynth(seed, n)
	st, err := tlogBuild(recs)
	if err != nil {
		panic(err)
	}
	th, err := tlog.TreeHash(int64(n), st)
	if err != nil {
		panic(err)
	}
	l := &c10LogT{recs: recs, st: st, tree: tlog.Tree{N: int64(n), Hash: th}}
	if len(c10Logs) > 5000 {
		c10Logs = map[[2]int]*c10LogT{}
	}
	c10Logs[k] = l
	return l
}

// c10Read runs the real tileHashReader against a c10Reader; a panic is a result.
func c10Read(l *c10LogT, h int, idx []int64, faults []c10Fault) (hs []tlog.Hash, res string, r *c10Reader) {
	r = &c10Reader{h: h, st: l.st, uni: l.uni, faults: faults}
	defer func() {
		if e := recover(); e != nil {
			hs, res = nil, "panic"
		}
	}()
	hs, err := tlog.TileHashReader(l.tree, r).ReadHashes(idx)
	if err != nil {
		return nil, tlogErr(err), r
	}
	return hs, "ok", r
}

func c10IdxTok(idx []int64) string {
	if len(idx) == 0 {
		return "_"
	}
	out := make([]string, len(idx))
	for i, x := range idx {
		out[i] = i64toa(x)
	}
	return strings.Join(out, ",")
}

func c10ParseIdx(tok string) []int64 {
	if tok == "_" {
		return nil
	}
	var out []int64
	for _, s := range strings.Split(tok, ",") {
		out = append(out, tlogI64(s))
	}
	return out
}

func c10Op(n, h int, idx []int64, fs []c10Fault, seed int) string {
	return fmt.Sprintf("tile.readhashes %d %d %s %s %d", n, h, c10IdxTok(idx), c10FaultsTok(fs), seed)
}

func init() {
	impls["tile.tileforindex"] = func(a []string) string { return c10TileTok(tlog.TileForIndex(atoi(a[0]), tlogI64(a[1]))) }
	impls["tile.newtiles"] = func(a []string) string {
		return c10TilesTok(tlog.NewTiles(atoi(a[0]), tlogI64(a[1]), tlogI64(a[2])))
	}
	impls["tile.tilepath"] = func(a []string) string { return hx(c10ParseTile(a[0]).Path()) }
	impls["tile.parsetilepath"] = func(a []string) string {
		t, err := tlog.ParseTilePath(unhx(a[0]))
		if err != nil {
			return "err"
		}
		return c10TileTok(t)
	}
	impls["tile.hashfromtile"] = func(a []string) string {
		var data []byte
		for _, h := range tlogHashes(a[1]) {
			data = append(data, h[:]...)
		}
		h, err := tlog.HashFromTile(c10ParseTile(a[0]), data, tlogI64(a[2]))
		if err != nil {
			return tlogErr(err)
		}
		return tlogHashHex(h)
	}
	impls["tile.readtiledata"] = func(a []string) string {
		st, err := tlogBuild(tlogRecords(a[1]))
		if err != nil {
			return tlogErr(err)
		}
		data, err := tlog.ReadTileData(c10ParseTile(a[0]), st)
		if err != nil {
			return tlogErr(err)
		}
		var hs []tlog.Hash
		for i := 0; i+tlog.HashSize <= len(data); i += tlog.HashSize {
			var h tlog.Hash
			copy(h[:], data[i:])
			hs = append(hs, h)
		}
		return tlogHashesHex(hs)
	}
	impls["tile.readhashes"] = func(a []string) string {
		l := c10Log(atoi(a[4]), atoi(a[0]))
		hs, res, r := c10Read(l, atoi(a[1]), c10ParseIdx(a[2]), c10ParseFaults(a[3]))
		if res == "ok" {
			res = tlogHashesHex(hs)
		}
		return res + " saved=" + r.savedTok()
	}
	register(&Prop{ID: "C10", Gen: genC10, Oracle: oracleC10,
		Rule: "readhashes: every tree size N <= 40 (thorough 120), tile height h in {1,2,3} (thorough 1..5, plus sampled N < 1500 with h <= 8), every single stored-hash index honest, the same on trees of N <= 10 (thorough 24) for the boundary heights 29, 30, 31 and three heights drawn from 4..28, then sampled (index set, fault) pairs where the fault hits a tile that the honest read requests: flip one bit of one hash, swap / duplicate two hashes, truncate, extend (whole hashes), lengthen / shorten by a number of bytes that is not a multiple of the hash size, replace by the true tile of another coordinate, tile missing; one or two faults; index sets of size 0-4 including out-of-range indexes, N = 0, h = 0; readuni: reads (honest / one or two faults) on uniform logs (all records equal, nothing materialised) of 2^20 .. 2^62-1 records (mostly above 2^59; 2^k, 2^k +- small, few set bits, random), heights 1..3 (sometimes ..8): single positions on every level, random sets, pairs of positions whose tiles alias when (level, number) is packed or the number is truncated to an s-bit field; readseq: histories of 2-4 ReadHashes calls through ONE TileHashReader value with per-call faults (honest then a corrupted re-fetch of a tile fetched before, a corrupted read retried, the index lists of TreeHash/ProveTree/ProveRecord, random); tileforindex / newtiles / hashfromtile / readtiledata / tilepath / parsetilepath with valid, mutated, boundary (int64 overflow in N, W = 2^H, leading zeros, signs, data tiles) and random inputs; non-trivial = at least one fault on a tile that is actually read, or a well-formed input / one mutation from one; distinct by op line"})
}

// c10Honest returns the tiles an honest read of idx requests.
func c10Honest(l *c10LogT, h int, idx []int64) []tlog.Tile {
	_, _, r := c10Read(l, h, idx, nil)
	return r.requested
}

func c10RandFault(r *Rand, l *c10LogT, h int, t tlog.Tile) c10Fault {
	f := c10Fault{L: t.L, N: t.N}
	w := t.W
	if w < 1 {
		w = 1
	}
	switch r.Intn(14) {
	case 12, 13:
		return c10RaggedFault(r, t)
	case 0, 1, 2, 3, 4:
		f.Kind, f.A, f.B = "flip", r.Intn(w), r.Intn(256)
	case 5:
		f.Kind, f.A, f.B = "swap", r.Intn(w), r.Intn(w)
	case 6:
		f.Kind, f.A, f.B = "dup", r.Intn(w), r.Intn(w)
	case 7:
		f.Kind, f.A = "trunc", 1+r.Intn(w)
	case 8:
		f.Kind, f.A = "ext", 1+r.Intn(3)
	case 9, 10:
		if h > 30 {
			// above the legal maximum the two tile servers (this one: tlog.ReadTileData; the Lean driver's: none) do not
			// agree on WHICH foreign coordinates have a "true tile" at all — a property of the test environment, not of the
			// code under test (thorough seed 37: 8 such ops disagreed, err:tile vs err:reader). No replacement fault there.
			f.Kind, f.A, f.B = "flip", r.Intn(w), r.Intn(256)
			break
		}
		f.Kind = "repl"
		f.A = t.L
		if r.Chance(30) {
			f.A = r.Intn(t.L + 2)
		}
		f.B = int(t.N) + r.Intn(5) - 2
		if f.B < 0 {
			f.B = 0
		}
	default:
		f.Kind = "miss"
	}
	return f
}

func c10IndexSet(r *Rand, n int) []int64 {
	max := int(tlog.StoredHashIndex(0, int64(n)))
	k := r.Intn(5)
	idx := make([]int64, k)
	for i := range idx {
		switch {
		case max == 0 || r.Chance(4):
			idx[i] = int64(max + r.Intn(3)) // out of range
		default:
			idx[i] = int64(r.Intn(max))
		}
	}
	if r.Chance(50) {
		sort.Slice(idx, func(i, j int) bool { return idx[i] < idx[j] })
	}
	return idx
}

const c10PathAlpha = "tile/0123456789x.pdat-+"

func c10RandTile(r *Rand) tlog.Tile {
	h := 1 + r.Intn(30)
	if r.Chance(50) {
		h = 1 + r.Intn(8)
	}
	t := tlog.Tile{H: h, L: r.Intn(65) - 1}
	switch r.Intn(4) {
	case 0:
		t.N = int64(r.Intn(1000))
	case 1:
		t.N = []int64{0, 999, 1000, 1001, 999999, 1000000, 1<<63 - 1, 1 << 62, 1234067}[r.Intn(9)]
	default:
		t.N = int64(r.U64() >> uint(1+r.Intn(63)))
	}
	switch r.Intn(3) {
	case 0:
		t.W = 1 << uint(h)
	case 1:
		t.W = 1 + r.Intn(1<<uint(h))
	default:
		t.W = 1
	}
	return t
}

func c10PathText(r *Rand) (string, bool) {
	t := c10RandTile(r)
	s := t.Path()
	switch r.Intn(10) {
	case 0, 1:
		return mutate(r, s, c10PathAlpha), true
	case 2: // non-canonical numbers, overflow, bounds
		return r.Pick([]string{
			"tile/1/0/000", "tile/0/0/000", "tile/31/0/000", "tile/30/0/000", "tile/+1/0/000", "tile/01/0/000", "tile/1/-0/000", "tile/1/-1/000",
			"tile/1/data/000", "tile/1/data/000.p/1", "tile/1/0/000.p/1", "tile/1/0/000.p/2", "tile/1/0/000.p/0", "tile/2/0/000.p/04", "tile/2/0/000.p/+3",
			"tile/1/0/x000/000", "tile/1/0/x001/000", "tile/1/0/001/000", "tile/1/0/x001/x000", "tile/1/0/1000", "tile/1/0/00", "tile/1/0/0000", "tile/1/0/-00", "tile/1/0/x-01/000",
			"tile/1/0/x009/x223/x372/x036/x854/x775/807", "tile/1/0/x009/x223/x372/x036/x854/x775/808", "tile/1/0/x018/x446/x744/x073/x709/x551/616",
			"tile/1/0/x018/x446/x744/x073/x709/x551/617", "tile/1/0/x001/x000/x000/x000/x000/x000/x000/000", "tile/1/0/x027/x670/x116/x110/x564/x327/424",
			"tile/1/99999999999999999999/000", "tile/1/64/000", "tile/1/0", "tile/1/0/", "tile/1/0/000/", "tile//0/000", "Tile/1/0/000", "tile/1/0/000.p", "tile/1/0/.p/1",
			"tile/2/0.p/3", "tile/2/data.p/3", "tile/3/4/x001/x234/067.p/1", "tile/3/4/x001/x234/067", "tile/3/4/x001/x234.p/067", "tile/1/0/xx01/000", "tile/1/0/x01/000",
		}), true
	case 3:
		return r.Bytes(r.Intn(24), c10PathAlpha), false
	}
	return s, true
}

func genC10(g *Gen, n int) {
	maxN, hs := 40, []int{1, 2, 3}
	if thorough {
		maxN, hs = 120, []int{1, 2, 3, 4, 5}
	}
	// fixed: the F6 witness (fixed by 939e2a3), N = 0, h = 0
	g.Emit(c10Op(7, 2, []int64{0}, []c10Fault{{L: 0, N: 0, Kind: "flip", A: 0, B: 0}}, 1), true, "f6-witness")
	g.Emit(c10Op(0, 2, nil, nil, 1), true, "empty-tree")
	g.Emit(c10Op(0, 2, []int64{0}, nil, 1), true, "empty-tree")
	g.Emit(c10Op(5, 0, []int64{0}, nil, 1), true, "height-0")
	g.Emit(c10Op(5, 0, nil, nil, 1), true, "height-0")
	// fixed, ragged length (same tree as the fixed histories of util_c10seq.go): N = 21, h = 2, index 0 fetches the
	// tree-hash tiles (L2, N0, w1), (L1, N1, w1), (L0, N5, w1) and the full tiles (L1, N0), (L0, N0), each authenticated
	// against its parent; every fetched tile longer / shorter by 1, 31 and 32+1 bytes
	for _, t := range [][2]int{{2, 0}, {1, 1}, {0, 5}, {1, 0}, {0, 0}} {
		for _, kind := range []string{"extb", "truncb"} {
			for _, a := range []int{1, 31, 33} {
				g.Emit(c10Op(21, 2, []int64{0}, []c10Fault{{L: t[0], N: int64(t[1]), Kind: kind, A: a, B: 0x5a}}, 1), true, "fault-"+kind)
			}
		}
	}
	// part 1: every (N, h, single index), honest
	budget := n
	type cfg struct{ n, h int }
	var cfgs []cfg
	for N := 0; N <= maxN; N++ { // N = 0: the empty tree
		for _, h := range hs {
			cfgs = append(cfgs, cfg{N, h})
		}
	}
	// the rest of the height domain (input class "every legal tile height", gap r6-C10-a: heights above 5 were only in
	// tile paths, never in a read): the boundary heights 29, 30 (the documented maximum) and 31 (refused by
	// HashFromTile) and three heights drawn from 4..28, on small trees, where every tile of such a height is a
	// partial tile of width <= N; they take part in the honest sweep and in the fault part below
	hiHs := []int{29, 30, 31, 4 + g.Intn(5), 9 + g.Intn(10), 19 + g.Intn(10)}
	hiN := 10
	if thorough {
		hiN = 24
	}
	for _, h := range hiHs {
		for N := 1; N <= hiN; N++ {
			cfgs = append(cfgs, cfg{N, h})
		}
	}
	honest := 0
	for _, c := range cfgs {
		honest += int(tlog.StoredHashIndex(0, int64(c.n)))
	}
	stride := 1
	if honest > budget/3 {
		stride = honest/(budget/3) + 1
	}
	cnt := 0
	for _, c := range cfgs {
		seed := 1 + c.n%3
		for x := int64(0); x < tlog.StoredHashIndex(0, int64(c.n)); x++ {
			cnt++
			if cnt%stride != 0 && x != 0 {
				continue
			}
			g.Emit(c10Op(c.n, c.h, []int64{x}, nil, seed), false, "honest-single")
			budget--
		}
	}
	// part 1b: call histories on one reader value (util_c10seq.go)
	seqN := budget / 8
	c10GenSeq(g, seqN, maxN, hs)
	budget -= seqN
	// part 1c: uniform logs of up to 2^62 records (util_c10uni.go)
	uniN := budget / 24 // a read on a tree of 2^61 records is about 250 hash computations in the model: keep these few
	c10GenUni(g, uniN)
	budget -= uniN
	// part 2: faults on tiles that are read
	other := budget / 5
	for budget > other {
		c := cfgs[g.Intn(len(cfgs))]
		if thorough && g.Chance(1) {
			c = cfg{1 + g.Intn(1500), 1 + g.Intn(8)} // the model rebuilds the whole store per op: keep these rare
		}
		seed := 1 + g.Intn(3)
		l := c10Log(seed, c.n)
		var idx []int64
		if g.Chance(60) {
			idx = []int64{int64(g.Intn(int(tlog.StoredHashIndex(0, int64(c.n)))))}
		} else {
			idx = c10IndexSet(g.Rand, c.n)
		}
		req := c10Honest(l, c.h, idx)
		var fs []c10Fault
		nontrivial := false
		if len(req) > 0 {
			fs = append(fs, c10RandFault(g.Rand, l, c.h, req[g.Intn(len(req))]))
			nontrivial = true
			if g.Chance(15) {
				fs = append(fs, c10RandFault(g.Rand, l, c.h, req[g.Intn(len(req))]))
			}
		}
		if g.Chance(5) { // a fault on a tile that is not read
			fs = append(fs, c10Fault{L: g.Intn(3), N: int64(g.Intn(20)), Kind: "flip", A: 0, B: g.Intn(256)})
		}
		tag := "fault-none"
		if len(fs) > 0 {
			tag = "fault-" + fs[0].Kind
		}
		g.Emit(c10Op(c.n, c.h, idx, c10NormFaults(fs), seed), nontrivial, tag)
		budget--
	}
	// part 3: the other tile functions
	for ; budget > 0; budget-- {
		switch g.Intn(10) {
		case 0:
			h := 1 + g.Intn(8)
			if g.Chance(5) {
				h = 0
			}
			if g.Chance(20) {
				h = 1 + g.Intn(31) // the whole height domain and one above
			}
			g.Emit(fmt.Sprintf("tile.tileforindex %d %d", h, c09Index(g.Rand)), true, "tileforindex")
		case 1:
			h := 1 + g.Intn(5)
			if g.Chance(3) {
				h = 0
			}
			a, b := int64(g.Intn(300)), int64(g.Intn(300))
			if g.Chance(70) && a > b {
				a, b = b, a
			}
			if g.Chance(10) {
				b = int64(g.Intn(100000))
			}
			g.Emit(fmt.Sprintf("tile.newtiles %d %d %d", h, a, b), true, "newtiles")
		case 2:
			g.Emit("tile.tilepath "+c10TileTok(c10RandTile(g.Rand)), true, "tilepath")
		case 3, 4, 5:
			s, nt := c10PathText(g.Rand)
			g.Emit("tile.parsetilepath "+hx(s), nt, "parsetilepath")
		case 6, 7:
			// hashfromtile on true tile data with valid and invalid (tile, index) combinations
			N := 1 + g.Intn(60)
			h := 1 + g.Intn(4)
			if g.Chance(25) { // any legal height, the boundary heights with weight: the tile is a partial tile of width <= N
				h = []int{29, 30, 30, 5 + g.Intn(24)}[g.Intn(4)]
			}
			l := c10Log(1, N)
			x := int64(g.Intn(int(tlog.StoredHashIndex(0, int64(N)))))
			t := tlog.TileForIndex(h, x)
			data, err := tlog.ReadTileData(t, l.st)
			if err != nil {
				continue
			}
			var hl []tlog.Hash
			for i := 0; i+32 <= len(data); i += 32 {
				var hh tlog.Hash
				copy(hh[:], data[i:])
				hl = append(hl, hh)
			}
			switch g.Intn(16) {
			case 0:
				t.W--
			case 1:
				t.N++
			case 2:
				t.L++
			case 3:
				hl = hl[:g.Intn(len(hl))]
			case 4:
				x = int64(g.Intn(int(tlog.StoredHashIndex(0, int64(N))) + 5))
			case 5:
				t.H = []int{0, 31, t.H + 1, 30}[g.Intn(4)]
			case 6:
				t.L = []int{-1, 64, 63}[g.Intn(3)]
			case 7, 8, 9: // a wider version of the same tile (allowed), with the data it would have
				if wide := tlog.TileForIndex(h, x); wide.W < 1<<uint(h) {
					full := 1 << uint(h)
					if full > wide.W+8 {
						full = wide.W + 8 // large heights: a few hashes wider, not the complete tile
					}
					for len(hl) < full {
						hl = append(hl, c09RandHash(g.Rand))
					}
					t.W = wide.W + g.Intn(full-wide.W+1)
				}
			case 10: // another index inside the same tile
				l2, n2 := tlog.SplitStoredHashIndex(x)
				if l2 > 0 {
					x = tlog.StoredHashIndex(l2-1, 2*n2+int64(g.Intn(2)))
				}
			}
			g.Emit(fmt.Sprintf("tile.hashfromtile %s %s %d", c10TileTok(t), tlogHashesHex(hl), x), true, "hashfromtile")
		default:
			N := g.Intn(40)
			h := 1 + g.Intn(3)
			t := tlog.Tile{H: h, L: g.Intn(4), N: int64(g.Intn(12)), W: g.Intn(1<<uint(h) + 1)}
			if nt := tlog.NewTiles(h, 0, int64(N)); len(nt) > 0 && g.Chance(75) {
				t = nt[g.Intn(len(nt))] // a tile that exists in the tree
				if g.Chance(20) {
					t.W = g.Intn(t.W + 1)
				}
			}
			g.Emit(fmt.Sprintf("tile.readtiledata %s @1:%d", c10TileTok(t), N), true, "readtiledata")
		}
	}
}

// ---- oracle

func c10TrueTile(l *c10LogT, t tlog.Tile) []byte {
	if l.uni != nil {
		return l.uni.trueTile(t)
	}
	d, err := tlog.ReadTileData(t, l.st)
	if err != nil {
		return nil
	}
	return d
}

// c10CheckRead states the property for one read: honest -> true hashes; any environment -> error, or only true hashes
// and only true tiles saved.
func c10CheckRead(g *Gen, l *c10LogT, n, h int, idx []int64, fs []c10Fault, seed int) {
	hs, res, r := c10Read(l, h, idx, fs)
	op := c10Op(n, h, idx, fs, seed)
	if l.uni != nil {
		op = c10UniOp(l.tree.N, h, idx, fs, seed)
	}
	c10CheckOutcome(g, l, n, idx, len(fs) == 0, hs, res, r, "", op)
}

// c10CheckOutcome is the property for the outcome of ONE ReadHashes call (on a fresh reader or in the middle of a
// history of calls on one reader, see util_c10seq.go). honest = the tile server has answered every request made
// through this reader so far with the true tiles. where is put in front of the info text. Reports at most one failure.
func c10CheckOutcome(g *Gen, l *c10LogT, n int, idx []int64, honest bool, hs []tlog.Hash, res string, r *c10Reader, where string, ops ...string) bool {
	inRange := true
	for _, x := range idx {
		if x < 0 || x >= tlog.StoredHashIndex(0, int64(n)) {
			inRange = false
		}
	}
	if res == "panic" {
		g.Fail("ReadHashes through tiles crashes", where, ops...)
		return false
	}
	if honest && inRange {
		if res != "ok" {
			g.Fail("reading through honestly served tiles fails", where+res, ops...)
			return false
		}
	}
	if res == "ok" {
		if len(hs) != len(idx) {
			g.Fail("ReadHashes through tiles returns the wrong number of hashes", where, ops...)
			return false
		}
		for i, x := range idx {
			if want, ok := l.hashAt(x); !ok || hs[i] != want {
				g.Fail("ReadHashes through tiles returned a hash that is not the true stored hash", fmt.Sprintf("%sindex %d", where, x), ops...)
				return false
			}
		}
	}
	for i, t := range r.savedT {
		if !bytes.Equal(r.savedD[i], c10TrueTile(l, t)) || len(r.savedD[i]) != t.W*tlog.HashSize {
			g.Fail("a tile passed to SaveTiles is not byte-identical to the true tile", where+c10TileTok(t), ops...)
			return false
		}
	}
	return true
}

func oracleC10(g *Gen, n int) {
	maxN, hs := 40, []int{1, 2, 3}
	if thorough {
		maxN, hs = 150, []int{1, 2, 3, 4, 5, 8}
	}
	cases := 0
	// the empty tree: nothing to read, out-of-range indexes refused
	for _, h := range hs {
		l := c10Log(1, 0)
		g.Case("empty-tree")
		c10CheckRead(g, l, 0, h, nil, nil, 1)
		c10CheckRead(g, l, 0, h, []int64{0}, nil, 1)
	}
	// (a) exhaustive: every N, h, single index honest; every requested tile x every hash: one-bit flip; plus one other fault kind
	exhaustive := func(N, h, seed int, everyHash bool) {
		l := c10Log(seed, N)
		max := tlog.StoredHashIndex(0, int64(N))
		// the tiles that support the tree hash (fetched by every read, also one of no index); every other fetched tile
		// is authenticated against its parent
		stx := map[tlog.Tile]bool{}
		for _, t := range c10Honest(l, h, nil) {
			stx[t] = true
		}
		raggedDone := map[tlog.Tile]bool{}
		for x := int64(0); x < max; x++ {
			idx := []int64{x}
			g.Case("honest-single")
			cases++
			c10CheckRead(g, l, N, h, idx, nil, seed)
			req := c10Honest(l, h, idx)
			for _, t := range req {
				for i := 0; i < t.W; i++ {
					if !everyHash && g.Chance(70) {
						continue
					}
					g.Case("flip")
					cases++
					c10CheckRead(g, l, N, h, idx, []c10Fault{{L: t.L, N: t.N, Kind: "flip", A: i, B: g.Intn(256)}}, seed)
				}
				f := c10RandFault(g.Rand, l, h, t)
				g.Case(f.Kind)
				cases++
				c10CheckRead(g, l, N, h, idx, []c10Fault{f}, seed)
				// ragged length, structured sweep: every distinct tile of this (N, h) once (what happens to a tile of a
				// wrong length does not depend on the index asked for), in both roles, longer and shorter by 1, by 31, by
				// a random 2..30 and by whole hashes plus 1..31 bytes
				if raggedDone[t] {
					continue
				}
				raggedDone[t] = true
				role := "-auth"
				if stx[t] {
					role = "-stx"
				}
				S := tlog.HashSize
				for _, kind := range []string{"extb", "truncb"} {
					for _, a := range []int{1, S - 1, 2 + g.Intn(S-3), S*(1+g.Intn(t.W+1)) + 1 + g.Intn(S-1)} {
						g.Case(kind + role)
						cases++
						c10CheckRead(g, l, N, h, idx, []c10Fault{{L: t.L, N: t.N, Kind: kind, A: a, B: g.Intn(256)}}, seed)
					}
				}
			}
		}
	}
	// (a') the whole height domain. Input class "every legal tile height" (added for the gap r6-C10-a): the heights
	// above were 1..3 (thorough 1..5, 8), sampled ones at most 8, so the upper part of the documented domain
	// 1 <= H <= 30, and its boundary H = 30 in particular, never appeared in an actual read; only tile paths had it.
	// A tile of a large height is huge only when it is complete: on a small tree every tile of height >= 4 is a
	// partial tile of width <= N. Every height 4..30 on every tree of up to 6 records (up to 12 at the boundary
	// heights 29 and 30), every single index, honest and with the faults of (a). (Height 31 and above: HashFromTile
	// refuses the tiles, the property claims nothing; the correspondence run has them.)
	hiN, edgeN := 6, 12
	if thorough {
		hiN, edgeN = 16, 40
	}
	for h := 4; h <= 30; h++ {
		top := hiN
		if h >= 29 {
			top = edgeN
		}
		for N := 1; N <= top; N++ {
			exhaustive(N, h, 1+N%3, false)
		}
	}
	// (a'') uniform logs of up to 2^62 records (util_c10uni.go)
	cases += c10OracleUni(g, n/15)
	for N := 1; N <= maxN && cases < n; N++ {
		for _, h := range hs {
			exhaustive(N, h, 1+N%3, N <= 24)
		}
	}
	// (e) call histories on ONE reader value against a server whose answers change between the calls: exhaustive on a
	// small scope here, random ones (larger trees, index sets, the index lists of TreeHash/ProveTree/ProveRecord) in (b)
	seqMaxN := 20
	if thorough {
		seqMaxN = 48
	}
	cases += c10OracleSeqSmall(g, seqMaxN, hs, n/4)
	// (b) random index sets, one or two faults, larger trees (with a share of their own however large the sweeps above are)
	if n < cases+n/3 {
		n = cases + n/3
	}
	for cases < n {
		N := g.Intn(maxN*3 + 1)
		if g.Chance(10) {
			N = 1 + g.Intn(2000)
		}
		h := 1 + g.Intn(4)
		if g.Chance(10) {
			h = 1 + g.Intn(8)
		}
		if g.Chance(5) {
			h = 1 + g.Intn(30) // any legal height: N < 2^11, so the tiles of a height above 10 are partial
			if g.Chance(30) {
				h = 30
			}
		}
		seed := 1 + g.Intn(3)
		l := c10Log(seed, N)
		idx := c10IndexSet(g.Rand, N)
		g.Case("honest-set")
		cases++
		c10CheckRead(g, l, N, h, idx, nil, seed)
		req := c10Honest(l, h, idx)
		for j := 0; j < 6 && len(req) > 0; j++ {
			fs := []c10Fault{c10RandFault(g.Rand, l, h, req[g.Intn(len(req))])}
			if g.Chance(25) {
				fs = append(fs, c10RandFault(g.Rand, l, h, req[g.Intn(len(req))]))
			}
			g.Case("set-" + fs[0].Kind)
			cases++
			c10CheckRead(g, l, N, h, idx, fs, seed)
		}
		for j := 0; j < 2; j++ {
			cases++
			c10OracleSeqRandom(g, l, N, h, seed)
		}
		// (c) NewTiles sufficiency over a growth sequence ending at N
		if g.Chance(40) {
			g.Case("newtiles-growth")
			cases++
			published := map[tlog.Tile]bool{}
			steps := []int64{0}
			for cur := int64(0); cur < int64(N); {
				cur += 1 + int64(g.Intn(N/2+1))
				if cur > int64(N) {
					cur = int64(N)
				}
				steps = append(steps, cur)
			}
			for i := 0; i+1 < len(steps); i++ {
				for _, t := range tlog.NewTiles(h, steps[i], steps[i+1]) {
					published[t] = true
				}
			}
			for j := 0; j < 4; j++ {
				idx := c10IndexSet(g.Rand, N)
				for _, t := range c10Honest(l, h, idx) {
					if !published[t] {
						g.Fail("a tile requested by ReadHashes was never named by NewTiles over the growth sequence", fmt.Sprintf("tile %s steps %v", c10TileTok(t), steps), c10Op(N, h, idx, nil, seed))
					}
				}
			}
		}
		// (d) tile coordinates <-> paths
		for j := 0; j < 10; j++ {
			g.Case("path")
			cases++
			t := c10RandTile(g.Rand)
			p := t.Path()
			back, err := tlog.ParseTilePath(p)
			if err != nil || back != t {
				g.Fail("ParseTilePath(t.Path()) != t for a valid tile", c10TileTok(t)+" "+p, "tile.tilepath "+c10TileTok(t), "tile.parsetilepath "+hx(p))
			}
			s, _ := c10PathText(g.Rand)
			if u, err := tlog.ParseTilePath(s); err == nil && u.Path() != s {
				g.Fail("ParseTilePath accepts a path that is not the path of the tile it returns", s, "tile.parsetilepath "+hx(s))
			}
		}
	}
}
