package main

// C07 oracle: the property transcribed on the implementation alone (no model).
//
//  (S) Open returns a note  =>  >= 1 verified signature; every verified signature's verifier was called
//      (logged) with exactly n.Text and the decoded signature bytes and returned true; no logged call
//      returned false; the message is n.Text + "\n" + signature block.
//  (B) a known key whose signature line (the one Open checks: its first, DESIGN O4) is bad => Open fails.
//  (R) valid note text, any signers, any known verifiers: Sign then Open returns the same text with the
//      signatures partitioned into verified (known) / unverified (unknown) in order.
//  (M) any byte-level mutation of a signed message: Open never returns a different text as verified.
//  (P) Open -> Sign -> Open: an existing signature is elided by Sign only if a signer uses the same key; all
//      others (verified and unverified, also several distinct ones of one key) are emitted, before the new ones.
//  (A) VerifierList with two verifiers for one (name, hash): lookup fails, Open fails.
//  (L) (S)/(B)/(R) on signature blocks with a very long line (long signature of a custom Signer, long key name): util_c07long.go.
//  (C) (P) on signature lines whose base64 field is VALID but NOT CANONICAL (non-zero unused bits in the last digit):
//      Open accepts and reports that spelling, so Sign of the returned note must succeed and keep it (util_c07spell.go).
//  (H) "any set of known verifiers": a VerifierList holds the verifiers it was built from, whatever the caller
//      does with the slice it passed with '...' afterwards; (S)/(B)/(R)/(A) on such histories (util_c07alias.go).

import (
	"bytes"
	"encoding/base64"
	"encoding/binary"
	"errors"
	"fmt"
	"strconv"
	"strings"

	"golang.org/x/mod/sumdb/note"
)

type c07Real struct {
	name     string
	skey     string
	vkey     string
	signer   note.Signer
	verifier note.Verifier
}

func c07RealKeys(g *Gen) []c07Real {
	// every key NewSigner/NewVerifier accept takes part in the round-trip cases: "any set of signers".
	// Names with ASCII control characters / DEL / C1 controls are offered too: whichever of them the
	// package accepts as a key name must round-trip (F9: "a\x01" used to be accepted by Sign and rejected by Open).
	names := []string{"a.example", "a.example", "b.example/x", "é世", "sum.golang.org", "—",
		"a\x01", "\x00", "a\x1f", "a\x7f", "a\u0085b", "a\x0e", "\ufffd", "a=b"}
	var out []c07Real
	for _, nm := range names {
		skey, vkey, err := note.GenerateKey(c07Reader{g.Rand}, nm)
		if err != nil {
			panic(err)
		}
		s, err1 := note.NewSigner(skey)
		v, err2 := note.NewVerifier(vkey)
		if (err1 == nil) != (err2 == nil) {
			g.Fail("NewSigner and NewVerifier disagree on the validity of a key name", skey+" "+vkey, "note.newverifier "+hx(vkey))
			continue
		}
		if err1 != nil {
			// GenerateKey output can only be rejected for its name; Sign must then refuse that name too
			if c07NameOK(nm) {
				g.Fail("NewSigner rejects a generated key whose name Sign accepts", hx(nm))
			}
			continue
		}
		if err1 != nil || err2 != nil {
			g.Fail("GenerateKey output rejected by NewSigner/NewVerifier", skey+" "+vkey, "note.newverifier "+hx(vkey))
			continue
		}
		if s.Name() != nm || v.Name() != nm || s.KeyHash() != v.KeyHash() {
			g.Fail("GenerateKey name/hash not preserved", vkey, "note.newverifier "+hx(vkey))
		}
		out = append(out, c07Real{nm, skey, vkey, s, v})
	}
	return out
}

// c07Wrap wraps verifiers into logging verifiers (ids = positions).
func c07Wrap(vs []note.Verifier, log *[]c07Call) []note.Verifier {
	out := make([]note.Verifier, len(vs))
	for i, v := range vs {
		v := v
		out[i] = &c07Verifier{name: v.Name(), hash: v.KeyHash(), f: v.Verify, id: i, log: log}
	}
	return out
}

// c07CheckSound checks (S) for one Open call on a VerifierList of vs.
func c07CheckSound(g *Gen, msg []byte, vs []note.Verifier, n *note.Note, err error, log []c07Call, info string, ops ...string) {
	anyFalse := false
	for _, c := range log {
		if !c.ok {
			anyFalse = true
		}
	}
	if err != nil {
		var ie *note.InvalidSignatureError
		if errors.As(err, &ie) && !anyFalse {
			g.Fail("InvalidSignatureError although no verifier rejected a signature", info, ops...)
		}
		if n != nil {
			g.Fail("Open returned both a note and an error", info, ops...)
		}
		return
	}
	if n == nil {
		g.Fail("Open returned neither note nor error", info, ops...)
		return
	}
	if anyFalse {
		g.Fail("Open succeeded although a known key's verifier rejected a signature", info, ops...)
	}
	if len(n.Sigs) == 0 {
		g.Fail("Open succeeded with no verified signature", info, ops...)
	}
	if !strings.HasSuffix(n.Text, "\n") || !bytes.HasPrefix(msg, []byte(n.Text+"\n")) {
		g.Fail("returned text is not the message's text part", info, ops...)
	}
	for _, c := range log {
		if string(c.msg) != n.Text {
			g.Fail("a verifier was called on something other than the returned text", info, ops...)
		}
	}
	block := n.Text + "\n"
	for _, s := range n.Sigs {
		raw, e := base64.StdEncoding.DecodeString(s.Base64)
		if e != nil || len(raw) < 5 || binary.BigEndian.Uint32(raw) != s.Hash {
			g.Fail("verified signature does not decode to its key hash", info, ops...)
			continue
		}
		if !bytes.Contains(msg[len(block)-1:], []byte("\n— "+s.Name+" "+s.Base64+"\n")) {
			g.Fail("verified signature is not a line of the message", info, ops...)
		}
		cnt, id := 0, -1
		for i, v := range vs {
			if v.Name() == s.Name && v.KeyHash() == s.Hash {
				cnt++
				id = i
			}
		}
		if cnt != 1 {
			g.Fail("verified signature's key is not a unique known key", info, ops...)
			continue
		}
		found := false
		for _, c := range log {
			if c.id == id && c.ok && string(c.msg) == n.Text && bytes.Equal(c.sig, raw[4:]) {
				found = true
			}
		}
		if !found {
			g.Fail("verified signature was not checked by its key's verifier over exactly the returned text", info, ops...)
		}
	}
	for _, s := range n.UnverifiedSigs {
		for _, v := range vs {
			if v.Name() == s.Name && v.KeyHash() == s.Hash {
				g.Fail("a known key's signature is listed as unverified", info, ops...)
			}
		}
	}
}

func c07SigEq(a, b []note.Signature) bool {
	if len(a) != len(b) {
		return false
	}
	for i := range a {
		if a[i] != b[i] {
			return false
		}
	}
	return true
}

// c07Expect computes, from the property text alone, what Open must return for a message built as
// text + "\n" + lines where every line is a well-formed signature line (name, hash, sig bytes):
// known (unique in vs) keys' first lines must verify; verified = known keys in order of first
// appearance; unverified = unknown lines without identical repeats, in order.
type c07BLine struct {
	name string
	hash uint32
	sig  []byte
	b64  string // the line's base64 field as spelled in the message; "" = the canonical encoding of hash ‖ sig (util_c07spell.go)
}

func c07B64(l c07BLine) string {
	if l.b64 != "" {
		return l.b64
	}
	var h [4]byte
	binary.BigEndian.PutUint32(h[:], l.hash)
	return base64.StdEncoding.EncodeToString(append(h[:], l.sig...))
}

// c07ExpectBlock: the expected outcome of Open on text + "\n" + lines, from the property text alone.
// known(k): k is a (unique) known key; good(l): l's signature bytes verify under l's key over the text.
// bad is the key reported for "invalidsig" (the first known key, in line order, whose first line is bad).
func c07ExpectBlock(lines []c07BLine, known func(c07Key) bool, good func(c07BLine) bool) (wantErr string, wantV, wantU []note.Signature, bad c07Key) {
	seenK := map[c07Key]bool{}
	seenL := map[string]bool{}
	for i, l := range lines {
		if i >= 100 { // the 101st signature line
			return "malformed", nil, nil, bad
		}
		k := c07Key{l.name, l.hash}
		e := note.Signature{Name: l.name, Hash: l.hash, Base64: c07B64(l)}
		if known(k) {
			if seenK[k] {
				continue
			}
			seenK[k] = true
			if !good(l) {
				return "invalidsig", nil, nil, k
			}
			wantV = append(wantV, e)
		} else {
			key := l.name + " " + e.Base64
			if seenL[key] {
				continue
			}
			seenL[key] = true
			wantU = append(wantU, e)
		}
	}
	if len(wantV) == 0 {
		wantErr = "unverified"
	}
	return wantErr, wantV, wantU, bad
}

// c07RelayLine inserts, at a random position (before or after the original), a copy of one of the lines under
// another name: same key hash, same signature bytes, hence the same base64 field. pick proposes names.
func c07RelayLine(r *Rand, lines []c07BLine, pick func() string) []c07BLine {
	if len(lines) == 0 {
		return lines
	}
	src := lines[r.Intn(len(lines))]
	name := src.name
	for try := 0; try < 8 && (name == src.name || !c07NameOK(name)); try++ {
		name = pick()
	}
	if name == src.name || !c07NameOK(name) {
		name = src.name + "x" // a valid name stays valid with an ASCII letter appended
	}
	at := r.Intn(len(lines) + 1)
	out := append([]c07BLine{}, lines[:at]...)
	out = append(out, c07BLine{name, src.hash, src.sig, ""})
	return append(out, lines[at:]...)
}

func oracleC07(g *Gen, n int) {
	r := g.Rand
	rl := c07Fork(r, 0xc07b) // the stream of the long-line cases, forked: the stream of the other cases is unchanged
	keys := c07RealKeys(g)
	if len(keys) < 4 {
		return
	}
	// (L) very long signature lines (util_c07long.go): each case is large, so they are a fixed share, not a switch arm
	for it := 0; it < n/16+8; it++ {
		c07OracleLong(g, rl, keys)
	}
	// (C) non-canonical base64 spellings through Open -> Sign -> Open (util_c07spell.go): a fixed share on a forked stream
	rs := c07Fork(r, 0xc07d)
	for it := 0; it < n/8+16; it++ {
		c07ReSign(g, rs, keys, true)
	}
	for it := 0; it < n; it++ {
		switch r.Intn(16) {
		case 14, 15:
			c07OracleAlias(g, keys) // histories on a caller-owned slice (util_c07alias.go)
		case 12, 13:
			c07OracleReSign(g, keys)
		case 0, 1, 2:
			c07OracleRoundTrip(g, keys)
		case 3, 4:
			c07OracleMutation(g, keys)
		case 5, 6, 7:
			c07OracleBuilt(g)
		case 8:
			c07OracleStubSound(g)
		case 9:
			c07OracleAmbiguous(g, keys)
		default:
			c07OracleRelay(g, keys)
		}
	}
	if thorough {
		// every position of a few short real-key signed notes
		for j := 0; j < 20; j++ {
			text := r.Pick([]string{"\n", "a\n", "a\n\nb\n", "— a AAAAAAE=\n", "é\n"})
			k := keys[r.Intn(len(keys))]
			msg, err := note.Sign(&note.Note{Text: text}, k.signer)
			if err != nil {
				g.Fail("Sign failed on valid text", text)
				continue
			}
			for i := 0; i < len(msg); i++ {
				for m := 0; m < c07NMut; m++ {
					c07CheckMutation(g, text, string(msg), c07MutateAt(string(msg), i, m, nil), []note.Verifier{k.verifier}, []string{k.vkey})
				}
			}
		}
	}
}

func c07Subset(r *Rand, keys []c07Real, max int) []c07Real {
	n := r.Intn(max + 1)
	var out []c07Real
	for i := 0; i < n; i++ {
		out = append(out, keys[r.Intn(len(keys))])
	}
	return out
}

func c07OracleRoundTrip(g *Gen, keys []c07Real) {
	r := g.Rand
	text := c07GoodText(r)
	if !c07ValidText(text) {
		return
	}
	g.Case("roundtrip")
	S := c07Subset(r, keys, 3)
	K := c07Subset(r, keys, 3)
	// distinct known keys (an ambiguous list is case (A))
	var vs []note.Verifier
	var vkeys []string
	seenK := map[string]bool{}
	for _, k := range K {
		if !seenK[k.vkey] {
			seenK[k.vkey] = true
			vs = append(vs, k.verifier)
			vkeys = append(vkeys, k.vkey)
		}
	}
	var signers []note.Signer
	for _, s := range S {
		signers = append(signers, s.signer)
	}
	info := fmt.Sprintf("text=%s signers=%d known=%s", hx(text), len(S), strings.Join(vkeys, " "))
	msg, err := note.Sign(&note.Note{Text: text}, signers...)
	if err != nil {
		g.Fail("Sign failed on valid note text", info, "note.sign "+hx(text)+" _ _ _")
		return
	}
	// expected partition
	var wantV, wantU []note.Signature
	seenV := map[string]bool{}
	seenU := map[string]bool{}
	for _, s := range S {
		sig, _ := s.signer.Sign([]byte(text))
		var h [4]byte
		binary.BigEndian.PutUint32(h[:], s.signer.KeyHash())
		e := note.Signature{Name: s.name, Hash: s.signer.KeyHash(), Base64: base64.StdEncoding.EncodeToString(append(h[:], sig...))}
		if seenK[s.vkey] {
			if !seenV[s.vkey] {
				seenV[s.vkey] = true
				wantV = append(wantV, e)
			}
		} else if !seenU[s.vkey] {
			seenU[s.vkey] = true
			wantU = append(wantU, e)
		}
	}
	var log []c07Call
	wvs := c07Wrap(vs, &log)
	nt, err := note.Open(msg, note.VerifierList(wvs...))
	c07CheckSound(g, msg, wvs, nt, err, log, info)
	if len(S) == 0 {
		if err == nil {
			g.Fail("message without signatures opened", info)
		}
		return
	}
	if len(wantV) == 0 {
		var ue *note.UnverifiedNoteError
		if !errors.As(err, &ue) {
			g.Fail("note signed only by unknown keys: expected UnverifiedNoteError", info)
		} else if ue.Note.Text != text || !c07SigEq(ue.Note.UnverifiedSigs, wantU) || len(ue.Note.Sigs) != 0 {
			g.Fail("UnverifiedNoteError carries the wrong note", info)
		}
		return
	}
	if err != nil {
		g.Fail("Sign->Open round trip failed", info+" err="+err.Error())
		return
	}
	if nt.Text != text {
		g.Fail("Sign->Open round trip changed the text", info)
	}
	if !c07SigEq(nt.Sigs, wantV) || !c07SigEq(nt.UnverifiedSigs, wantU) {
		g.Fail("Sign->Open round trip: wrong verified/unverified partition", info)
	}
	// re-sign the opened note with more signers: existing signatures first, replaced keys elided, same text
	more := c07Subset(r, keys, 2)
	var ms []note.Signer
	for _, s := range more {
		ms = append(ms, s.signer)
	}
	msg2, err := note.Sign(nt, ms...)
	if err != nil {
		g.Fail("re-signing an opened note failed", info)
		return
	}
	nt2, err := note.Open(msg2, note.VerifierList(vs...))
	if err != nil || nt2.Text != text {
		g.Fail("re-signed note does not open to the same text", info)
		return
	}
	// every signature of the first note is still present (possibly re-made by a new signer), text unchanged
	have := map[string]bool{}
	for _, s := range append(append([]note.Signature{}, nt2.Sigs...), nt2.UnverifiedSigs...) {
		have[s.Name+"+"+strconv.FormatUint(uint64(s.Hash), 10)+"+"+s.Base64] = true
	}
	for _, s := range append(append([]note.Signature{}, nt.Sigs...), nt.UnverifiedSigs...) {
		if !have[s.Name+"+"+strconv.FormatUint(uint64(s.Hash), 10)+"+"+s.Base64] {
			g.Fail("re-signing lost an existing signature", info)
		}
	}
}

// c07CheckMutation: (M) for one mutated message.
func c07CheckMutation(g *Gen, text, msg, mut string, vs []note.Verifier, vkeys []string) {
	g.Case("mutation")
	var log []c07Call
	wvs := c07Wrap(vs, &log)
	nt, err := note.Open([]byte(mut), note.VerifierList(wvs...))
	info := fmt.Sprintf("text=%s msg=%s mutated=%s known=%s", hx(text), hx(msg), hx(mut), strings.Join(vkeys, " "))
	c07CheckSound(g, []byte(mut), wvs, nt, err, log, info)
	if err == nil && nt.Text != text {
		g.Fail("a modified signed message opened with a different text", info)
	}
	if mut == msg && err != nil {
		g.Fail("the unmodified signed message does not open", info)
	}
}

func c07OracleMutation(g *Gen, keys []c07Real) {
	r := g.Rand
	text := c07GoodText(r)
	if !c07ValidText(text) {
		return
	}
	S := c07Subset(r, keys, 2)
	S = append(S, keys[r.Intn(len(keys))])
	var signers []note.Signer
	for _, s := range S {
		signers = append(signers, s.signer)
	}
	msg, err := note.Sign(&note.Note{Text: text}, signers...)
	if err != nil {
		g.Fail("Sign failed on valid note text", hx(text))
		return
	}
	// known: at least one of the signers
	seen := map[string]bool{}
	var vs []note.Verifier
	var vkeys []string
	for i, s := range S {
		if (i == len(S)-1 && len(vs) == 0 || r.Chance(60)) && !seen[s.vkey] {
			seen[s.vkey] = true
			vs = append(vs, s.verifier)
			vkeys = append(vkeys, s.vkey)
		}
	}
	c07CheckMutation(g, text, string(msg), string(msg), vs, vkeys)
	split := len(text) // mutations of the text part (and of the separator) are the property's case; also the block
	for j := 0; j < 6; j++ {
		var mut string
		switch r.Intn(4) {
		case 0, 1:
			mut = c07MutateAt(string(msg), r.Intn(split+1), r.Intn(c07NMut), r)
		case 2:
			mut = c07Mutate(r, string(msg))
		default:
			mut = c07Mutate(r, c07Mutate(r, string(msg)))
		}
		c07CheckMutation(g, text, string(msg), mut, vs, vkeys)
	}
	// (B) with a real key: corrupt the signature bytes of a known key's line, keeping the line well-formed
	k := S[len(S)-1]
	if seen[k.vkey] {
		g.Case("bad-known-sig")
		sig, _ := k.signer.Sign([]byte(text))
		good := c07SigLine(k.name, k.signer.KeyHash(), sig)
		bad := append([]byte(nil), sig...)
		bad[r.Intn(len(bad))] ^= byte(1 << uint(r.Intn(8)))
		badLine := c07SigLine(k.name, k.signer.KeyHash(), bad)
		i := strings.Index(string(msg[len(text):]), good)
		if i < 0 {
			g.Fail("signature line of a signer not found in Sign output", hx(string(msg)))
			return
		}
		i += len(text)
		mut := string(msg[:i]) + badLine + string(msg[i+len(good):])
		nt, err := note.Open([]byte(mut), note.VerifierList(vs...))
		var ie *note.InvalidSignatureError
		if err == nil || nt != nil {
			g.Fail("a known key with a bad signature did not make Open fail", "msg="+hx(mut)+" known="+strings.Join(vkeys, " "))
		} else if !errors.As(err, &ie) || ie.Name != k.name || ie.Hash != k.signer.KeyHash() {
			// first bad known key in line order must be reported; other known keys before it are good here
			g.Fail("bad signature of a known key not reported as InvalidSignatureError for that key", "msg="+hx(mut)+" err="+err.Error())
		}
	}
}

// c07OracleBuilt: hand-built, well-formed signature blocks with stub keys; expected outcome from the property text.
func c07OracleBuilt(g *Gen) {
	r := g.Rand
	text := c07GoodText(r)
	if !c07ValidText(text) {
		return
	}
	g.Case("built")
	u := c07Universe(r)
	for i := range u {
		for !c07NameOK(u[i].name) {
			u[i].name = r.Pick(c07Names)
		}
	}
	// known: distinct keys of the universe, behaviour f (honest checksum verifier)
	var specs []string
	known := map[c07Key]bool{}
	for _, k := range u {
		if r.Chance(50) && !known[k] {
			known[k] = true
			specs = append(specs, c07KeySpec(k, "f"))
		}
	}
	nl := 1 + r.Intn(6)
	if r.Chance(3) {
		nl = 98 + r.Intn(5)
	}
	var lines []c07BLine
	for i := 0; i < nl; i++ {
		k := u[r.Intn(len(u))]
		if r.Chance(15) {
			k = c07Key{r.Pick(c07Names), c07PickHash(r)}
		}
		sig := c07StubSig(k.name, []byte(text))
		if r.Chance(20) {
			sig = append([]byte(nil), sig...)
			sig[r.Intn(len(sig))] ^= 0x40
		}
		l := c07BLine{k.name, k.hash, sig, ""}
		if len(lines) > 0 && r.Chance(15) {
			l = lines[r.Intn(len(lines))]
		}
		lines = append(lines, l)
	}
	// Input class "relayed blob" (added for r3-C07-b): the SAME base64 field (key hash + signature bytes) under
	// DIFFERENT names, in either order. It was missing because every line here carried c07StubSig(own name, text)
	// (or a private corruption of it), and repeats were whole-line copies: two lines with equal blobs always had
	// equal names. A key's identity is (name, hash), so the renamed copy is another key's signature line and must be
	// looked up, verified and listed on its own.
	if r.Chance(35) {
		for j := 1 + r.Intn(2); j > 0; j-- {
			lines = c07RelayLine(r, lines, func() string {
				if r.Chance(70) {
					return u[r.Intn(len(u))].name
				}
				return r.Pick(c07Names)
			})
		}
	}
	var b strings.Builder
	b.WriteString(text + "\n")
	for _, l := range lines {
		b.WriteString(c07SigLine(l.name, l.hash, l.sig))
	}
	msg := b.String()
	spec := c07Join(specs)
	op := "note.open " + hx(msg) + " L " + spec
	// expectation
	wantErr, wantV, wantU, _ := c07ExpectBlock(lines,
		func(k c07Key) bool { return known[k] },
		func(l c07BLine) bool { return bytes.Equal(l.sig, c07StubSig(l.name, []byte(text))) })
	var log []c07Call
	vs := c07ParseVerifiers(spec, &log)
	nt, err := note.Open([]byte(msg), note.VerifierList(vs...))
	c07CheckSound(g, []byte(msg), vs, nt, err, log, "built", op)
	got := c07ShowOpen(nt, err)
	switch wantErr {
	case "":
		if err != nil {
			g.Fail("well-formed message whose known keys all verify does not open", got, op)
		} else if nt.Text != text || !c07SigEq(nt.Sigs, wantV) || !c07SigEq(nt.UnverifiedSigs, wantU) {
			g.Fail("wrong text or verified/unverified partition", got, op)
		}
	case "invalidsig":
		if err == nil {
			g.Fail("a known key with a bad signature did not make Open fail", got, op)
		} else if !strings.HasPrefix(got, "err:invalidsig ") {
			g.Fail("bad signature of a known key not reported as InvalidSignatureError", got, op)
		}
	case "unverified":
		var ue *note.UnverifiedNoteError
		if !errors.As(err, &ue) {
			g.Fail("message with no known signature: expected UnverifiedNoteError", got, op)
		} else if ue.Note.Text != text || !c07SigEq(ue.Note.UnverifiedSigs, wantU) {
			g.Fail("UnverifiedNoteError carries the wrong note", got, op)
		}
	case "malformed":
		if got != "err:malformed" {
			g.Fail("more than 100 signature lines not rejected as malformed", got, op)
		}
	}
}

// c07NameOK: the documented name syntax (non-empty, well-formed UTF-8, no Unicode space, no plus).
func c07NameOK(s string) bool {
	return impls["note.isvalidname"]([]string{hx(s)}) == "true"
}

// c07OracleStubSound: (S) on arbitrary (also malformed / mutated) messages with stub verifiers of every behaviour.
func c07OracleStubSound(g *Gen) {
	r := g.Rand
	g.Case("stub-sound")
	u := c07Universe(r)
	var msg string
	switch r.Intn(3) {
	case 0:
		msg = c07BuiltMsg(r, c07Text(r), u)
	case 1:
		_, _, _, msg = c07SignedStub(r, u, true)
		if msg != "" && r.Chance(60) {
			msg = c07Mutate(r, msg)
		}
	default:
		msg = c07ManyLines(r, c07GoodText(r), u)
	}
	_, spec := c07KnownSpec(r, u)
	var log []c07Call
	vs := c07ParseVerifiers(spec, &log)
	nt, err := note.Open([]byte(msg), note.VerifierList(vs...))
	c07CheckSound(g, []byte(msg), vs, nt, err, log, "stub", "note.open "+hx(msg)+" L "+spec)
}

func c07OracleAmbiguous(g *Gen, keys []c07Real) {
	r := g.Rand
	g.Case("ambiguous")
	k := keys[r.Intn(len(keys))]
	text := c07GoodText(r)
	msg, err := note.Sign(&note.Note{Text: text}, k.signer)
	if err != nil {
		return
	}
	other := keys[r.Intn(len(keys))]
	list := []note.Verifier{k.verifier, other.verifier, k.verifier}
	vl := note.VerifierList(list...)
	v, err := vl.Verifier(k.name, k.signer.KeyHash())
	var ue *note.UnknownVerifierError
	if err == nil || v != nil || errors.As(err, &ue) {
		g.Fail("VerifierList with a duplicated key does not report it as ambiguous", k.vkey)
	}
	nt, err := note.Open(msg, vl)
	if err == nil || nt != nil {
		g.Fail("Open succeeded with an ambiguous known key", k.vkey+" msg="+hx(string(msg)))
	}
	// a same-name different-hash key is NOT ambiguous
	if other.vkey != k.vkey {
		nt, err = note.Open(msg, note.VerifierList(k.verifier, other.verifier))
		if err != nil || nt.Text != text {
			g.Fail("Open failed with two distinct known keys", k.vkey+" "+other.vkey)
		}
	}
}

// c07OracleRelay: (B) and (R) with real Ed25519 keys on signature blocks in which a blob (key hash + signature
// bytes) appears under more than one name: a cosigner/relay repeating another key's signature under its own name,
// before or after the original, next to plain repeats and a corrupted signature. Added for r3-C07-b: Sign never
// emits such blocks and the byte mutations never copy AND rename a line, so the real-key cases only ever saw
// equal blobs under equal names. Expected outcome from the property text (c07ExpectBlock).
func c07OracleRelay(g *Gen, keys []c07Real) {
	r := g.Rand
	text := c07GoodText(r)
	if !c07ValidText(text) {
		return
	}
	g.Case("relay")
	// signers: 1-3 distinct keys; known: distinct keys, mostly signers (so that the renamed copy meets a known key)
	var S []c07Real
	inS := map[string]bool{}
	for i := 1 + r.Intn(3); i > 0; i-- {
		k := keys[r.Intn(len(keys))]
		if !inS[k.vkey] {
			inS[k.vkey] = true
			S = append(S, k)
		}
	}
	var K []c07Real
	inK := map[string]bool{}
	for _, k := range append(append([]c07Real{}, S...), c07Subset(r, keys, 2)...) {
		if !inK[k.vkey] && r.Chance(65) {
			inK[k.vkey] = true
			K = append(K, k)
		}
	}
	var vs []note.Verifier
	var vkeys []string
	byKey := map[c07Key]note.Verifier{}
	for _, k := range K {
		vs = append(vs, k.verifier)
		vkeys = append(vkeys, k.vkey)
		byKey[c07Key{k.name, k.verifier.KeyHash()}] = k.verifier
	}
	var lines []c07BLine
	for _, s := range S {
		sig, err := s.signer.Sign([]byte(text))
		if err != nil {
			g.Fail("real signer failed", s.vkey)
			return
		}
		lines = append(lines, c07BLine{s.name, s.signer.KeyHash(), sig, ""})
	}
	if r.Chance(30) { // a bad signature (of a known or of an unknown key)
		i := r.Intn(len(lines))
		bad := append([]byte(nil), lines[i].sig...)
		if r.Chance(50) {
			bad = make([]byte, len(bad))
		} else {
			bad[r.Intn(len(bad))] ^= byte(1 << uint(r.Intn(8)))
		}
		lines[i].sig = bad
	}
	for j := 1 + r.Intn(2); j > 0; j-- {
		lines = c07RelayLine(r, lines, func() string {
			switch r.Intn(3) {
			case 0:
				return keys[r.Intn(len(keys))].name
			case 1:
				return S[r.Intn(len(S))].name
			}
			return r.Pick(c07Names)
		})
	}
	if r.Chance(25) { // and a plain repeat
		at := r.Intn(len(lines) + 1)
		l := lines[r.Intn(len(lines))]
		lines = append(append(append([]c07BLine{}, lines[:at]...), l), lines[at:]...)
	}
	var b strings.Builder
	b.WriteString(text + "\n")
	for _, l := range lines {
		b.WriteString(c07SigLine(l.name, l.hash, l.sig))
	}
	msg := b.String()
	info := fmt.Sprintf("msg=%s known=%s", hx(msg), strings.Join(vkeys, " "))
	wantErr, wantV, wantU, badKey := c07ExpectBlock(lines,
		func(k c07Key) bool { return byKey[k] != nil },
		func(l c07BLine) bool { return byKey[c07Key{l.name, l.hash}].Verify([]byte(text), l.sig) })
	var log []c07Call
	wvs := c07Wrap(vs, &log)
	nt, err := note.Open([]byte(msg), note.VerifierList(wvs...))
	c07CheckSound(g, []byte(msg), wvs, nt, err, log, info)
	got := c07ShowOpen(nt, err)
	switch wantErr {
	case "":
		if err != nil {
			g.Fail("well-formed message whose known keys all verify does not open", info+" got="+got)
		} else if nt.Text != text || !c07SigEq(nt.Sigs, wantV) || !c07SigEq(nt.UnverifiedSigs, wantU) {
			g.Fail("wrong text or verified/unverified partition", info+" got="+got)
		}
	case "invalidsig":
		var ie *note.InvalidSignatureError
		if err == nil {
			g.Fail("a known key with a bad signature did not make Open fail", info+" got="+got)
		} else if !errors.As(err, &ie) || ie.Name != badKey.name || ie.Hash != badKey.hash {
			g.Fail("bad signature of a known key not reported as InvalidSignatureError for that key", info+" got="+got)
		}
	case "unverified":
		var ue *note.UnverifiedNoteError
		if !errors.As(err, &ue) {
			g.Fail("message with no known signature: expected UnverifiedNoteError", info+" got="+got)
		} else if ue.Note.Text != text || !c07SigEq(ue.Note.UnverifiedSigs, wantU) || len(ue.Note.Sigs) != 0 {
			g.Fail("UnverifiedNoteError carries the wrong note", info+" got="+got)
		}
	}
}

// c07RSKey: a key of the re-sign histories, either a stub key (replayable through the op lines) or a real Ed25519 key.
type c07RSKey struct {
	k     c07Key
	sign  func(text string) []byte
	v     note.Verifier
	s     note.Signer
	vspec string // stub verifier spec / real verifier key
	sspec string // stub signer spec ("" for a real key)
	all   bool   // stub key whose verifier accepts every signature (spec a), signer constant (spec k)
}

// c07OracleReSign: (P) on multi-step histories Open -> Sign -> Open.
//
// Input class "several DISTINCT signature lines of one (name, key hash)" fed back into Sign (added for r4-C07-b).
// It was missing because every Note the oracle passed to Sign was either fresh or came from Open of a message
// that Sign itself had produced: such a message has one signature per signer, and repeated signers give
// byte-identical lines (the signers are deterministic), which Open drops. The hand-built blocks (built / relay)
// do carry distinct lines of one key but were only opened, never re-signed. Here a block is built by hand with
// 1-3 distinct signature lines per key (the genuine signature and corrupted variants, in either order, interleaved
// over keys, plus identical repeats), opened with a random known set (the multi-line keys known or unknown; when no
// key is known the Note carried by UnverifiedNoteError is used), re-signed with zero, old or new signers, and
// opened again with the same or another known set. Expected: the re-signed message carries every existing signature
// whose key no signer uses, then the signers' lines; Open of it is what the property text says for that block
// (c07ExpectBlock).
func c07OracleReSign(g *Gen, keys []c07Real) { c07ReSign(g, g.Rand, keys, false) }

// c07ReSign: the Open -> Sign -> Open history on the stream r. spell adds the input class "valid but non-canonical
// base64 spelling of signature lines" (util_c07spell.go); with spell == false the draws from r are exactly those of
// the case as it was before that class existed.
func c07ReSign(g *Gen, r *Rand, keys []c07Real, spell bool) {
	text := c07GoodText(r)
	if !c07ValidText(text) {
		return
	}
	if spell {
		g.Case("resign-spell")
	} else {
		g.Case("resign")
	}
	real := r.Chance(50)
	var u []c07RSKey
	used := map[c07Key]bool{}
	for want, try := 2+r.Intn(3), 0; len(u) < want && try < 40; try++ {
		if real {
			k := keys[r.Intn(len(keys))]
			ck := c07Key{k.name, k.verifier.KeyHash()}
			if used[ck] {
				continue
			}
			used[ck] = true
			signer := k.signer
			u = append(u, c07RSKey{k: ck, v: k.verifier, s: k.signer, vspec: k.vkey,
				sign: func(t string) []byte { b, _ := signer.Sign([]byte(t)); return b }})
		} else {
			ck := c07Key{r.Pick(c07Names), c07PickHash(r)}
			if len(u) > 0 && r.Chance(30) {
				ck.name = u[r.Intn(len(u))].k.name // same name, another hash: another key
			}
			if used[ck] || !c07NameOK(ck.name) {
				continue
			}
			used[ck] = true
			name := ck.name
			if spell && r.Chance(50) {
				// an accept-all verifier with a constant 3-byte signer: hash ‖ sig is 7 bytes, "==" padding, 16 spellings
				u = append(u, c07RSKey{k: ck, vspec: c07KeySpec(ck, "a"), sspec: c07KeySpec(ck, "k"), all: true,
					s:    &c07Signer{ck.name, ck.hash, 'k'},
					sign: func(t string) []byte { return []byte{1, 2, 3} }})
				continue
			}
			u = append(u, c07RSKey{k: ck, vspec: c07KeySpec(ck, "f"), sspec: c07KeySpec(ck, "f"),
				s:    &c07Signer{ck.name, ck.hash, 'f'},
				sign: func(t string) []byte { return c07StubSig(name, []byte(t)) }})
		}
	}
	if len(u) < 2 {
		return
	}
	byKey := map[c07Key]*c07RSKey{}
	for i := range u {
		byKey[u[i].k] = &u[i]
	}
	good := func(l c07BLine) bool {
		k := byKey[c07Key{l.name, l.hash}]
		if k != nil && k.v != nil { // real key: what its verifier says
			return k.v.Verify([]byte(text), l.sig)
		}
		if k != nil && k.all { // stub key, behaviour a
			return true
		}
		return k != nil && bytes.Equal(l.sig, k.sign(text)) // stub key, behaviour f
	}
	// a known set over the universe: logging verifiers, the spec for replay
	mkKnown := func() (map[c07Key]bool, []note.Verifier, string, *[]c07Call) {
		known := map[c07Key]bool{}
		var specs []string
		var plain []note.Verifier
		for _, k := range u {
			if r.Chance(50) {
				known[k.k] = true
				specs = append(specs, k.vspec)
				plain = append(plain, k.v)
			}
		}
		log := new([]c07Call)
		if real {
			return known, c07Wrap(plain, log), strings.Join(specs, " "), log
		}
		return known, c07ParseVerifiers(c07Join(specs), log), c07Join(specs), log
	}
	// the block: the first nk keys of the universe have lines, 1-3 distinct ones each
	nk := 1 + r.Intn(len(u))
	queues := make([][]c07BLine, nk)
	multi := false
	for i := 0; i < nk; i++ {
		g0 := u[i].sign(text)
		nl := 1 + r.Intn(3)
		var q []c07BLine
		q = append(q, c07BLine{u[i].k.name, u[i].k.hash, g0, ""})
		for j := 1; j < nl; j++ {
			bad := append([]byte(nil), g0...)
			bad[(j*2+r.Intn(2))%len(bad)] ^= byte(1 << uint(r.Intn(8))) // distinct bytes for distinct j (len >= 5)
			if spell && !real {
				// stub signatures are 5 bytes (hash ‖ sig = 9 bytes: no padding, one spelling only): other lengths
				bad = append(bad, r.Bytes(r.Intn(3), "\x00\x01ab\xff")...)
			}
			q = append(q, c07BLine{u[i].k.name, u[i].k.hash, bad, ""})
		}
		if nl > 1 {
			multi = true
			if r.Chance(25) { // the genuine signature is not the first one
				j := 1 + r.Intn(nl-1)
				q[0], q[j] = q[j], q[0]
			}
		}
		queues[i] = q
	}
	if multi {
		g.Case("resign-multi")
	}
	var lines []c07BLine
	for left := nk; left > 0; {
		i := r.Intn(nk)
		if len(queues[i]) == 0 {
			continue
		}
		lines = append(lines, queues[i][0])
		if queues[i] = queues[i][1:]; len(queues[i]) == 0 {
			left--
		}
	}
	if r.Chance(20) { // an identical repeat
		at := r.Intn(len(lines) + 1)
		l := lines[r.Intn(len(lines))]
		lines = append(append(append([]c07BLine{}, lines[:at]...), l), lines[at:]...)
	}
	if spell {
		// each line on its own (so also: one of two identical lines only, which makes them two different lines)
		some := false
		for i := range lines {
			if r.Chance(60) {
				if s := c07Respell(r, c07B64(lines[i])); s != c07B64(lines[i]) {
					lines[i].b64, some = s, true
				}
			}
		}
		if some {
			g.Case("resign-spell-noncanonical")
		}
	}
	build := func(ls []c07BLine) string {
		var b strings.Builder
		b.WriteString(text + "\n")
		for _, l := range ls {
			b.WriteString("— " + l.name + " " + c07B64(l) + "\n")
		}
		return b.String()
	}
	msg1 := build(lines)
	known1, vs1, spec1, log1 := mkKnown()
	var ops []string
	info := "real keys: msg=" + hx(msg1) + " known=" + spec1
	if !real {
		ops = append(ops, "note.open "+hx(msg1)+" L "+spec1)
		info = "stub keys"
	}
	// first Open
	wantErr, wantV, wantU, _ := c07ExpectBlock(lines, func(k c07Key) bool { return known1[k] }, good)
	nt, err := note.Open([]byte(msg1), note.VerifierList(vs1...))
	c07CheckSound(g, []byte(msg1), vs1, nt, err, *log1, info, ops...)
	var n1 *note.Note
	switch wantErr {
	case "":
		if err != nil {
			g.Fail("well-formed message whose known keys all verify does not open", info+" got="+c07ShowOpen(nt, err), ops...)
			return
		}
		n1 = nt
	case "unverified":
		var ue *note.UnverifiedNoteError
		if !errors.As(err, &ue) {
			g.Fail("message with no known signature: expected UnverifiedNoteError", info+" got="+c07ShowOpen(nt, err), ops...)
			return
		}
		n1 = ue.Note
	default: // a known key's first line is bad: Open must fail, nothing to re-sign
		if err == nil {
			g.Fail("a known key with a bad signature did not make Open fail", info, ops...)
		}
		return
	}
	if n1.Text != text || !c07SigEq(n1.Sigs, wantV) || !c07SigEq(n1.UnverifiedSigs, wantU) {
		g.Fail("wrong text or verified/unverified partition", info+" got="+c07ShowOpen(nt, err), ops...)
		return
	}
	// Sign with zero, old (keys with lines) or new (keys without lines) signers
	var signers []note.Signer
	var sspecs []string
	signs := map[c07Key]bool{}
	if r.Chance(65) {
		for i := 1 + r.Intn(2); i > 0; i-- {
			k := u[r.Intn(len(u))]
			signers = append(signers, k.s)
			sspecs = append(sspecs, k.sspec)
			signs[k.k] = true
		}
	}
	if !real {
		ops = append(ops, "note.sign "+hx(text)+" "+c07ShowSigs(n1.Sigs)+" "+c07ShowSigs(n1.UnverifiedSigs)+" "+c07Join(sspecs))
	} else {
		info += fmt.Sprintf(" signers=%d", len(signers))
		for _, s := range signers {
			info += " " + hx(s.Name())
		}
	}
	msg2, err := note.Sign(n1, signers...)
	if err != nil {
		g.Fail("re-signing an opened note failed", info, ops...)
		return
	}
	if !bytes.HasPrefix(msg2, []byte(text+"\n")) {
		g.Fail("re-signed message does not start with the note text and a blank line", info, ops...)
		return
	}
	var lines2 []c07BLine
	for _, s := range append(append([]note.Signature{}, n1.Sigs...), n1.UnverifiedSigs...) {
		if signs[c07Key{s.Name, s.Hash}] {
			continue
		}
		raw, _ := base64.StdEncoding.DecodeString(s.Base64)                  // checked by the partition comparison above
		lines2 = append(lines2, c07BLine{s.Name, s.Hash, raw[4:], s.Base64}) // re-emitted as Open reported it
		if !bytes.Contains(msg2[len(text):], []byte("\n— "+s.Name+" "+s.Base64+"\n")) {
			g.Fail("Sign dropped an existing signature whose key no signer uses", info+" resigned="+hx(string(msg2)), ops...)
		}
	}
	for _, s := range signers {
		k := byKey[c07Key{s.Name(), s.KeyHash()}]
		lines2 = append(lines2, c07BLine{k.k.name, k.k.hash, k.sign(text), ""})
	}
	// second Open: the same known set, or another one
	known2, vs2, spec2, log2 := known1, vs1, spec1, log1
	if r.Chance(50) {
		known2, vs2, spec2, log2 = mkKnown()
	}
	*log2 = nil
	if !real {
		ops = append(ops, "note.open "+hx(string(msg2))+" L "+spec2)
	} else {
		info += " resigned=" + hx(string(msg2)) + " known2=" + spec2
	}
	wantErr, wantV, wantU, badKey := c07ExpectBlock(lines2, func(k c07Key) bool { return known2[k] }, good)
	nt2, err := note.Open(msg2, note.VerifierList(vs2...))
	c07CheckSound(g, msg2, vs2, nt2, err, *log2, info, ops...)
	got := c07ShowOpen(nt2, err)
	switch wantErr {
	case "":
		if len(lines2) == 0 {
			break // not reachable: no lines means no verified signature
		}
		if err != nil {
			g.Fail("Open -> Sign -> Open: the re-signed note does not open", info+" got="+got, ops...)
		} else if nt2.Text != text || !c07SigEq(nt2.Sigs, wantV) || !c07SigEq(nt2.UnverifiedSigs, wantU) {
			g.Fail("Open -> Sign -> Open: wrong text or verified/unverified partition of the re-signed note", info+" got="+got, ops...)
		}
	case "invalidsig":
		var ie *note.InvalidSignatureError
		if !errors.As(err, &ie) || ie.Name != badKey.name || ie.Hash != badKey.hash {
			g.Fail("Open -> Sign -> Open: bad signature of a newly known key not reported as InvalidSignatureError for that key", info+" got="+got, ops...)
		}
	case "unverified":
		var ue *note.UnverifiedNoteError
		if len(lines2) == 0 {
			if err == nil {
				g.Fail("message without signatures opened", info, ops...)
			}
		} else if !errors.As(err, &ue) {
			g.Fail("Open -> Sign -> Open: expected UnverifiedNoteError", info+" got="+got, ops...)
		} else if ue.Note.Text != text || !c07SigEq(ue.Note.UnverifiedSigs, wantU) || len(ue.Note.Sigs) != 0 {
			g.Fail("Open -> Sign -> Open: UnverifiedNoteError carries the wrong unverified signatures", info+" got="+got, ops...)
		}
	}
}
