package main

import (
	"bufio"
	"crypto/sha256"
	"encoding/hex"
	"fmt"
	"os"
	"path/filepath"
	"strconv"
	"strings"
)

// Rand is splitmix64; every random choice of a run derives from one state.
type Rand struct{ s uint64 }

func (r *Rand) U64() uint64 {
	r.s += 0x9e3779b97f4a7c15
	z := r.s
	z = (z ^ (z >> 30)) * 0xbf58476d1ce4e5b9
	z = (z ^ (z >> 27)) * 0x94d049bb133111eb
	return z ^ (z >> 31)
}
func (r *Rand) Intn(n int) int {
	if n <= 0 {
		return 0
	}
	return int(r.U64() % uint64(n))
}
func (r *Rand) Bool() bool       { return r.U64()&1 == 1 }
func (r *Rand) Chance(p int) bool { return r.Intn(100) < p } // p percent
func (r *Rand) Pick(xs []string) string {
	return xs[r.Intn(len(xs))]
}
func (r *Rand) Bytes(n int, alphabet string) string {
	b := make([]byte, n)
	for i := range b {
		b[i] = alphabet[r.Intn(len(alphabet))]
	}
	return string(b)
}

// Gen collects emitted ops, implementation outputs and statistics.
type Gen struct {
	*Rand
	st     stats
	opsW   *bufio.Writer
	implW  *bufio.Writer
	opsF   *os.File
	implF  *os.File
	seen   map[[16]byte]bool
	nsampl int
}

func newGen(seed uint64, dir string) *Gen {
	// scramble the seed so that consecutive seeds give unrelated streams (the state increment is the
	// golden-ratio constant, so a linear seed mapping would merely shift the stream by one draw)
	z := (seed + 0x1234567) * 0xD6E8FEB86659FD93
	z = (z ^ (z >> 32)) * 0xD6E8FEB86659FD93
	z ^= z >> 29
	g := &Gen{Rand: &Rand{s: z}}
	g.st.Seed = seed
	g.st.PerOp = map[string]int{}
	g.st.Tags = map[string]int{}
	g.st.OutKinds = map[string]int{}
	g.st.SizeHist = map[string]int{}
	g.st.OracleTags = map[string]int{}
	g.st.Failures = []failure{}
	g.st.Samples = []string{}
	g.seen = map[[16]byte]bool{}
	var err error
	g.opsF, err = os.Create(filepath.Join(dir, "ops.txt"))
	if err != nil {
		panic(err)
	}
	g.implF, err = os.Create(filepath.Join(dir, "impl.txt"))
	if err != nil {
		panic(err)
	}
	g.opsW = bufio.NewWriterSize(g.opsF, 1<<20)
	g.implW = bufio.NewWriterSize(g.implF, 1<<20)
	return g
}

func (g *Gen) close() {
	g.opsW.Flush()
	g.implW.Flush()
	g.opsF.Close()
	g.implF.Close()
}

func sizeBucket(n int) string {
	switch {
	case n < 16:
		return "<16"
	case n < 64:
		return "<64"
	case n < 256:
		return "<256"
	case n < 1024:
		return "<1k"
	case n < 16384:
		return "<16k"
	}
	return ">=16k"
}

func outKind(s string) string {
	switch {
	case strings.HasPrefix(s, "err"):
		if i := strings.IndexByte(s, ' '); i > 0 {
			return s[:i]
		}
		return s
	case s == "true" || s == "false" || s == "panic" || s == "hang" || s == "bad-op":
		return s
	case s == "-1" || s == "0" || s == "1":
		return s
	}
	return "value"
}

// Emit records one op line, evaluates it on the implementation and writes both files.
// nontrivial says whether the case counts as non-trivial under the property's rule.
func (g *Gen) Emit(line string, nontrivial bool, tags ...string) string {
	out := runImpl(line)
	fmt.Fprintln(g.opsW, line)
	fmt.Fprintln(g.implW, out)
	g.st.Ops++
	op := line
	if i := strings.IndexByte(line, ' '); i > 0 {
		op = line[:i]
	}
	g.st.PerOp[op]++
	for _, t := range tags {
		g.st.Tags[t]++
	}
	g.st.OutKinds[op+":"+outKind(out)]++
	g.st.SizeHist[sizeBucket(len(line))]++
	if nontrivial {
		h := sha256.Sum256([]byte(line))
		var k [16]byte
		copy(k[:], h[:16])
		if !g.seen[k] {
			g.seen[k] = true
			g.st.Distinct++
		}
	}
	if mirrorOps[op] && (mirrorFilter[op] == nil || mirrorFilter[op](line)) {
		g.Emit("g"+line, false, "generated-code")
	}
	if d := derivedOps[op]; d != nil {
		for _, l := range d(line) {
			g.Emit(l, false, "derived")
		}
	}
	if g.nsampl < 12 && (g.st.Ops%97 == 1 || g.st.Ops < 4) && len(line) < 400 {
		g.st.Samples = append(g.st.Samples, line+" => "+out)
		g.nsampl++
	}
	return out
}

// Case counts one oracle case.
func (g *Gen) Case(tag string) {
	g.st.OracleCases++
	g.st.OracleTags[tag]++
}

// Fail reports a property failure found on the implementation alone.
func (g *Gen) Fail(what string, info string, ops ...string) {
	if len(g.st.Failures) < 50 {
		g.st.Failures = append(g.st.Failures, failure{What: what, Ops: ops, Info: info})
	}
}

// ---- encoding helpers

func hx(s string) string {
	if s == "" {
		return "-"
	}
	return hex.EncodeToString([]byte(s))
}

func unhx(s string) string {
	if s == "-" {
		return ""
	}
	b, err := hex.DecodeString(s)
	if err != nil {
		panic("bad hex " + s)
	}
	return string(b)
}

func hxList(l []string) string {
	if len(l) == 0 {
		return "_"
	}
	out := make([]string, len(l))
	for i, s := range l {
		out[i] = hx(s)
	}
	return strings.Join(out, ",")
}

func unhxList(s string) []string {
	if s == "_" {
		return nil
	}
	parts := strings.Split(s, ",")
	out := make([]string, len(parts))
	for i, p := range parts {
		out[i] = unhx(p)
	}
	return out
}

func showBool(b bool) string {
	if b {
		return "true"
	}
	return "false"
}

func itoa(i int) string     { return strconv.Itoa(i) }
func i64toa(i int64) string { return strconv.FormatInt(i, 10) }
func atoi(s string) int {
	n, err := strconv.Atoi(s)
	if err != nil {
		panic("bad int " + s)
	}
	return n
}
func atoi64(s string) int64 {
	n, err := strconv.ParseInt(s, 10, 64)
	if err != nil {
		panic("bad int " + s)
	}
	return n
}

// mirrorOps: ops that are also run (as g<op>) against the Lean code regenerated from source by go2lean, which
// validates the translator on every input the hand model is validated on.
var mirrorOps = map[string]bool{}

// mirrorFilter: optional per-op predicate; ops for which the generated code (immutable lists, `++` at the end) would be
// quadratic in a huge output are not mirrored
var mirrorFilter = map[string]func(line string) bool{}

func mirror(ops ...string) {
	for _, o := range ops {
		mirrorOps[o] = true
	}
}

// derivedOps: further op lines emitted for every line of an op (e.g. the token stream of every input that is parsed)
var derivedOps = map[string]func(line string) []string{}
