package main

// C11 — EscapePath / EscapeVersion / UnescapePath / UnescapeVersion: lossless, case-collision-free.

import (
	"errors"
	"strconv"
	"strings"
	"unicode"

	"golang.org/x/mod/module"
)

func init() {
	impls["module.escapepath"] = func(a []string) string {
		e, err := module.EscapePath(unhx(a[0]))
		if err != nil {
			var ipe *module.InvalidPathError
			if errors.As(err, &ipe) {
				return "err:" + c06ErrKind(ipe.Err.Error())
			}
			return c11Internal(err)
		}
		return hx(e)
	}
	impls["module.escapeversion"] = func(a []string) string {
		e, err := module.EscapeVersion(unhx(a[0]))
		if err != nil {
			var ive *module.InvalidVersionError
			if errors.As(err, &ive) {
				return "err:disallowed"
			}
			return c11Internal(err)
		}
		return hx(e)
	}
	impls["module.unescapepath"] = func(a []string) string {
		p, err := module.UnescapePath(unhx(a[0]))
		if err != nil {
			return c11UnescErr(err.Error(), "invalid escaped module path ", "malformed module path ")
		}
		return hx(p)
	}
	impls["module.unescapeversion"] = func(a []string) string {
		v, err := module.UnescapeVersion(unhx(a[0]))
		if err != nil {
			return c11UnescErr(err.Error(), "invalid escaped version ", "")
		}
		return hx(v)
	}
	register(&Prop{ID: "C11", Gen: c11Gen, Oracle: c11Oracle,
		Rule: "module paths and versions from the C06/C04 generators (mixed case, every ASCII punctuation char, non-ASCII letters, ill-formed UTF-8), escaped forms of valid inputs, and escaped-form grammar with '!' inserted at every position, upper-case letters, '!!', trailing '!', '!' before non-letters; non-trivial = the input is accepted or is one mutation from an accepted one; distinct by op line"})
}

func c11Internal(err error) string {
	if err.Error() == "internal error: inconsistency in EscapePath" {
		return "err:internal"
	}
	return "err:unknown"
}

// c11UnescErr canonicalises the fmt.Errorf texts of UnescapePath / UnescapeVersion:
//
//	<head>%q            -> err:escaped
//	<head>%q: [<inner>%q: ]<msg>  -> err:invalid:<kind of msg>
func c11UnescErr(msg, head, inner string) string {
	if !strings.HasPrefix(msg, head) {
		return "err:unknown"
	}
	rest := msg[len(head):]
	q, err := strconv.QuotedPrefix(rest)
	if err != nil {
		return "err:unknown"
	}
	rest = rest[len(q):]
	if rest == "" {
		return "err:escaped"
	}
	if !strings.HasPrefix(rest, ": ") {
		return "err:unknown"
	}
	rest = rest[2:]
	if inner != "" {
		if !strings.HasPrefix(rest, inner) {
			return "err:unknown"
		}
		rest = rest[len(inner):]
		q, err = strconv.QuotedPrefix(rest)
		if err != nil || !strings.HasPrefix(rest[len(q):], ": ") {
			return "err:unknown"
		}
		rest = rest[len(q)+2:]
	}
	return "err:invalid:" + c06ErrKind(rest)
}

// c11MixedPath returns a module path that is usually valid and has upper-case letters after the first element.
func c11MixedPath(r *Rand) string {
	if r.Chance(25) {
		return c06Path(r)
	}
	n := 1 + r.Intn(4)
	el := []string{r.Pick([]string{"example.com", "github.com", "golang.org", "gopkg.in", "a.b"})}
	for i := 0; i < n; i++ {
		w := c06RandCase(r, r.Bytes(1+r.Intn(6), c06Lower+c06Lower+"0123456789-_.~"))
		el = append(el, w)
	}
	if r.Chance(30) {
		el = append(el, r.Pick([]string{"v2", "v3", "v10"}))
	}
	p := strings.Join(el, "/")
	if el[0] == "gopkg.in" {
		p += r.Pick([]string{".v1", ".v2", ".v3-unstable", ".v0"})
	}
	return p
}

// c11Version returns a version-like string: often valid semver with mixed case, or a file-name-like element.
func c11Version(r *Rand) string {
	switch r.Intn(8) {
	case 0:
		v, _ := genVersion(r)
		return v
	case 1:
		return c06Elem(r)
	case 2:
		return c06Word(r, 1+r.Intn(6))
	case 3:
		return r.Pick([]string{"", ".", "..", "v1.0.0.", ".v1", "nul", "NUL.v1", "v1!0", "!", "v1.0.0-é", "v1.0.0+A", "V1", "master", "HEAD", "Branch-Name", "v1.0.0-RC1", "com1", "a b", "a~1", "v1/x", "v1\\x", "v1:x", "\xff", "v1.0.0-\xff"})
	}
	return c06RandCase(r, genValidVersion(r))
}

// c11EscapedForm: escaped-form grammar with '!' in every position and other near-misses.
func c11EscapedForm(r *Rand, e string) string {
	b := []byte(e)
	switch r.Intn(9) {
	case 0: // insert '!' anywhere
		i := r.Intn(len(b) + 1)
		return string(b[:i]) + "!" + string(b[i:])
	case 1: // upper-case one letter
		if len(b) > 0 {
			i := r.Intn(len(b))
			if 'a' <= b[i] && b[i] <= 'z' {
				b[i] -= 32
			}
		}
		return string(b)
	case 2:
		return e + "!"
	case 3:
		i := r.Intn(len(b) + 1)
		return string(b[:i]) + "!!" + string(b[i:])
	case 4:
		i := r.Intn(len(b) + 1)
		return string(b[:i]) + "!" + r.Pick([]string{"1", "A", "é", "-", ".", "/", "!", "~", "\xff", "{", "`", "@"}) + string(b[i:])
	case 5:
		return mutate(r, e, "!aZ./-é\xff")
	case 6: // delete one byte
		if len(b) > 0 {
			i := r.Intn(len(b))
			return string(b[:i]) + string(b[i+1:])
		}
	}
	return e
}

func c11Gen(g *Gen, n int) {
	r := g.Rand
	// '!' at every position of a fixed escaped path / version
	for _, e := range []string{"github.com/!azure/go-!auto!rest/v2", "v1.0.0-!r!c1"} {
		for i := 0; i <= len(e); i++ {
			x := e[:i] + "!" + e[i:]
			g.Emit("module.unescapepath "+hx(x), true, "bang-sweep")
			g.Emit("module.unescapeversion "+hx(x), true, "bang-sweep")
		}
	}
	for c := 0; c < 256; c++ {
		g.Emit("module.escapeversion "+hx("v1"+string([]byte{byte(c)})+"x"), true, "byte-sweep")
		g.Emit("module.unescapeversion "+hx("v1"+string([]byte{byte(c)})+"x"), true, "byte-sweep")
		g.Emit("module.unescapeversion "+hx("v1!"+string([]byte{byte(c)})+"x"), true, "byte-sweep")
		g.Emit("module.unescapepath "+hx("a.b/x!"+string([]byte{byte(c)})), true, "byte-sweep")
	}
	for i := 0; i < n; i++ {
		switch g.Intn(8) {
		case 0, 1:
			p := c11MixedPath(r)
			g.Emit("module.escapepath "+hx(p), c06Nontrivial(p), "escape")
		case 2:
			v := c11Version(r)
			g.Emit("module.escapeversion "+hx(v), true, "escape")
		case 3, 4:
			p := c11MixedPath(r)
			e, err := module.EscapePath(p)
			if err != nil {
				e = p
			}
			if g.Chance(70) {
				e = c11EscapedForm(r, e)
			}
			g.Emit("module.unescapepath "+hx(e), true, "unescape")
		case 5, 6:
			v := c11Version(r)
			e, err := module.EscapeVersion(v)
			if err != nil {
				e = v
			}
			if g.Chance(70) {
				e = c11EscapedForm(r, e)
			}
			g.Emit("module.unescapeversion "+hx(e), true, "unescape")
		default:
			s := c06Word(r, g.Intn(8))
			if g.Bool() {
				g.Emit("module.unescapepath "+hx(s), false, "random")
			} else {
				g.Emit("module.unescapeversion "+hx(s), false, "random")
			}
		}
	}
}

func c11HasUpper(s string) bool {
	for _, r := range s {
		if unicode.IsUpper(r) {
			return true
		}
	}
	return false
}

func c11IsASCII(s string) bool {
	for i := 0; i < len(s); i++ {
		if s[i] >= 0x80 {
			return false
		}
	}
	return true
}

// c11CaseVariant flips the case of some ASCII letters.
func c11CaseVariant(r *Rand, s string) string {
	b := []byte(s)
	k := 1 + r.Intn(3)
	for j := 0; j < k && len(b) > 0; j++ {
		i := r.Intn(len(b))
		if 'a' <= b[i] && b[i] <= 'z' {
			b[i] -= 32
		} else if 'A' <= b[i] && b[i] <= 'Z' {
			b[i] += 32
		}
	}
	return string(b)
}

func c11Oracle(g *Gen, n int) {
	r := g.Rand
	type escFn func(string) (string, error)
	check := func(kind string, x string, allowed bool, esc, unesc escFn) (string, bool) {
		op := "module.escape" + kind + " " + hx(x)
		e, err := esc(x)
		if allowed != (err == nil) {
			if allowed {
				g.Fail("escaping rejects a valid "+kind, strconv.Quote(x), op)
			} else {
				g.Fail("escaping accepts an invalid "+kind, strconv.Quote(x), op)
			}
			return "", false
		}
		if err != nil {
			return "", false
		}
		if c11HasUpper(e) {
			g.Fail("escaped "+kind+" contains an upper-case letter", strconv.Quote(x)+" -> "+strconv.Quote(e), op)
		}
		back, err := unesc(e)
		if err != nil || back != x {
			g.Fail("unescape(escape(x)) != x for "+kind, strconv.Quote(x)+" -> "+strconv.Quote(e)+" -> "+strconv.Quote(back), op, "module.unescape"+kind+" "+hx(e))
		}
		return e, true
	}
	image := func(kind string, e string, esc, unesc escFn) {
		x, err := unesc(e)
		if err != nil {
			return
		}
		e2, err := esc(x)
		if err != nil || e2 != e {
			g.Fail("unescape succeeds on a string that is not the escape of its result ("+kind+")", strconv.Quote(e)+" -> "+strconv.Quote(x)+" -> "+strconv.Quote(e2), "module.unescape"+kind+" "+hx(e), "module.escape"+kind+" "+hx(x))
		}
	}
	for i := 0; i < n; i++ {
		// paths: valid = CheckPath accepts
		p := c11MixedPath(r)
		q := c11CaseVariant(r, p)
		g.Case("path-pair")
		ep, okp := check("path", p, module.CheckPath(p) == nil, module.EscapePath, module.UnescapePath)
		eq, okq := check("path", q, module.CheckPath(q) == nil, module.EscapePath, module.UnescapePath)
		if okp && okq && p != q && strings.EqualFold(ep, eq) {
			g.Fail("two different valid paths escape to strings equal ignoring case", strconv.Quote(p)+" "+strconv.Quote(q), "module.escapepath "+hx(p), "module.escapepath "+hx(q))
		}
		x := p
		if okp {
			x = ep
		}
		image("path", c11EscapedForm(r, x), module.EscapePath, module.UnescapePath)
		image("path", x, module.EscapePath, module.UnescapePath)

		// versions: allowed = valid file-name element, no '!', ASCII (DESIGN §6 C11, observation O1)
		v := c11Version(r)
		w := c11CaseVariant(r, v)
		g.Case("version-pair")
		allowed := func(v string) bool {
			return c06SpecElem(c06File, v) && !strings.Contains(v, "!") && c11IsASCII(v)
		}
		ev, okv := check("version", v, allowed(v), module.EscapeVersion, module.UnescapeVersion)
		ew, okw := check("version", w, allowed(w), module.EscapeVersion, module.UnescapeVersion)
		if okv && okw && v != w && strings.EqualFold(ev, ew) {
			g.Fail("two different allowed versions escape to strings equal ignoring case", strconv.Quote(v)+" "+strconv.Quote(w), "module.escapeversion "+hx(v), "module.escapeversion "+hx(w))
		}
		y := v
		if okv {
			y = ev
		}
		image("version", c11EscapedForm(r, y), module.EscapeVersion, module.UnescapeVersion)
		image("version", y, module.EscapeVersion, module.UnescapeVersion)
	}
}
