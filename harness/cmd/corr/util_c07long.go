package main

// C07, input class "very long signature lines" (added for r6-C07-a).
//
// The property quantifies over ANY set of signers and ANY message: neither Sign nor Open has a size limit (the
// only size limit near notes is tlog.ParseTree's "len(text) > 1e6", which is about the TEXT of a tree head and
// belongs to another property; the messages built here stay far below 1 MB in the quick tier, the thorough tier
// also crosses 10^6 and 2^20 bytes of line to confirm that Open itself has no limit). Signer and Verifier are
// public interfaces, so a signature can have any length (hash-based schemes: tens of kilobytes), and a key name
// can have any length too. Missing was every signature line longer than about 3 KB: all stub signatures are 5
// bytes, all real ones are Ed25519 (64 bytes), all names are at most 14 bytes, so no line of any generated,
// hand-built or mutated message exceeded ~110 bytes, and code that reads the signature block through a bounded
// line reader (4 KiB / 64 KiB buffers) was indistinguishable from the unbounded loop.
//
// The class: signature blocks that contain a line of L bytes for L around the powers of two 2^12 .. 2^17 (mostly
// 65534 .. 65538), 70000, ~100000 and random lengths in between, where the length comes
//   - from a long SIGNATURE under a short name (every base64 padding variant), or
//   - from a long NAME (ASCII or multi-byte runes) with a short signature;
// the long line's key is unknown, or known (accepting / rejecting / checksum verifier; in the oracle a custom
// Signer+Verifier with signatures of any size); 0-2 short lines BEFORE and 0-2 short lines AFTER it, of known and
// unknown keys, good and bad; the long line repeated; malformed lines after it; Sign with such signers or such
// existing signatures, then Open.
//
// Correspondence ops (note.open / note.sign, stub keys) are emitted by c07GenLong; the oracle case c07OracleLong
// transcribes (S), (B), (R) on these blocks with real Ed25519 keys + big custom keys, and with stub keys
// (replayable op line). Expected outcomes come from the property text alone (c07ExpectBlock).
//
// The ops are few (each is 10^5 bytes of hex): a fixed sweep per run, not a share of the random stream. Both parts
// draw from a PRNG FORKED from the run's state (c07Fork), so the rest of the C07 stream is the same as without them.
// The code regenerated from source (gnote.*) works on immutable lists and is quadratic in the message length
// (a 64 KiB message takes half a minute); messages above c07MirrorMax are therefore not mirrored (Tie.FnNote proves
// the regenerated Open equal to the hand model for all inputs; the mirror run only re-validates the translator).

import (
	"bytes"
	"crypto/sha256"
	"encoding/binary"
	"errors"
	"fmt"
	"strconv"
	"strings"

	"golang.org/x/mod/sumdb/note"
)

const c07MirrorMax = 16000 // op-line bytes (hex): every op of the older classes is well below

func init() {
	small := func(line string) bool { return len(line) < c07MirrorMax }
	mirrorFilter["note.open"] = small
	mirrorFilter["note.sign"] = small
}

// c07Fork returns an independent stream derived from the state of r without drawing from r.
func c07Fork(r *Rand, salt uint64) *Rand {
	f := &Rand{s: (r.s ^ salt) * 0x9e3779b97f4a7c15}
	f.U64()
	return f
}

func c07RandBytes(r *Rand, n int) []byte {
	b := make([]byte, n)
	for i := 0; i < n; i += 8 {
		x := r.U64()
		for j := 0; j < 8 && i+j < n; j++ {
			b[i+j] = byte(x >> uint(8*j))
		}
	}
	return b
}

// c07LongTarget picks a line length (bytes of the line without its newline).
func c07LongTarget(r *Rand) int {
	d := r.Intn(5) - 2
	switch r.Intn(12) {
	case 0, 1, 2, 3, 4, 5:
		return 65536 + d
	case 6:
		return (1 << uint(12+r.Intn(6))) + d // 4096 .. 131072
	case 7:
		return 70000
	case 8:
		return 60000 + r.Intn(80000)
	case 9:
		return 131072 + d
	case 10:
		if thorough {
			return []int{1 << 18, 1 << 19, 1 << 20, 1000000}[r.Intn(4)] + d
		}
	}
	return 100000 + r.Intn(3)
}

// c07LongName returns a valid key name of exactly n bytes (n >= 1).
func c07LongName(r *Rand, n int) string {
	unit := r.Pick([]string{"x", "ab/", "é", "世", "\U0001F600", "—", "log.example/"})
	var b strings.Builder
	for b.Len()+len(unit) <= n {
		b.WriteString(unit)
	}
	for b.Len() < n {
		b.WriteByte('x')
	}
	return b.String()
}

func c07B64Len(sigLen int) int { return (4 + sigLen + 2) / 3 * 4 }

// c07FitSig: a name (base, padded with up to three letters) and a signature length such that the line
// "— name base64(hash ‖ sig)" has exactly L bytes; the '=' padding of the base64 field varies.
func c07FitSig(r *Rand, base string, L int) (name string, sigLen int) {
	room := L - 5 - len(base)
	if room < 12 {
		room = 12
	}
	b64 := room / 4 * 4
	return base + strings.Repeat("x", room-b64), b64/4*3 - r.Intn(3) - 4
}

// c07FitName: a name such that the line with a signature of sigLen bytes has exactly L bytes.
func c07FitName(r *Rand, sigLen, L int) string {
	n := L - 5 - c07B64Len(sigLen)
	if n < 1 {
		n = 1
	}
	return c07LongName(r, n)
}

func c07FlipBit(r *Rand, sig []byte) []byte {
	bad := append([]byte(nil), sig...)
	i := r.Intn(len(bad))
	switch r.Intn(4) {
	case 0:
		i = 0
	case 1:
		i = len(bad) - 1
	}
	bad[i] ^= byte(1 << uint(r.Intn(8)))
	return bad
}

func c07ValidUniverse(r *Rand) []c07Key {
	u := c07Universe(r)
	for i := range u {
		for !c07NameOK(u[i].name) {
			u[i].name = r.Pick(c07Names)
		}
	}
	return u
}

// ---- correspondence ops

// c07GenLong emits the sweep of note.open / note.sign ops with very long signature lines.
func c07GenLong(g *Gen, r *Rand) {
	targets := []int{65534, 65535, 65536, 65537, 70000, 131072, 4096, 32768}
	rounds := 1
	if thorough {
		rounds = 4
		for k := uint(12); k <= 17; k++ {
			for d := -1; d <= 1; d++ {
				targets = append(targets, 1<<k+d)
			}
		}
		targets = append(targets, 65538, 65533, 100000)
		// once: lines around 2^18, 10^6 and 2^20 bytes (Open has no size limit)
		for i, L := range []int{1 << 18, 1<<20 - 1, 1 << 20, 999999, 1000000, 1000001} {
			c07GenLongOne(g, r, L, i%2 == 1, true)
		}
	}
	for round := 0; round < rounds; round++ {
		for _, L := range targets {
			for _, viaName := range []bool{false, true} {
				c07GenLongOne(g, r, L, viaName, true)
				c07GenLongOne(g, r, L, viaName, false)
			}
		}
		for i := 0; i < 6; i++ {
			c07GenLongOne(g, r, c07LongTarget(r), r.Chance(35), r.Chance(50))
		}
	}
}

func c07GenLongOne(g *Gen, r *Rand, L int, viaName, needAfter bool) {
	text := c07GoodText(r)
	if r.Chance(10) {
		text = c07Text(r)
	}
	u := c07ValidUniverse(r)
	short := func() string {
		k := u[r.Intn(len(u))]
		if r.Chance(15) {
			k = c07Key{r.Pick(c07Names), c07PickHash(r)}
		}
		sig := c07StubSig(k.name, []byte(text))
		if r.Chance(25) {
			sig = c07FlipBit(r, sig)
		}
		return c07SigLine(k.name, k.hash, sig)
	}
	// the long line
	var lk c07Key
	var lsig []byte
	lbeh := ""
	if viaName {
		lk = c07Key{c07FitName(r, 5, L), c07PickHash(r)}
		lsig = c07StubSig(lk.name, []byte(text))
		if r.Chance(20) {
			lsig = c07FlipBit(r, lsig)
		}
		if r.Chance(40) {
			lbeh = []string{"f", "f", "f", "a", "r"}[r.Intn(5)]
		}
	} else {
		k := u[r.Intn(len(u))]
		name, n := c07FitSig(r, k.name, L)
		lk = c07Key{name, k.hash}
		lsig = c07RandBytes(r, n)
		if r.Chance(35) {
			lbeh = []string{"a", "a", "a", "r", "f"}[r.Intn(5)]
		}
	}
	long := c07SigLine(lk.name, lk.hash, lsig)
	var lines []string
	for i := r.Intn(3); i > 0; i-- {
		lines = append(lines, short())
	}
	lines = append(lines, long)
	at := len(lines) - 1
	switch r.Intn(10) {
	case 0: // the long line repeated, next to itself or behind the short ones (added below)
		lines = append(lines, long)
	case 1: // a second long line of the same key with other signature bytes
		lines = append(lines, c07SigLine(lk.name, lk.hash, c07FlipBit(r, lsig)))
	}
	na := r.Intn(3)
	if needAfter && na == 0 {
		na = 1
	}
	for i := 0; i < na; i++ {
		l := short()
		if r.Chance(8) { // a malformed line behind the long one
			switch r.Intn(4) {
			case 0:
				l = strings.TrimPrefix(l, "— ")
			case 1:
				l = strings.TrimSuffix(l, "\n") + " \n"
			case 2:
				l = "— " + r.Pick(c07Names) + "\n"
			default:
				l = strings.Replace(l, "=", "", 1)
			}
		}
		lines = append(lines, l)
	}
	if r.Chance(10) {
		lines = append(lines, long)
	}
	msg := text + "\n" + strings.Join(lines, "")
	mode, spec := c07KnownSpec(r, u)
	if lbeh != "" {
		ls := c07KeySpec(lk, lbeh)
		if spec == "_" {
			spec = ls
		} else if r.Chance(50) {
			spec = ls + "," + spec
		} else {
			spec = spec + "," + ls
		}
	}
	via := "open-longline-sig"
	if viaName {
		via = "open-longline-name"
	}
	g.Emit("note.open "+hx(msg)+" "+mode+" "+spec, true, "open", "open-longline", via)
	if r.Chance(15) { // one byte-level mutation inside the long line
		off := len(text) + 1
		for _, l := range lines[:at] {
			off += len(l)
		}
		g.Emit("note.open "+hx(c07MutateAt(msg, off+r.Intn(len(long)), r.Intn(c07NMut), r))+" "+mode+" "+spec, true, "open", "open-longline", "open-longline-mutated")
	}
	if r.Chance(25) {
		// Sign of a note that already carries the long signature (verified or unverified), then Open of the result
		e := hx(lk.name) + "." + strconv.FormatUint(uint64(lk.hash), 10) + "." + hx(strings.TrimSuffix(long[len("— "+lk.name+" "):], "\n"))
		ex := [2]string{"_", "_"}
		ex[r.Intn(2)] = e
		var sl []string
		for i := r.Intn(3); i > 0; i-- {
			sl = append(sl, c07KeySpec(u[r.Intn(len(u))], "f"))
		}
		if viaName && r.Chance(30) {
			sl = append(sl, c07KeySpec(lk, "f")) // the long-named key signs again: its existing signature is elided
		}
		op := "note.sign " + hx(text) + " " + ex[0] + " " + ex[1] + " " + c07Join(sl)
		out := g.Emit(op, true, "sign", "sign-longline")
		if !strings.HasPrefix(out, "err") && out != "panic" && out != "hang" {
			g.Emit("note.open "+out+" "+mode+" "+spec, true, "open", "open-longline", "open-longline-signed")
		}
	}
}

// ---- oracle

// c07BigKey is a Signer and Verifier with signatures of any size: a deterministic pad of (name, hash, message).
type c07BigKey struct {
	name string
	hash uint32
	size int
}

func (k *c07BigKey) Name() string    { return k.name }
func (k *c07BigKey) KeyHash() uint32 { return k.hash }
func (k *c07BigKey) Sign(msg []byte) ([]byte, error) {
	seed := sha256.Sum256([]byte(k.name + "\x00" + strconv.FormatUint(uint64(k.hash), 10) + "\x00" + string(msg)))
	out := make([]byte, 0, k.size+sha256.Size)
	var blk [sha256.Size + 8]byte
	copy(blk[:], seed[:])
	for i := uint64(0); len(out) < k.size; i++ {
		binary.BigEndian.PutUint64(blk[sha256.Size:], i)
		h := sha256.Sum256(blk[:])
		out = append(out, h[:]...)
	}
	return out[:k.size], nil
}
func (k *c07BigKey) Verify(msg, sig []byte) bool {
	want, _ := k.Sign(msg)
	return bytes.Equal(sig, want)
}

// c07LKey: a key of the long-line cases.
type c07LKey struct {
	k    c07Key
	v    note.Verifier
	s    note.Signer // nil: the key has no Signer (accept-all / reject-all stub): hand-built blocks only
	sign func(text string) []byte
	desc string // what to print: verifier key, stub spec, or big:<hexname>.<hash>.<size>
	spec string // stub verifier spec ("" for real and big keys)
}

var c07LongFails int

// c07AbbrevHex: hex of a name, abbreviated for display when the name is long (the message carries it in full).
func c07AbbrevHex(name string) string {
	if len(name) <= 40 {
		return hx(name)
	}
	return hx(name[:16]) + fmt.Sprintf("...(%d bytes)", len(name))
}

func c07OracleLong(g *Gen, r *Rand, keys []c07Real) {
	text := c07GoodText(r)
	if !c07ValidText(text) {
		return
	}
	g.Case("longline")
	real := r.Chance(60)
	L := c07LongTarget(r)
	viaName := r.Chance(35)

	// the short keys
	var u []c07LKey
	used := map[c07Key]bool{}
	for want, try := 2+r.Intn(2), 0; len(u) < want && try < 40; try++ {
		if real {
			k := keys[r.Intn(len(keys))]
			ck := c07Key{k.name, k.verifier.KeyHash()}
			if used[ck] {
				continue
			}
			used[ck] = true
			signer := k.signer
			u = append(u, c07LKey{k: ck, v: k.verifier, s: k.signer, desc: k.vkey,
				sign: func(t string) []byte { b, _ := signer.Sign([]byte(t)); return b }})
			continue
		}
		ck := c07Key{r.Pick(c07Names), c07PickHash(r)}
		if len(u) > 0 && r.Chance(25) {
			ck.name = u[r.Intn(len(u))].k.name
		}
		if used[ck] || !c07NameOK(ck.name) {
			continue
		}
		used[ck] = true
		name, spec := ck.name, c07KeySpec(ck, "f")
		u = append(u, c07LKey{k: ck, v: c07ParseVerifiers(spec, nil)[0], s: &c07Signer{ck.name, ck.hash, 'f'}, desc: spec, spec: spec,
			sign: func(t string) []byte { return c07StubSig(name, []byte(t)) }})
	}
	if len(u) < 2 {
		return
	}
	// the key of the long line
	var lk c07LKey
	base := u[r.Intn(len(u))].k.name // the same server name as a short key (another key of it), or another name
	if r.Chance(50) {
		base = r.Pick([]string{"pq.example/witness", "w", "世界", "a=b"})
	}
	switch {
	case real:
		var bk *c07BigKey
		if viaName {
			n := 1 + r.Intn(80)
			bk = &c07BigKey{c07FitName(r, n, L), c07PickHash(r), n}
			g.Case("longline-name")
		} else {
			name, n := c07FitSig(r, base, L)
			bk = &c07BigKey{name, c07PickHash(r), n}
			g.Case("longline-sig")
		}
		lk = c07LKey{k: c07Key{bk.name, bk.hash}, v: bk, s: bk,
			desc: "big:" + c07AbbrevHex(bk.name) + "." + strconv.FormatUint(uint64(bk.hash), 10) + "." + strconv.Itoa(bk.size),
			sign: func(t string) []byte { b, _ := bk.Sign([]byte(t)); return b }}
	case viaName:
		ck := c07Key{c07FitName(r, 5, L), c07PickHash(r)}
		name, spec := ck.name, c07KeySpec(ck, "f")
		lk = c07LKey{k: ck, v: c07ParseVerifiers(spec, nil)[0], s: &c07Signer{ck.name, ck.hash, 'f'}, spec: spec,
			desc: c07AbbrevHex(name) + "." + strconv.FormatUint(uint64(ck.hash), 10) + ".f",
			sign: func(t string) []byte { return c07StubSig(name, []byte(t)) }}
		g.Case("longline-name")
	default:
		name, n := c07FitSig(r, base, L)
		ck := c07Key{name, c07PickHash(r)}
		spec := c07KeySpec(ck, r.Pick([]string{"a", "a", "r"}))
		fixed := c07RandBytes(r, n)
		lk = c07LKey{k: ck, v: c07ParseVerifiers(spec, nil)[0], desc: spec, spec: spec,
			sign: func(t string) []byte { return fixed }}
		g.Case("longline-sig")
	}
	if used[lk.k] {
		return
	}
	byKey := map[c07Key]*c07LKey{lk.k: &lk}
	for i := range u {
		byKey[u[i].k] = &u[i]
	}

	// the block
	type ent struct {
		key  *c07LKey
		line c07BLine
	}
	var ents []ent
	allGood := true
	add := func(k *c07LKey, badPct int) {
		sig := k.sign(text)
		if r.Chance(badPct) {
			sig = c07FlipBit(r, sig)
			allGood = false
		}
		ents = append(ents, ent{k, c07BLine{k.k.name, k.k.hash, sig, ""}})
	}
	for i := r.Intn(3); i > 0; i-- {
		add(&u[r.Intn(len(u))], 20)
	}
	add(&lk, 15)
	longAt := len(ents) - 1
	if r.Chance(10) { // the long line repeated / a second, different long line of the same key
		if r.Chance(50) {
			ents = append(ents, ents[longAt])
		} else {
			add(&lk, 100)
		}
	}
	na := r.Intn(3)
	if na == 0 && r.Chance(60) {
		na = 1
	}
	for i := 0; i < na; i++ {
		add(&u[r.Intn(len(u))], 25)
	}
	if r.Chance(8) {
		ents = append(ents, ents[longAt])
	}
	var lines []c07BLine
	canSign := allGood
	for _, e := range ents {
		lines = append(lines, e.line)
		if e.key.s == nil {
			canSign = false
		}
	}

	// the known set
	known := map[c07Key]bool{}
	var vs []note.Verifier
	var descs, specs []string
	for _, k := range append([]*c07LKey{&lk}, func() []*c07LKey {
		var p []*c07LKey
		for i := range u {
			p = append(p, &u[i])
		}
		return p
	}()...) {
		pct := 60
		if k == &lk {
			pct = 45
		}
		if r.Chance(pct) {
			known[k.k] = true
			vs = append(vs, k.v)
			descs = append(descs, k.desc)
			specs = append(specs, k.spec)
		}
	}
	if r.Chance(50) { // the long key's verifier last instead of first
		for i, j := 0, len(vs)-1; i < j; i, j = i+1, j-1 {
			vs[i], vs[j] = vs[j], vs[i]
			descs[i], descs[j] = descs[j], descs[i]
			specs[i], specs[j] = specs[j], specs[i]
		}
	}

	// the message: through Sign when every line is a genuine signature of a key that has a Signer, else by hand
	var msg []byte
	how := "hand-built block"
	if canSign && r.Chance(60) {
		var signers []note.Signer
		for _, e := range ents {
			signers = append(signers, e.key.s)
		}
		m, err := note.Sign(&note.Note{Text: text}, signers...)
		if err != nil {
			if c07LongFails < 6 {
				c07LongFails++
				g.Fail("Sign failed on valid note text", fmt.Sprintf("very long signature line (%d bytes): text=%s signers=%d err=%v", L, hx(text), len(signers), err))
			}
			return
		}
		msg = m
		how = "Sign output"
		g.Case("longline-signed")
	} else {
		var b strings.Builder
		b.WriteString(text + "\n")
		for _, l := range lines {
			b.WriteString(c07SigLine(l.name, l.hash, l.sig))
		}
		msg = []byte(b.String())
	}
	var ops []string
	if !real {
		ops = []string{"note.open " + hx(string(msg)) + " L " + c07Join(specs)}
	}
	got := ""
	info := func() string {
		via := "long signature"
		if viaName {
			via = "long name"
		}
		var lens []string
		for _, l := range lines {
			lens = append(lens, strconv.Itoa(len(c07SigLine(l.name, l.hash, l.sig))-1))
		}
		s := fmt.Sprintf("very long signature line (%d bytes, %s, %s; line lengths %s; long line is number %d): known=%s got=%.200s",
			L, via, how, strings.Join(lens, ","), longAt+1, strings.Join(descs, " "), got)
		if real {
			s += " msg=" + hx(string(msg))
		}
		return s
	}
	fail := func(what string) {
		if c07LongFails < 6 {
			c07LongFails++
			g.Fail(what, info(), ops...)
		}
	}

	wantErr, wantV, wantU, badKey := c07ExpectBlock(lines,
		func(k c07Key) bool { return known[k] },
		func(l c07BLine) bool { return byKey[c07Key{l.name, l.hash}].v.Verify([]byte(text), l.sig) })
	var log []c07Call
	wvs := c07Wrap(vs, &log)
	nt, err := note.Open(msg, note.VerifierList(wvs...))
	got = c07ShowOpen(nt, err)
	n0 := len(g.st.Failures)
	c07CheckSound(g, msg, wvs, nt, err, log, "", ops...)
	if len(g.st.Failures) > n0 { // (S) failed: attach the input (built lazily: it is large)
		if c07LongFails >= 6 {
			g.st.Failures = g.st.Failures[:n0]
		} else {
			c07LongFails++
			g.st.Failures = g.st.Failures[:n0+1]
			g.st.Failures[n0].Info = info()
		}
	}
	switch wantErr {
	case "":
		if err != nil {
			fail("well-formed message whose known keys all verify does not open")
		} else if nt.Text != text || !c07SigEq(nt.Sigs, wantV) || !c07SigEq(nt.UnverifiedSigs, wantU) {
			fail("wrong text or verified/unverified partition")
		}
	case "invalidsig":
		var ie *note.InvalidSignatureError
		if err == nil {
			fail("a known key with a bad signature did not make Open fail")
		} else if !errors.As(err, &ie) || ie.Name != badKey.name || ie.Hash != badKey.hash {
			fail("bad signature of a known key not reported as InvalidSignatureError for that key")
		}
	case "unverified":
		var ue *note.UnverifiedNoteError
		if !errors.As(err, &ue) {
			fail("message with no known signature: expected UnverifiedNoteError")
		} else if ue.Note.Text != text || !c07SigEq(ue.Note.UnverifiedSigs, wantU) || len(ue.Note.Sigs) != 0 {
			fail("UnverifiedNoteError carries the wrong note")
		}
	}
}
