package main

// C05 — a created module zip always extracts to exactly the files that belong in it.

import (
	"archive/zip"
	"bytes"
	"io"
	"os"
	"path"
	"path/filepath"
	"strings"
	"unicode"
	"unicode/utf8"

	"golang.org/x/mod/module"
	modzip "golang.org/x/mod/zip"
)

func init() {
	register(&Prop{ID: "C05", Gen: genC05, Oracle: oracleC05,
		Rule: "Create on generated file lists (C17's generator with contents; honest and dishonest sizes; valid and invalid module path/version pairs), followed by CheckZip and Unzip of every archive Create produced (the produced entries are fed back as op lines); non-trivial = every case (each exercises classification + creation); distinct by op line"})
}

func c05ReadEntries(data []byte) []zipuEntry {
	zr, err := zip.NewReader(bytes.NewReader(data), int64(len(data)))
	if err != nil {
		return nil
	}
	var es []zipuEntry
	for _, zf := range zr.File {
		rc, err := zf.Open()
		if err != nil {
			return nil
		}
		c, _ := io.ReadAll(rc)
		rc.Close()
		es = append(es, zipuEntry{name: zf.Name, decl: zf.UncompressedSize64, content: c})
	}
	return es
}

func c05GenList(g *Gen) []*zipuFile {
	fs := c05GenListBase(g)
	if g.Chance(25) {
		fs = c05NearMissMutate(g, fs)
	}
	return fs
}

func c05GenListBase(g *Gen) []*zipuFile {
	switch g.Intn(10) {
	case 0, 1:
		return zipuGenFiles(g.Rand, zipuGenOpts{}) // anything, incl. fake sizes
	case 2, 3, 4:
		return zipuGenFiles(g.Rand, zipuGenOpts{honest: true})
	default:
		// mostly creatable: plain real-tree-like lists (still with odd names, vendor/submodule layouts)
		return zipuGenFiles(g.Rand, zipuGenOpts{realFS: true, plainOnly: g.Chance(70), honest: true})
	}
}

// c05LongNameOracle: also state the create-iff clause on entry names at the archive/zip limit of
// 65535 bytes (finding: Create fails there although CheckFiles reports no error).
const c05LongNameOracle = true

// c05LongName: one regular file whose path makes "<module>@<version>/<path>" exactly n bytes long.
func c05LongName(mp, mv string, n int) []*zipuFile {
	p := strings.Repeat("a", n-len(mp+"@"+mv+"/"))
	return []*zipuFile{{path: p, mode: 'r', size: 1, content: []byte("x")}}
}

func genC05(g *Gen, n int) {
	// the entry-name length limit of archive/zip, both sides of it
	for _, k := range []int{65535, 65536} {
		g.Emit("zip.create "+hx("example.com/m")+" "+hx("v1.0.0")+" "+zipuFilesTok(c05LongName("example.com/m", "v1.0.0", k)), true, "name-length-limit")
	}
	for _, fs := range c05FixedLists() {
		c05EmitCreate(g, "example.com/m", "v1.0.0", fs, "fixed")
	}
	for _, fs := range c05SizeLimitLists(false) {
		c05EmitCreate(g, "example.com/m", "v1.0.0", fs, "size-limited-name-placement")
	}
	for _, l := range c05TotalLists() {
		c05EmitCreate(g, "example.com/m", "v1.0.0", c05TotalDeclared(l), "total-size-accumulation")
	}
	for _, fs := range c05AncestorClashLists() {
		c05EmitCreate(g, "example.com/m", "v1.0.0", fs, "ancestor-clash")
	}
	for _, fs := range c05FoldOrbitLists(g.Rand, false) {
		c05EmitCreate(g, "example.com/m", "v1.0.0", fs, "fold-orbit-pair")
	}
	for _, fs := range c05NearMissLists(g.Rand, thorough) {
		c05EmitCreate(g, "example.com/m", "v1.0.0", fs, "near-miss-name")
	}
	// The fixed families above (with their derived and mirrored ops) are about 1700 of the quick tier's 2500 ops
	// (random lists: about 200 of 920): the random stream gets at least n/2 ops of its own, however large the
	// sweeps are.
	if n < g.st.Ops+n/2 {
		n = g.st.Ops + n/2
	}
	for g.st.Ops < n {
		fs := c05GenList(g)
		mp, mv := zipuPickMod(g.Rand, 8)
		c05EmitCreate(g, mp, mv, fs, "create")
	}
}

// c05FixedLists: a case-variant pair for every ASCII letter (files and directories, both orders), and
// small root LICENSE / go.mod files that come after more than 16 MiB of other content (zero bytes).
func c05FixedLists() [][]*zipuFile {
	var out [][]*zipuFile
	gomod := &zipuFile{path: "go.mod", mode: 'r', size: 21, content: []byte("module example.com/m\n")}
	for _, pr := range zipuFoldSweep() {
		out = append(out, append([]*zipuFile{gomod}, c17PairFiles(pr)...))
	}
	zeros := func(p string, n int) *zipuFile { return &zipuFile{path: p, mode: 'r', size: int64(n), content: make([]byte, n)} }
	small := func(p, c string) *zipuFile { return &zipuFile{path: p, mode: 'r', size: int64(len(c)), content: []byte(c)} }
	out = append(out,
		[]*zipuFile{zeros("big.bin", zipu16M+1), small("LICENSE", "abc")},
		[]*zipuFile{zeros("big.bin", zipu16M+1), gomod},
		[]*zipuFile{small("LICENSE", "abc"), gomod, zeros("big.bin", zipu16M+1)},
		[]*zipuFile{zeros("a.bin", 5<<20), zeros("b.bin", 5<<20), zeros("c.bin", 5<<20), zeros("d/e.bin", 2<<20), small("LICENSE", "license text"), gomod, small("z.go", "package z\n")},
		[]*zipuFile{zeros("a.bin", zipu16M), small("b.go", "x"), small("LICENSE", ""), small("sub/LICENSE", "abc")},
	)
	return out
}

// c05SizeLimitLists: the two names with a special size limit (LICENSE, go.mod; 16 MiB each) at and
// just over that limit, in every PLACEMENT of the name: in the module root (where the limit applies),
// below one and two directories, as the name of a directory, and as near-miss names (other case,
// with a suffix or prefix).  The limit is documented for the root file only, and checkFiles and
// checkZip decide independently which entries it applies to, so a file that Create accepts must not
// be refused by CheckZip / Unzip on that ground.  This class was missing: the random lists carry
// contents of a few bytes (over-limit sizes there are declared sizes only, which Create refuses), and
// the fixed lists had the large contents only in root files or in files with unrelated names.
// Contents are honest zero bytes (short `z<N>` on the op line).  A 16 MiB archive costs about 1.5 s of
// model time and 1 s of implementation time in the correspondence run but only about 0.3 s in the
// oracle, so: quick generator = the over-limit size at three placements away from the root (the root
// placements are in c05FixedLists and in the random lists); oracle = every placement over the limit,
// the root ones also at the limit; thorough = every placement at limit-1, limit, limit+1.
func c05SizeLimitLists(oracle bool) [][]*zipuFile {
	zeros := func(p string, n int) *zipuFile { return &zipuFile{path: p, mode: 'r', size: int64(n), content: make([]byte, n)} }
	small := func(p, c string) *zipuFile { return &zipuFile{path: p, mode: 'r', size: int64(len(c)), content: []byte(c)} }
	gomod := small("go.mod", "module example.com/m\n")
	places := []string{"sub/LICENSE", "LICENSE/x.txt", "go.mod/x.go"}
	if oracle || thorough {
		places = append(places, "LICENSE", "a/b/LICENSE", "license", "LICENSE.txt", "sub/xLICENSE", "sub/LICENSE/y", "sub/License", "sub/LICENSE.md", "vendor/LICENSE",
			"go.mod", "sub/go.mod", "sub/go.mod.txt", "go.mod.bak", "a/go.mod/b/y.go", "GO.MOD", "sub/Go.mod")
	}
	var out [][]*zipuFile
	for _, p := range places {
		sizes := []int{zipu16M + 1}
		if p == "LICENSE" || p == "go.mod" {
			sizes = []int{zipu16M, zipu16M + 1}
		}
		if thorough {
			sizes = []int{zipu16M - 1, zipu16M, zipu16M + 1}
		}
		for _, n := range sizes {
			fs := []*zipuFile{small("a.go", "package a\n"), zeros(p, n)}
			if p != "go.mod" && !strings.HasPrefix(p, "go.mod/") {
				fs = append(fs, gomod)
			}
			if p != "LICENSE" && !strings.HasPrefix(p, "LICENSE/") {
				fs = append(fs, small("LICENSE", "license text"))
			}
			out = append(out, fs)
		}
	}
	return out
}

// c05AncestorClashLists: a name that is a regular file in one entry and an ANCESTOR directory of
// another, at every distance (parent, grandparent, ... up to four levels above the deeper file), at the
// root and below a directory, in both list orders, spelled identically and as a case variant; and two
// directory names that differ only in case, at the same distances above their files.  Such lists must
// not be created (the archive could not be extracted: the name would have to be a file and a
// directory).  The random lists produce the parent case through a list-level mutation and reach the
// higher levels only by luck (a handful of lists per run), so the sweep makes the class systematic.
func c05AncestorClashLists() [][]*zipuFile {
	small := func(p, c string) *zipuFile {
		return &zipuFile{path: p, mode: 'r', size: int64(len(c)), content: []byte(c)}
	}
	gomod := small("go.mod", "module example.com/m\n")
	var out [][]*zipuFile
	below := []string{"c.go", "b/c.go", "b/d/c.go", "b/d/e/c.go"}
	for _, top := range [][2]string{{"a", "a"}, {"cmd/tool", "cmd/tool"}, {"A", "a"}, {"cmd/Tool", "cmd/tool"}} {
		for _, b := range below {
			file, deep := small(top[0], "x"), small(top[1]+"/"+b, "package c\n")
			out = append(out, []*zipuFile{gomod, file, deep}, []*zipuFile{gomod, deep, file})
		}
	}
	for _, top := range [][2]string{{"Pkg", "pkg"}, {"r/pkg", "r/pKg"}} {
		for _, b := range below {
			out = append(out, []*zipuFile{gomod, small(top[0]+"/x"+b, "x"), small(top[1]+"/y"+b, "y")})
		}
	}
	return out
}

// ---- the TOTAL size limit reached by accumulation over three or more files
//
// c05TotalLists: lists of k >= 3 valid regular files whose sizes sum to MaxZipFile exactly (must be
// created, and the archive must pass CheckZip) or to a little more (must be refused: the archive could
// not pass CheckZip, whose total is over the limit), while NO single file and NO two files adjacent in
// list order exceed the limit on their own.  The total limit is then only enforced if the check really
// accumulates over the whole list.  Shapes: k equal parts (k = 3, 4, 5, 8); two halves and a byte, the
// byte first / in the middle / last; a file of MaxZipFile-1 followed by an empty file and two one-byte
// files; halving sizes; and the same with files that must NOT count towards the total in between
// (vendored package file, submodule file, symlink, directory, pipe -- all with a huge reported size).
// This class was missing: the fixed lists stop at 16 MiB contents, and the random lists draw reported
// sizes from zipuFakeSizes independently per file, so three valid files that pass pairwise and fail in
// total (250 MiB, 250 MiB and something positive, or 500 MiB-1 and two single bytes, with nothing
// oversized among them) practically never come together; and there the contents are a few bytes, so
// Create would write a small archive that CheckZip accepts whatever CheckFiles said.
// A list is (path, mode, size) only: the generator emits it with contents of one byte (reported sizes
// that are larger than the content -- Create then consults the reported sizes only, and the model can
// evaluate the op; 200 MiB of list cells per file it could not); the oracle gives the same list HONEST
// contents produced on the fly (c05LazyFile below).
type c05TotalList struct {
	name string
	fs   []*zipuFile // content nil: the reported size stands for that many zero bytes
	over bool        // the valid files sum to more than MaxZipFile
}

func c05TotalLists() []c05TotalList {
	const M = int64(modzip.MaxZipFile)
	reg := func(p string, n int64) *zipuFile { return &zipuFile{path: p, mode: 'r', size: n} }
	names := []string{"a.bin", "b/b.bin", "c.bin", "d/e/d.bin", "e.bin", "f.bin", "g.bin", "h.bin"}
	mk := func(sizes ...int64) []*zipuFile {
		var fs []*zipuFile
		for i, n := range sizes {
			fs = append(fs, reg(names[i], n))
		}
		return fs
	}
	var out []c05TotalList
	add := func(name string, over bool, fs []*zipuFile) {
		out = append(out, c05TotalList{name: name, fs: fs, over: over})
	}
	for _, k := range []int64{3, 4, 5, 8} {
		at := make([]int64, k)
		ov := make([]int64, k)
		for i := range at {
			at[i], ov[i] = M/k, M/k
		}
		at[k-1] += M % k // exactly M
		ov[0] += M%k + 1 // M+1, the excess in the first file
		add("equal-parts-"+itoa(int(k))+"-at", false, mk(at...))
		add("equal-parts-"+itoa(int(k))+"-over", true, mk(ov...))
	}
	add("halves-byte-last-at", false, mk(M/2, M/2-1, 1))
	add("halves-byte-last-over", true, mk(M/2, M/2, 1))
	add("halves-byte-first-over", true, mk(1, M/2, M/2))
	add("halves-byte-middle-over", true, mk(M/2, 1, M/2))
	add("halves-byte-middle-at", false, mk(M/2-1, 1, M/2))
	add("almost-all-empty-two-bytes-over", true, mk(M-1, 0, 1, 1))
	add("almost-all-empty-byte-at", false, mk(M-1, 0, 1, 0))
	add("halving-over", true, mk(M/2, M/4, M/8, M/8, 1))
	add("halving-at", false, mk(M/2, M/4, M/8, M/8-1, 1))
	add("rising-over", true, mk(1, M/8, M/8, M/4, M/2))
	// files that do not count towards the total, between the ones that do
	gomod := &zipuFile{path: "go.mod", mode: 'r', size: 21, content: []byte("module example.com/m\n")}
	skip := func() []*zipuFile {
		return []*zipuFile{
			reg("vendor/x.org/y/y.go", M/2),
			{path: "sub/go.mod", mode: 'r', size: 23, content: []byte("module example.com/m/s\n")},
			reg("sub/s.bin", M/2),
			{path: "link", mode: 's', size: M / 2},
			{path: "dir", mode: 'd', size: M / 2},
			{path: "pipe", mode: 'i', size: M / 2},
		}
	}
	inter := func(sizes ...int64) []*zipuFile {
		fs := []*zipuFile{gomod}
		sk := skip()
		for i, n := range sizes {
			fs = append(fs, reg(names[i], n))
			if 2*i+1 < len(sk) {
				fs = append(fs, sk[2*i], sk[2*i+1])
			}
		}
		return fs
	}
	add("not-counted-between-at", false, inter(M/2, M/2-21-1, 1))
	add("not-counted-between-over", true, inter(M/2, M/2-21, 1))
	add("not-counted-between-thirds-over", true, inter(M/3, M/3, M/3, 1))
	return out
}

// c05TotalQuick: the lists AT the limit that the quick oracle runs with honest contents.
var c05TotalQuick = map[string]bool{"equal-parts-3-at": true, "almost-all-empty-byte-at": true, "not-counted-between-at": true}

// c05TotalDeclared: the list as the generator emits it: every regular file without content gets one
// byte of content (so its reported size is larger than what Open yields).
func c05TotalDeclared(l c05TotalList) []*zipuFile {
	var fs []*zipuFile
	for _, f := range l.fs {
		if f.mode == 'r' && f.content == nil && f.size > 0 {
			fs = append(fs, &zipuFile{path: f.path, mode: 'r', size: f.size, content: []byte("x")})
		} else {
			fs = append(fs, f)
		}
	}
	return fs
}

// c05LazyFile: a zipuFile whose content, when nil, is `size` zero bytes produced while reading (three
// files of 200 MiB each are not held in memory).
type c05LazyFile struct{ *zipuFile }

type c05Zeros struct{}

func (c05Zeros) Read(b []byte) (int, error) {
	for i := range b {
		b[i] = 0
	}
	return len(b), nil
}

func (f c05LazyFile) Open() (io.ReadCloser, error) {
	if f.mode == 'r' && f.content == nil && f.size > 0 {
		return io.NopCloser(io.LimitReader(c05Zeros{}, f.size)), nil
	}
	return f.zipuFile.Open()
}

// c05CheckTotal states the property for one such list with honest contents: creation succeeds exactly
// when the file check reports no error; a created archive passes the zip check with no invalid entry
// and no size error, and obeys the documented total-size restriction.  (The extraction clauses are
// checked on the ordinary lists: extracting 500 MiB per list is outside the budget.)
func c05CheckTotal(g *Gen, l c05TotalList) {
	m := module.Version{Path: "example.com/m", Version: "v1.0.0"}
	files := make([]modzip.File, len(l.fs))
	for i, f := range l.fs {
		files[i] = c05LazyFile{f}
	}
	// replay lines: the list with its reported sizes (contents of one byte); the implementation must
	// treat it as the model does
	decl := c05TotalDeclared(l)
	lines := []string{"zip.checkfiles " + zipuFilesTok(decl), "zip.create " + hx(m.Path) + " " + hx(m.Version) + " " + zipuFilesTok(decl)}
	info := "list " + l.name + " with honest contents (zero bytes of the reported sizes):"
	for _, f := range l.fs {
		info += " " + f.path + ":" + string(f.mode) + ":" + i64toa(f.size)
	}
	g.Case("create-iff-checkfiles-total")
	_, cfErr := modzip.CheckFiles(files)
	tmp := zipuTemp()
	defer os.RemoveAll(tmp)
	zp := filepath.Join(tmp, "a.zip")
	w, err := os.Create(zp)
	if err != nil {
		return
	}
	cerr := modzip.Create(w, m, files)
	w.Close()
	if (cerr == nil) != (cfErr == nil) {
		g.Fail("C05 create-iff: Create and CheckFiles disagree on a valid module with honest sizes", "create="+zipuErrKind(cerr)+" checkfiles-ok="+showBool(cfErr == nil)+"; "+info, lines...)
		return
	}
	if cerr != nil {
		return
	}
	g.Case("roundtrip-total")
	zcf, zerr := modzip.CheckZip(m, zp)
	if zerr != nil || len(zcf.Invalid) != 0 || zcf.SizeError != nil {
		g.Fail("C05 roundtrip: CheckZip rejects an archive produced by Create", zipuErrKind(zerr)+"; "+info, lines...)
		return
	}
	g.Case("restrictions-total")
	zr, err := zip.OpenReader(zp)
	if err != nil {
		return
	}
	defer zr.Close()
	var total uint64
	for _, zf := range zr.File {
		total += zf.UncompressedSize64
	}
	if total > modzip.MaxZipFile {
		g.Fail("C05 restrictions: total uncompressed size of a created archive exceeds MaxZipFile", "total "+itoa(int(total))+"; "+info, lines...)
	}
}

// c05Specials: the path elements the zip rules treat specially (go.mod placement / case / size, the
// LICENSE size limit, vendor directories with their modules.txt exception, the hg archive file).
var c05Specials = []string{"go.mod", "LICENSE", "vendor", "modules.txt", ".hg_archival.txt"}

// c05NearMissNames: a dictionary of NEAR MISSES of one special name: the name with something in front
// (hugo.mod, cargo.mod, _go.mod), behind (go.mod.bak, go.modx), or inside (gox.mod), with one byte
// dropped or doubled, in other letter cases (GO.MOD, Go.mod, gO.mod, go.moD), and prefix/suffix
// variants of the case variants (ErGO.MOD, GO.MOD.BAK).  The special name itself comes first.
// checkFiles, checkZip and Unzip each recognise the special names on their own (base name vs whole
// path, exact vs case-folded comparison, element vs substring), so a name that one of them takes for
// special and another for ordinary makes Create produce an archive that CheckZip / Unzip refuse, or
// changes what is extracted.
func c05NearMissNames(s string) []string {
	up, lo := strings.ToUpper(s), strings.ToLower(s)
	flip := func(i int) string {
		b := []byte(s)
		if c := b[i] | 0x20; 'a' <= c && c <= 'z' {
			b[i] ^= 0x20
		}
		return string(b)
	}
	first, last := 0, len(s)-1
	for first < len(s)-1 && !('a' <= s[first]|0x20 && s[first]|0x20 <= 'z') {
		first++
	}
	title := []byte(lo)
	title[first] ^= 0x20
	mid := len(s) / 2
	cands := []string{s,
		// case variants
		up, lo, string(title), flip(first), flip(last),
		// something in front
		"x" + s, "_" + s, "hu" + s, "car" + s, "a." + s, "-" + s, "é" + s,
		// something behind
		s + "x", s + ".bak", s + "_", s + "-1", s + ".orig", s + "é",
		// something inside, one byte dropped, one byte doubled
		s[:1] + "x" + s[1:], s[:mid] + "x" + s[mid:], s[:mid] + "." + s[mid:], s[1:], s[:last], s[:mid] + s[mid+1:], s[:mid] + s[mid:mid+1] + s[mid:],
		// in front of / behind a case variant
		"Er" + up, "x" + string(title), up + ".BAK", flip(last) + "x", "X" + lo,
	}
	seen := map[string]bool{}
	var out []string
	for _, c := range cands {
		if c != "" && !seen[c] {
			seen[c] = true
			out = append(out, c)
		}
	}
	return out
}

// c05NearMissPlaces: where a near-miss name is put (% = the name): as a file in the root, below one
// and two directories, below a root and a nested vendor directory, and as the name of a directory.
var c05NearMissPlaces = []string{"%", "sub/%", "a/b/%", "vendor/%", "sub/vendor/%", "%/x.go", "sub/%/y.go", "vendor/%/z.go"}

// c05NearMissLists: every near miss of every special name in every placement, next to a root go.mod
// and an ordinary file, with honest small contents, to be taken through Create -> CheckZip / Unzip.
// This class was missing: the random lists draw path elements from a dictionary that has the special
// names themselves, three of their case variants and `LICENSE.txt` / `vendor.go` / `go.sum`, and the
// scenario lists add `avendor`, `vendorx`, `xvendor` directories -- but never a file whose last element
// merely ENDS or BEGINS with a special name (hugo.mod, _go.mod, ErGO.MOD, xLICENSE, modules.txt.bak,
// x.hg_archival.txt); the size-limit sweep has a few such names but only with 16 MiB contents in the
// oracle.  Such files are ordinary: they must be archived, pass CheckZip and come out of Unzip.
// single = one near miss per list (oracle, thorough generator: small failing inputs; an
// implementation-only case costs about a millisecond).  Otherwise (quick generator, where every list
// costs three model evaluations) the near misses of all special names are packed per placement into
// lists without case-fold clashes; the special names themselves and their case variants stay alone
// in their lists (sub/go.mod makes sub a submodule and would hide everything else below sub), and of
// those only a random fifth is emitted (the op budget is shared with the random lists, whose
// dictionary has the special names and their common case variants anyway).
func c05NearMissLists(r *Rand, single bool) [][]*zipuFile {
	small := func(p, c string) *zipuFile {
		return &zipuFile{path: p, mode: 'r', size: int64(len(c)), content: []byte(c)}
	}
	mk := func(paths []string) []*zipuFile {
		fs := []*zipuFile{small("a.go", "package a\n")}
		haveMod := false
		for i, p := range paths {
			c := "near miss " + itoa(i) + "\n"
			if strings.EqualFold(path.Base(p), "go.mod") {
				c = "module example.com/m/" + itoa(i) + "\n"
			}
			if p == "go.mod" {
				haveMod = true
				c = "module example.com/m\n"
			}
			fs = append(fs, small(p, c))
		}
		if !haveMod {
			fs = append(fs, small("go.mod", "module example.com/m\n"))
		}
		return fs
	}
	var out [][]*zipuFile
	for _, pl := range c05NearMissPlaces {
		var packed [][]string // packed[k]: paths of the k-th packed list of this placement
		for _, s := range c05Specials {
			depth := map[string]int{} // fold class -> number of members placed so far
			for _, nm := range c05NearMissNames(s) {
				p := strings.Replace(pl, "%", nm, 1)
				if single {
					out = append(out, mk([]string{p}))
					continue
				}
				if strings.EqualFold(nm, s) {
					if r.Chance(20) {
						out = append(out, mk([]string{p}))
					}
					continue
				}
				k := depth[strings.ToLower(nm)]
				depth[strings.ToLower(nm)]++
				for len(packed) <= k {
					packed = append(packed, nil)
				}
				packed[k] = append(packed[k], p)
			}
		}
		for _, ps := range packed {
			out = append(out, mk(ps))
		}
	}
	return out
}

// c05NearMissMutate: the same dictionary inside the random lists: one to three near misses of a
// special name are added as regular files below a directory the list already has (or the root), so
// that they meet the list's other files (submodules, vendor trees, case variants, odd modes).
func c05NearMissMutate(g *Gen, fs []*zipuFile) []*zipuFile {
	dirs := []string{""}
	have := map[string]bool{}
	for _, f := range fs {
		have[f.path] = true
		if d := path.Dir(f.path); d != "." && d != "/" && path.Clean(f.path) == f.path && !path.IsAbs(f.path) {
			dirs = append(dirs, d+"/")
		}
	}
	for k := 1 + g.Intn(3); k > 0; k-- {
		nms := c05NearMissNames(g.Pick(c05Specials))
		p := g.Pick(dirs) + nms[1+g.Intn(len(nms)-1)]
		if g.Chance(15) {
			p += "/" + g.Pick([]string{"x.go", "go.mod", "LICENSE", "modules.txt"})
		}
		if have[p] {
			continue
		}
		have[p] = true
		c := zipuContent(g.Rand, path.Base(p))
		// anywhere in the list (the collision rules depend on the order)
		i := g.Intn(len(fs) + 1)
		fs = append(fs, nil)
		copy(fs[i+1:], fs[i:])
		fs[i] = &zipuFile{path: p, mode: 'r', size: int64(len(c)), content: c}
	}
	return fs
}

// c05FoldOrbits: every orbit of unicode.SimpleFold with more than one member, members ascending.
var c05FoldOrbitsCache [][]rune

func c05FoldOrbits() [][]rune {
	if c05FoldOrbitsCache != nil {
		return c05FoldOrbitsCache
	}
	seen := map[rune]bool{}
	var out [][]rune
	for r := rune(0); r <= unicode.MaxRune; r++ {
		if seen[r] || unicode.SimpleFold(r) == r {
			continue
		}
		orb := []rune{r}
		for x := unicode.SimpleFold(r); x != r; x = unicode.SimpleFold(x) {
			orb = append(orb, x)
			seen[x] = true
		}
		out = append(out, orb)
	}
	c05FoldOrbitsCache = out
	return out
}

// c05FoldOrbitLists: case-variant pairs BEYOND ASCII.  The documented restriction is "no two file
// paths equal under Unicode case-folding (see strings.EqualFold)", and strings.EqualFold identifies
// exactly the members of one unicode.SimpleFold orbit.  So: for every orbit with more than one member
// and every ordered pair (a, b) of distinct members, two paths that differ only in that rune -- as a
// file name, as the first rune of a directory name, and embedded in a root file name -- next to a
// go.mod.  Such a list must never be created with both files in the archive.  This class was missing:
// zipuFoldSweep covers the ASCII letters only, and the random lists meet a non-ASCII pair only through
// three scenario lists that also contain other invalid names most of the time, so Create (and with it
// the restrictions clause) was practically never reached with one.
// Oracle and thorough generator: every orbit, every ordered pair, all three positions (an
// implementation-only case costs microseconds).  Quick generator (a model evaluation per op, and the
// op budget is shared with the random lists): the structurally special orbits -- more than two
// members, or a member in ASCII -- and a random sample of the rest, one position per ordered pair.
func c05FoldOrbitLists(r *Rand, oracle bool) [][]*zipuFile {
	gomod := &zipuFile{path: "go.mod", mode: 'r', size: 21, content: []byte("module example.com/m\n")}
	full := oracle || thorough
	var out [][]*zipuFile
	for _, orb := range c05FoldOrbits() {
		special := len(orb) > 2 || orb[0] < utf8.RuneSelf
		if !(full || special || r.Chance(4)) {
			continue
		}
		for i, a := range orb {
			for j, b := range orb {
				if i == j {
					continue
				}
				sa, sb := string(a), string(b)
				prs := [][2]string{
					{"units/" + sa + ".go", "units/" + sb + ".go"},
					{sa + "it/a.go", sb + "it/b.go"},
					{"me" + sa + "sage.go", "me" + sb + "sage.go"},
				}
				if !full {
					k := r.Intn(len(prs))
					prs = prs[k : k+1]
				}
				for _, pr := range prs {
					out = append(out, []*zipuFile{gomod,
						{path: pr[0], mode: 'r', size: 1, content: []byte("x")}, {path: pr[1], mode: 'r', size: 1, content: []byte("y")}})
				}
			}
		}
	}
	return out
}

func c05EmitCreate(g *Gen, mp, mv string, fs []*zipuFile, tag string) {
	{
		out := g.Emit("zip.create "+hx(mp)+" "+hx(mv)+" "+zipuFilesTok(fs), true, tag)
		if strings.HasPrefix(out, "ok") {
			// feed the produced archive back through CheckZip and Unzip on both sides
			data, err := zipuCreate(module.Version{Path: mp, Version: mv}, fs)
			if err == nil {
				es := c05ReadEntries(data)
				g.Emit("zip.checkzip "+hx(mp)+" "+hx(mv)+" 0 "+zipuEntriesTok(es), true, "created-checkzip")
				g.Emit("zip.unzip "+hx(mp)+" "+hx(mv)+" 0 "+g.Pick([]string{"m", "m", "e"})+" "+zipuEntriesTok(es), true, "created-unzip")
			}
		}
	}
}

func oracleC05(g *Gen, n int) {
	if c05LongNameOracle {
		m := module.Version{Path: "example.com/m", Version: "v1.0.0"}
		for _, k := range []int{65535, 65536} {
			fs := c05LongName(m.Path, m.Version, k)
			g.Case("create-iff-checkfiles-name-limit")
			_, cerr := zipuCreate(m, fs)
			_, cfErr := modzip.CheckFiles(zipuAsFiles(fs))
			if (cerr == nil) != (cfErr == nil) {
				g.Fail("C05 create-iff: Create fails on a name longer than 65535 bytes although CheckFiles reports no error",
					"create="+zipuErrKind(cerr)+" checkfiles-ok="+showBool(cfErr == nil)+" name length "+itoa(k),
					"zip.create "+hx(m.Path)+" "+hx(m.Version)+" "+zipuFilesTok(fs))
			}
		}
	}
	for _, fs := range c05FixedLists() {
		c05Check(g, "example.com/m", "v1.0.0", fs)
	}
	for _, fs := range c05SizeLimitLists(true) {
		c05Check(g, "example.com/m", "v1.0.0", fs)
	}
	for _, l := range c05TotalLists() {
		c05Check(g, "example.com/m", "v1.0.0", c05TotalDeclared(l)) // reported sizes only (small archive)
		// honest contents: a list over the limit costs nothing as long as Create refuses it; a list at the
		// limit costs about 1.7 s (500 MiB through the compressor), so the quick tier takes three of the nine
		if l.over || thorough || c05TotalQuick[l.name] {
			c05CheckTotal(g, l)
		}
	}
	for _, fs := range c05AncestorClashLists() {
		c05Check(g, "example.com/m", "v1.0.0", fs)
	}
	for _, fs := range c05FoldOrbitLists(g.Rand, true) {
		c05Check(g, "example.com/m", "v1.0.0", fs)
	}
	for _, fs := range c05NearMissLists(g.Rand, true) {
		c05Check(g, "example.com/m", "v1.0.0", fs)
	}
	// READER BEHAVIOUR of File.Open (util_c05readers.go): the property quantifies over File values, and
	// until now every file of every list was read through a bytes.Reader.  Exhaustive on a small scope:
	// every reading of the sweep on every small list (up to the first that fails), then (for the readings
	// that passed) on the lists with contents around the buffer sizes; the first failing large list ends the sweep (its op line is
	// long).  The random lists below get a reading each, picked by a hash of their op line.
	largeFailed := false
	for _, rd := range c05ReadingSweep() {
		before := len(g.st.Failures)
		for _, fs := range c05ReaderLists(true) {
			c05CheckRead(g, "example.com/m", "v1.0.0", fs, rd, "reader-sweep")
			if len(g.st.Failures) != before {
				break // one failing input per reading (the smallest list)
			}
		}
		if len(g.st.Failures) != before || largeFailed {
			continue
		}
		for _, fs := range c05ReaderLists(false) {
			c05CheckRead(g, "example.com/m", "v1.0.0", fs, rd, "reader-sweep-large")
			if len(g.st.Failures) != before {
				largeFailed = true
				break
			}
		}
	}
	for i := 0; i < n; i++ {
		mp, mv := zipuPickMod(g.Rand, 5)
		fs := c05GenList(g)
		c05CheckRead(g, mp, mv, fs, c05ReadingFor(zipuFilesTok(fs)), "")
	}
}

// c05Check states the property for one module version and file list, the files read through a bytes.Reader.
func c05Check(g *Gen, mp, mv string, fs []*zipuFile) {
	c05CheckRead(g, mp, mv, fs, c05Plain, "")
}

// c05CheckRead states the property for one module version and file list whose regular files deliver
// their content as rd says (the file check and Create are given the same File values).
func c05CheckRead(g *Gen, mp, mv string, fs []*zipuFile, rd c05Reading, tag string) {
	for once := true; once; once = false {
		m := module.Version{Path: mp, Version: mv}
		// the op line is rendered on failure only (hex of every content, go.mod parse per file)
		line := func() string { return "zip.create " + hx(mp) + " " + hx(mv) + " " + zipuFilesTok(fs) }
		files := c05AsFiles(fs, rd)
		via := "files opened as: " + rd.String()
		if tag != "" {
			g.Case(tag)
		}
		if rd.kind != 'p' {
			g.Case("reading-" + string(rd.kind))
		}
		data, cerr := c05CreateFiles(m, files)
		cf, cfErr := modzip.CheckFiles(files)

		// creation succeeds exactly when the file check reports no error
		// (valid module path with matching canonical version, contents of the reported size)
		modOK := module.CanonicalVersion(mv) == mv && module.Check(mp, mv) == nil
		honest := true
		for _, f := range fs {
			if f.mode == 'r' && f.size != int64(len(f.content)) {
				honest = false
			}
		}
		if modOK && honest {
			g.Case("create-iff-checkfiles")
			if (cerr == nil) != (cfErr == nil) {
				g.Fail("C05 create-iff: Create and CheckFiles disagree on a valid module with honest sizes", "create="+zipuErrKind(cerr)+" checkfiles-ok="+showBool(cfErr == nil)+"; "+via, line())
				continue
			}
		}
		if cerr != nil {
			continue
		}
		g.Case("roundtrip")
		tmp := zipuTemp()
		func() {
			defer os.RemoveAll(tmp)
			zp := filepath.Join(tmp, "a.zip")
			if err := os.WriteFile(zp, data, 0o644); err != nil {
				return
			}
			// passes the zip check with no invalid entries
			zcf, zerr := modzip.CheckZip(m, zp)
			if zerr != nil || len(zcf.Invalid) != 0 || zcf.SizeError != nil {
				g.Fail("C05 roundtrip: CheckZip rejects an archive produced by Create", zipuErrKind(zerr)+"; "+via, line())
				return
			}
			// extracts without error
			o := zipuUnzip(tmp, zp, m, "me"[g.Intn(2)])
			if o.err != nil {
				g.Fail("C05 roundtrip: Unzip fails on an archive produced by Create", zipuErrKind(o.err)+"; "+via, line())
				return
			}
			if len(o.outside) != 0 {
				g.Fail("C05 roundtrip: Unzip touched something outside the target", strings.Join(o.outside, ",")+"; "+via, line())
				return
			}
			// the extracted tree is exactly the files CheckFiles reports as valid, byte for byte
			want := map[string][]byte{}
			byPath := map[string]*zipuFile{}
			for _, f := range fs {
				if _, dup := byPath[f.path]; !dup {
					byPath[f.path] = f
				}
			}
			for _, v := range cf.Valid {
				want[v] = byPath[v].content
			}
			if len(want) != len(cf.Valid) || len(o.files) != len(want) {
				g.Fail("C05 roundtrip: extracted tree is not the set of valid files", "extracted "+itoa(len(o.files))+" valid "+itoa(len(cf.Valid))+"; "+via, line())
				return
			}
			for p, c := range want {
				got, ok := o.files[p]
				if !ok || !bytes.Equal(got, c) {
					g.Fail("C05 roundtrip: an extracted file is missing or differs from the valid file's content", hx(p)+" ("+p+"): extracted "+itoa(len(got))+" bytes, the file given to Create has "+itoa(len(c))+"; "+via, line())
					return
				}
			}
			// every produced archive obeys the documented restrictions
			g.Case("restrictions")
			es := c05ReadEntries(data)
			prefix := mp + "@" + mv + "/"
			for i, e := range es {
				if !strings.HasPrefix(e.name, prefix) {
					g.Fail("C05 restrictions: entry without the module prefix", hx(e.name), line())
					return
				}
				rel := e.name[len(prefix):]
				if rel != path.Clean(rel) || module.CheckFilePath(rel) != nil {
					g.Fail("C05 restrictions: entry path is not a valid clean path", hx(e.name), line())
					return
				}
				if strings.EqualFold(path.Base(rel), "go.mod") && rel != "go.mod" {
					g.Fail("C05 restrictions: go.mod not at the root in lower case", hx(e.name), line())
					return
				}
				for _, e2 := range es[:i] {
					if strings.EqualFold(e.name, e2.name) {
						g.Fail("C05 restrictions: two entries equal under case folding", hx(e.name)+" "+hx(e2.name), line())
						return
					}
				}
			}
		}()
	}
}
