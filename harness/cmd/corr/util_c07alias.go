package main

// C07 oracle, input class "caller-owned slice history" (added for r5-C07-a).
//
// The property quantifies over ANY set of known verifiers: the set of known keys of an Open call is the set
// that was handed to VerifierList, whatever the caller does with its own variables afterwards. Every other case of
// the oracle (and every correspondence op) builds the list and opens in ONE step, from a slice nobody touches
// again, so a VerifierList that keeps the caller's backing array instead of its own copy is indistinguishable
// there. Missing was a HISTORY:
//
//	s := make([]Verifier, 0, c); s = append(s[:0], A...); L0 := VerifierList(s...)
//	then the caller changes s: element replaced, two elements swapped, reversed, truncated-and-appended,
//	re-filled for a second list L1 := VerifierList(s...), grown past its capacity, ...
//	after EVERY step, for EVERY list built so far: lookups and Open behave as for the set the list was built from
//
// Expected outcomes come from the property text alone (c07ExpectBlock with known = the build-time set):
// lookups find exactly the build-time keys (the very verifier given), report the others as UnknownVerifierError,
// a key given twice as ambiguous; Open of a hand-built block yields the verified/unverified partition, an
// InvalidSignatureError for a bad first line of a build-time key, UnverifiedNoteError if no build-time key signed.
// Stub keys (checksum verifiers) and real Ed25519 keys.

import (
	"bytes"
	"errors"
	"fmt"
	"strconv"
	"strings"

	"golang.org/x/mod/sumdb/note"
)

type c07AKey struct {
	k    c07Key
	v    note.Verifier
	sign func(text string) []byte
	desc string // stub verifier spec / real verifier key
}

// c07AList: a Verifiers value and the universe indices it was built from (in order, repeats possible).
type c07AList struct {
	vl    note.Verifiers
	built []int
}

func c07AliasUniverse(r *Rand, keys []c07Real, real bool) []c07AKey {
	var u []c07AKey
	used := map[c07Key]bool{}
	for want, try := 3+r.Intn(3), 0; len(u) < want && try < 60; try++ {
		if real {
			k := keys[r.Intn(len(keys))]
			ck := c07Key{k.name, k.verifier.KeyHash()}
			if used[ck] {
				continue
			}
			used[ck] = true
			signer := k.signer
			u = append(u, c07AKey{k: ck, v: k.verifier, desc: k.vkey,
				sign: func(t string) []byte { b, _ := signer.Sign([]byte(t)); return b }})
			continue
		}
		ck := c07Key{r.Pick(c07Names), c07PickHash(r)}
		if len(u) > 0 && r.Chance(30) {
			ck.name = u[r.Intn(len(u))].k.name // same name, another hash: another key
		}
		if len(u) > 0 && r.Chance(15) {
			ck.hash = u[r.Intn(len(u))].k.hash // same hash, another name: another key
		}
		if used[ck] || !c07NameOK(ck.name) {
			continue
		}
		used[ck] = true
		name := ck.name
		spec := c07KeySpec(ck, "f")
		u = append(u, c07AKey{k: ck, v: c07ParseVerifiers(spec, nil)[0], desc: spec,
			sign: func(t string) []byte { return c07StubSig(name, []byte(t)) }})
	}
	return u
}

func c07OracleAlias(g *Gen, keys []c07Real) {
	r := g.Rand
	text := c07GoodText(r)
	if !c07ValidText(text) {
		return
	}
	g.Case("alias-history")
	real := r.Chance(50)
	u := c07AliasUniverse(r, keys, real)
	if len(u) < 3 {
		return
	}
	var descs []string
	for i, k := range u {
		descs = append(descs, fmt.Sprintf("k%d=%s", i, k.desc))
	}
	var hist []string
	info := func(li int, extra string) string {
		return fmt.Sprintf("text=%s keys: %s history: %s; checked: L%d %s", hx(text), strings.Join(descs, " "), strings.Join(hist, "; "), li, extra)
	}
	idx := func(l []int) string {
		p := make([]string, len(l))
		for i, j := range l {
			p[i] = "k" + strconv.Itoa(j)
		}
		return "[" + strings.Join(p, " ") + "]"
	}

	// the caller's slice, and what it holds (universe indices)
	scratch := make([]note.Verifier, 0, 1+r.Intn(5))
	var holds []int
	var lists []c07AList

	build := func() {
		n := r.Intn(4)
		if len(lists) == 0 || r.Chance(70) {
			n = 1 + r.Intn(3)
		}
		dup := r.Chance(10) // a key given twice: ambiguous
		scratch, holds = scratch[:0], holds[:0]
		seen := map[int]bool{}
		for i := 0; i < n; i++ {
			j := r.Intn(len(u))
			if seen[j] && !dup {
				continue
			}
			seen[j] = true
			scratch = append(scratch, u[j].v)
			holds = append(holds, j)
		}
		lists = append(lists, c07AList{note.VerifierList(scratch...), append([]int(nil), holds...)})
		hist = append(hist, fmt.Sprintf("s=append(s[:0],%s...) L%d=VerifierList(s...)", idx(holds), len(lists)-1))
	}

	check := func(li int) {
		L := lists[li]
		cnt := map[c07Key]int{}
		for _, j := range L.built {
			cnt[u[j].k]++
		}
		// lookups
		for j, k := range u {
			v, err := L.vl.Verifier(k.k.name, k.k.hash)
			var ue *note.UnknownVerifierError
			what := ""
			switch c := cnt[k.k]; {
			case c == 0:
				if err == nil || v != nil {
					what = "a VerifierList finds a key it was not built from"
				} else if !errors.As(err, &ue) || ue.Name != k.k.name || ue.KeyHash != k.k.hash {
					what = "a VerifierList does not report a key it was not built from as UnknownVerifierError for that key"
				}
			case c == 1:
				if err != nil || v == nil {
					what = "a VerifierList no longer finds a key it was built from"
				} else if v != k.v {
					what = "a VerifierList returns another verifier than the one it was built from"
				}
			default:
				if err == nil || v != nil || errors.As(err, &ue) {
					what = "VerifierList with a duplicated key does not report it as ambiguous"
				}
			}
			if what != "" {
				g.Fail(what, info(li, fmt.Sprintf("built from %s, lookup of k%d", idx(L.built), j)))
				return
			}
		}
		// Open of a hand-built block signed by 1-3 keys of the universe (one signature possibly bad, a repeat)
		var lines []c07BLine
		ambiguous := false
		for n := 1 + r.Intn(3); n > 0; n-- {
			k := u[r.Intn(len(u))]
			if r.Chance(40) && len(holds) > 0 {
				k = u[holds[r.Intn(len(holds))]] // what the caller's slice holds NOW
			}
			if cnt[k.k] > 1 {
				ambiguous = true
			}
			lines = append(lines, c07BLine{k.k.name, k.k.hash, k.sign(text), ""})
		}
		if r.Chance(25) {
			i := r.Intn(len(lines))
			bad := append([]byte(nil), lines[i].sig...)
			bad[r.Intn(len(bad))] ^= byte(1 << uint(r.Intn(8)))
			lines[i].sig = bad
		}
		if r.Chance(15) {
			lines = append(lines, lines[r.Intn(len(lines))])
		}
		var b strings.Builder
		b.WriteString(text + "\n")
		for _, l := range lines {
			b.WriteString(c07SigLine(l.name, l.hash, l.sig))
		}
		msg := b.String()
		nt, err := note.Open([]byte(msg), L.vl)
		got := c07ShowOpen(nt, err)
		inf := info(li, fmt.Sprintf("built from %s, Open(msg=%s) got=%s", idx(L.built), hx(msg), got))
		if err != nil && nt != nil {
			g.Fail("Open returned both a note and an error", inf)
			return
		}
		if ambiguous {
			if err == nil {
				g.Fail("Open succeeded with an ambiguous known key", inf)
			}
			return
		}
		byKey := map[c07Key]*c07AKey{}
		for i := range u {
			byKey[u[i].k] = &u[i]
		}
		wantErr, wantV, wantU, badKey := c07ExpectBlock(lines,
			func(k c07Key) bool { return cnt[k] == 1 },
			func(l c07BLine) bool {
				k := byKey[c07Key{l.name, l.hash}]
				if real {
					return k.v.Verify([]byte(text), l.sig)
				}
				return bytes.Equal(l.sig, k.sign(text))
			})
		switch wantErr {
		case "":
			if err != nil {
				g.Fail("a message signed by a key the VerifierList was built from does not open", inf)
			} else if nt.Text != text || !c07SigEq(nt.Sigs, wantV) || !c07SigEq(nt.UnverifiedSigs, wantU) {
				g.Fail("wrong text or verified/unverified partition with respect to the keys the VerifierList was built from", inf)
			}
		case "invalidsig":
			var ie *note.InvalidSignatureError
			if err == nil {
				g.Fail("a bad signature of a key the VerifierList was built from did not make Open fail", inf)
			} else if !errors.As(err, &ie) || ie.Name != badKey.name || ie.Hash != badKey.hash {
				g.Fail("bad signature of a key the VerifierList was built from not reported as InvalidSignatureError for that key", inf)
			}
		case "unverified":
			var ue *note.UnverifiedNoteError
			if err == nil {
				g.Fail("a note signed only by keys the VerifierList was not built from opened", inf)
			} else if !errors.As(err, &ue) {
				g.Fail("note signed only by keys the VerifierList was not built from: expected UnverifiedNoteError", inf)
			} else if ue.Note.Text != text || !c07SigEq(ue.Note.UnverifiedSigs, wantU) || len(ue.Note.Sigs) != 0 {
				g.Fail("UnverifiedNoteError carries the wrong note", inf)
			}
		}
	}
	checkAll := func() {
		for li := range lists {
			check(li)
		}
	}

	build()
	checkAll()
	for steps := 2 + r.Intn(4); steps > 0; steps-- {
		switch op := r.Intn(10); {
		case op < 3 || len(scratch) == 0:
			build() // the scratch slice is re-filled for another list
		case op < 5: // an element is replaced
			i, j := r.Intn(len(scratch)), r.Intn(len(u))
			scratch[i], holds[i] = u[j].v, j
			hist = append(hist, fmt.Sprintf("s[%d]=k%d", i, j))
		case op < 6: // two elements are swapped / the slice is reversed (what a sort does)
			if r.Chance(50) {
				i, j := r.Intn(len(scratch)), r.Intn(len(scratch))
				scratch[i], scratch[j] = scratch[j], scratch[i]
				holds[i], holds[j] = holds[j], holds[i]
				hist = append(hist, fmt.Sprintf("swap s[%d],s[%d]", i, j))
			} else {
				for i, j := 0, len(scratch)-1; i < j; i, j = i+1, j-1 {
					scratch[i], scratch[j] = scratch[j], scratch[i]
					holds[i], holds[j] = holds[j], holds[i]
				}
				hist = append(hist, "reverse s")
			}
		case op < 8: // truncated, then appended to (overwrites the dropped tail in place)
			k, j := r.Intn(len(scratch)+1), r.Intn(len(u))
			scratch, holds = append(scratch[:k], u[j].v), append(holds[:k], j)
			hist = append(hist, fmt.Sprintf("s=append(s[:%d],k%d)", k, j))
		case op < 9: // an element is removed by shifting the tail down
			i := r.Intn(len(scratch))
			scratch, holds = append(scratch[:i], scratch[i+1:]...), append(holds[:i], holds[i+1:]...)
			hist = append(hist, fmt.Sprintf("s=append(s[:%d],s[%d:]...)", i, i+1))
		default: // grown past its capacity (a fresh backing array), then an element replaced
			for old := cap(scratch); cap(scratch) == old; {
				j := r.Intn(len(u))
				scratch, holds = append(scratch, u[j].v), append(holds, j)
			}
			j := r.Intn(len(u))
			scratch[0], holds[0] = u[j].v, j
			hist = append(hist, fmt.Sprintf("s grown to %d elements, s[0]=k%d", len(scratch), j))
		}
		checkAll()
		if len(g.st.Failures) >= 50 {
			return
		}
	}
}
