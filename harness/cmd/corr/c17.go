package main

// C17 — which files belong in a module zip is a fixed function of the tree.

import (
	"bytes"
	"os"
	"path"
	"path/filepath"
	"sort"
	"strings"
	"unicode"

	"golang.org/x/mod/module"
	modzip "golang.org/x/mod/zip"
)

func init() {
	impls["zip.isvendoredpackage"] = func(a []string) string {
		// isVendoredPackage is unexported: observe it through CheckFiles on a one-file list whose root go.mod
		// selects the go version; a vendored file is the only one omitted with "file is in vendor directory".
		name := unhx(a[0])
		gomod := "module example.com/m\ngo 1.23\n"
		if a[1] == "true" {
			gomod = "module example.com/m\ngo 1.24\n"
		}
		fs := []*zipuFile{{path: "go.mod", mode: 'r', size: int64(len(gomod)), content: []byte(gomod)}, {path: name, mode: 'r'}}
		cf, _ := modzip.CheckFiles(zipuAsFiles(fs))
		for _, o := range cf.Omitted {
			if o.Path == name && zipuReason(o.Err) == "vendored" {
				return "true"
			}
		}
		return "false"
	}
	impls["zip.strtofold"] = func(a []string) string {
		// strToFold is unexported; its contract `EqualFold(s,t) iff strToFold(s)==strToFold(t)` is what the
		// collision checker relies on.  The op returns the canonical representative computed with the
		// toolchain's unicode.SimpleFold exactly as the function does.
		return hx(c17StrToFold(unhx(a[0])))
	}
	// directory entry points called with a SPELLED directory argument (see c17Spellings): the same tree on
	// disk, named by a path that is not necessarily in filepath.Clean form.  The reported file system paths are
	// dir joined with the relative path, i.e. they start with the clean form of the argument.
	impls["zip.checkdirsp"] = func(a []string) string {
		fs := zipuParseFiles(a[2])
		tmp := zipuTemp()
		defer os.RemoveAll(tmp)
		root := filepath.Join(tmp, "root")
		if err := zipuMkTree(root, fs); err != nil {
			return "harness-error:" + hx(err.Error())
		}
		dir := c17SpellDir(root, a[0], fs)
		cf, err := modzip.CheckDir(dir)
		return zipuShowCf(cf, err, filepath.Clean(dir))
	}
	impls["zip.createfromdirsp"] = func(a []string) string {
		fs := zipuParseFiles(a[4])
		tmp := zipuTemp()
		defer os.RemoveAll(tmp)
		root := filepath.Join(tmp, "root")
		if err := zipuMkTree(root, fs); err != nil {
			return "harness-error:" + hx(err.Error())
		}
		var buf bytes.Buffer
		if err := modzip.CreateFromDir(&buf, module.Version{Path: unhx(a[1]), Version: unhx(a[2])}, c17SpellDir(root, a[0], fs)); err != nil {
			return zipuErrKind(err)
		}
		return zipuShowArchive(buf.Bytes())
	}
	register(&Prop{ID: "C17", Gen: genC17, Oracle: oracleC17,
		Rule: "file lists and real directory trees of depth <=4 from name pools (go.mod case variants, vendor layouts, nested modules, VCS dirs, regular FILES named .git/.hg/.svn/.bzr/vendor/LICENSE/.hg_archival.txt at the root and 1-2 levels down with siblings sorting on both sides, .hg_archival.txt, LICENSE, fold-colliding names incl. K/k/U+212A and s/S/U+017F, Windows reserved names, names with \\ : space .. ./x /abs a//b, invalid UTF-8), the directory argument of CheckDir/CreateFromDir spelled in 12 ways (clean, trailing separator(s), '.'/'..' elements, doubled separator, relative with and without './'), modes (regular, dir, symlink, pipe, lstat error), fake sizes at 16MiB+-1 and 500MiB+-1, 17 go.mod contents; non-trivial = at least one file is omitted or invalid, or a go.mod selects the go version; distinct by op line"})
}

func c17NonTrivial(out string) bool {
	return !strings.Contains(out, "omitted=_ invalid=_") || strings.Contains(out, "676f2e6d6f64")
}

func genC17(g *Gen, n int) {
	// fixed boundary cases first
	for _, name := range []string{"vendor/modules.txt", "vendor/x.go", "vendor/a/b.go", "pkg/vendor/vendor.go", "pkg/vendor/foo/foo.go",
		"a/vendor/b", "a/vendor/b/c", "vendor", "avendor/b/c", "a/b/vendor/c/d", "a/vendor/b/vendor/c.go",
		"abcdefg/vendor/x", "ab/vendor/x/vendor/y", "vendor/vendor", "vendor/vendor/vendor", "x/vendor/vendor", "x/vendor/abcdefgh"} {
		for _, ge := range []string{"true", "false"} {
			g.Emit("zip.isvendoredpackage "+hx(name)+" "+ge, true, "vendored-fixed")
		}
	}
	for _, s := range []string{"", "abc", "ABC", "KkK", "sSſ", "\xff", "a\xffB", "É", "ǅǆǄ", "ΣσςͅΙι", "ß", "İI", "\U00010400\U00010428", "\xed\xa0\x80", "a/B/c"} {
		g.Emit("zip.strtofold "+hx(s), true, "fold-fixed")
	}
	for _, s := range []string{"", ".", "..", "/", "//", "a//b", "a/./b", "a/../b", "../a", "/..", "/../a", "a/..", "a/b/../..", "a/b/../../..", "./x", "x/", "a/b/", "...", "a/.../b", "../../a/../b"} {
		g.Emit("zip.pathclean "+hx(s), true, "clean-fixed")
		g.Emit("zip.pathdir "+hx(s), true, "clean-fixed")
		g.Emit("zip.pathbase "+hx(s), true, "clean-fixed")
	}
	// every ASCII letter as the differing letter of a case-variant pair; the neighbours of the letter ranges
	for _, pr := range zipuFoldSweep() {
		g.Emit("zip.checkfiles "+zipuFilesTok(c17PairFiles(pr)), true, "fold-sweep")
		g.Emit("zip.strtofold "+hx(pr[0]), true, "fold-sweep")
		g.Emit("zip.strtofold "+hx(pr[1]), true, "fold-sweep")
	}
	// regular files with names that are special for directories / at the root, with siblings on both sides
	for _, fs := range c17SpecialFileSweep() {
		g.Emit("zip.checkdir "+c17DirGe124(fs)+" "+zipuDirFilesTok(fs), true, "special-file-sweep")
		g.Emit("zip.createfromdir "+hx("example.com/m")+" "+hx("v1.0.0")+" "+c17DirGe124(fs)+" "+zipuDirFilesTok(fs), true, "special-file-sweep")
	}
	// the directory argument in every spelling, on a few fixed trees (class "directory not in clean form")
	for _, fs := range c17SpellTrees() {
		for _, k := range c17Spellings {
			g.Emit("zip.checkdirsp "+k+" "+c17DirGe124(fs)+" "+zipuDirFilesTok(fs), true, "dir-spelling-sweep")
			g.Emit("zip.createfromdirsp "+k+" "+hx("example.com/m")+" "+hx("v1.0.0")+" "+c17DirGe124(fs)+" "+zipuDirFilesTok(fs), true, "dir-spelling-sweep")
		}
	}
	// the random stream keeps at least n/3 ops of its own, however large the sweeps above grow (today they are
	// about 1990 of the quick tier's 3500 ops, so this changes nothing)
	if n < g.st.Ops+n/3 {
		n = g.st.Ops + n/3
	}
	for i := 0; g.st.Ops < n; i++ {
		switch k := g.Intn(100); {
		case k < 50:
			fs := zipuGenFiles(g.Rand, zipuGenOpts{})
			line := "zip.checkfiles " + zipuFilesTok(fs)
			out := g.Emit(line, true, "checkfiles")
			_ = out
		case k < 72:
			fs := zipuGenFiles(g.Rand, zipuGenOpts{realFS: true, honest: true})
			c17Sparse(g.Rand, fs)
			g.Emit("zip.checkdir "+c17DirGe124(fs)+" "+zipuDirFilesTok(fs), true, "checkdir")
			if i%3 == 0 && c17SmallTree(fs) {
				// the same tree through a directory argument that is not in clean form; the spelling is taken
				// from the loop counter so that the random stream of the other cases is unchanged
				g.Emit("zip.checkdirsp "+c17Spellings[1+(i/3)%(len(c17Spellings)-1)]+" "+c17DirGe124(fs)+" "+zipuDirFilesTok(fs), true, "checkdir-spelled")
			}
		case k < 80:
			fs := zipuGenFiles(g.Rand, zipuGenOpts{realFS: true, honest: true})
			mp, mv := zipuPickMod(g.Rand, 5)
			g.Emit("zip.createfromdir "+hx(mp)+" "+hx(mv)+" "+c17DirGe124(fs)+" "+zipuDirFilesTok(fs), true, "createfromdir")
			if i%2 == 0 && c17SmallTree(fs) {
				g.Emit("zip.createfromdirsp "+c17Spellings[1+(i/2)%(len(c17Spellings)-1)]+" "+hx(mp)+" "+hx(mv)+" "+c17DirGe124(fs)+" "+zipuDirFilesTok(fs), true, "createfromdir-spelled")
			}
		case k < 88:
			name := c17VendorName(g.Rand)
			g.Emit("zip.isvendoredpackage "+hx(name)+" "+showBool(g.Bool()), true, "vendored")
		case k < 94:
			g.Emit("zip.strtofold "+hx(c17FoldString(g.Rand)), true, "fold")
		default:
			s := c17PathString(g.Rand)
			g.Emit(g.Pick([]string{"zip.pathclean ", "zip.pathclean ", "zip.pathdir ", "zip.pathbase "})+hx(s), true, "clean")
		}
	}
}

// ---- input class "special name as a REGULAR FILE" --------------------------------------------------
//
// Names that the package treats specially when they name a DIRECTORY (.git/.hg/.svn/.bzr: VCS metadata,
// skipped with SkipDir; vendor) or when they stand at the root (.hg_archival.txt, LICENSE) are ordinary
// file names when a regular file somewhere in the tree carries them (a gitlink file `.git` as written by
// `git submodule` / `git worktree`, a file called `vendor`, ...).  Such trees satisfy the precondition of
// the directory-vs-list clause (regular files and directories only, no VCS metadata DIRECTORY), so the
// directory entry points must treat them exactly as the list entry points do.
// Why it was missing: the oracle's tree generator ran with noVCS, which filters the four VCS names out of
// the element pool altogether — also where they would have become regular files — so the dir-vs-list
// oracle never saw a regular file with such a name (the correspondence generator, which does not filter,
// did).  What matters for observability is the POSITION: the walk visits a directory in sorted order, so a
// wrong decision taken at such a file can only show on the file itself and on siblings sorting after it;
// the family therefore places the file at the root and 1-2 levels down, always with sibling files and
// sibling directories sorting before and after it.
var c17SpecialFileNames = []string{".git", ".hg", ".svn", ".bzr", "vendor", ".hg_archival.txt", "LICENSE", "modules.txt"}

var c17SpecialFileLocs = []string{"", "lib/", "lib/sub/", "a b/K/"}

func c17Reg(p, content string) *zipuFile {
	return &zipuFile{path: p, mode: 'r', size: int64(len(content)), content: []byte(content)}
}

// c17SpecialFileTree: the regular file loc+name with siblings (files and directories) sorting before
// ('+' and '-' precede '.', letters and digits) and after it, in a module with other content on every
// level above.  Listed in no particular order: the tree is created on disk and walked.
func c17SpecialFileTree(name, loc, gomod string) []*zipuFile {
	fs := []*zipuFile{c17Reg("go.mod", gomod), c17Reg("m.go", "package m\n")}
	for d := loc; d != ""; {
		d = d[:strings.LastIndex(d[:len(d)-1], "/")+1]
		if d != "" {
			fs = append(fs, c17Reg(d+"-up.go", "package up\n"), c17Reg(d+"zup.go", "package zup\n"))
		}
	}
	if loc != "" {
		fs = append(fs, c17Reg("zroot/z.go", "package z\n"))
	}
	body := "gitdir: ../.git/modules/lib\n"
	if name == "LICENSE" {
		body = "license text\n"
	}
	fs = append(fs,
		c17Reg(loc+"-before.go", "package b\n"),
		c17Reg(loc+"+bdir/x.go", "package x\n"),
		c17Reg(loc+name, body),
		c17Reg(loc+name+"x", "next\n"), // the immediate successor of the name
		c17Reg(loc+"zafter.go", "package a\n"),
		c17Reg(loc+"zdir/s.go", "package s\n"),
		c17Reg(loc+"zdir/deep/t.go", "package t\n"),
		c17Reg(loc+"~last", ""))
	return fs
}

// c17SpecialFileSweep: every special name at every location, under both vendoring variants.
func c17SpecialFileSweep() [][]*zipuFile {
	var out [][]*zipuFile
	for _, loc := range c17SpecialFileLocs {
		for _, name := range c17SpecialFileNames {
			for _, gm := range []string{zipuGoMods[0], zipuGoMods[1]} {
				out = append(out, c17SpecialFileTree(name, loc, gm))
			}
		}
	}
	return out
}

// c17InjectSpecialFiles adds 1-3 regular files with special names to directories of an existing real tree
// (the root or any directory the tree already has, so that the random siblings of that directory sort on
// both sides of it), keeping the tree creatable: a name is only added where nothing has that path yet.
func c17InjectSpecialFiles(r *Rand, fs []*zipuFile) []*zipuFile {
	taken := map[string]bool{}
	dirs := []string{""}
	for _, f := range fs {
		taken[f.path] = true
		if f.mode == 'd' && !taken[f.path+"/"] {
			taken[f.path+"/"] = true
			dirs = append(dirs, f.path+"/")
		}
		for d := path.Dir(f.path); d != "."; d = path.Dir(d) {
			if !taken[d+"/"] {
				taken[d+"/"] = true
				taken[d] = true
				dirs = append(dirs, d+"/")
			}
		}
	}
	sort.Strings(dirs)
	for k := 1 + r.Intn(3); k > 0; k-- {
		d := dirs[r.Intn(len(dirs))]
		if r.Chance(30) {
			d = "" // a special file in the root hides the most
		}
		name := r.Pick(c17SpecialFileNames)
		if r.Chance(60) {
			name = r.Pick(c17SpecialFileNames[:4])
		}
		p := d + name
		if taken[p] || taken[p+"/"] {
			continue
		}
		taken[p] = true
		fs = append(fs, c17Reg(p, string(zipuContent(r, name))))
		if r.Chance(50) && !taken[d+"zz_after.go"] && !taken[d+"zz_after.go/"] {
			taken[d+"zz_after.go"] = true
			fs = append(fs, c17Reg(d+"zz_after.go", "package z\n"))
		}
	}
	return fs
}

// ---- input class "directory argument not in filepath.Clean form" -----------------------------------
//
// CheckDir / CreateFromDir take the directory as a PATH; which files belong in the zip is a function of the
// tree that path names, not of how the path is written.  filepath.Walk hands the root to the callback
// verbatim but builds every other path with filepath.Join (which cleans), so code that relates the two
// textually only works for arguments already in clean form.
// Why it was missing: every directory op and the dir-vs-list oracle built the argument with filepath.Join
// (clean, absolute).  The class spells the same on-disk directory in the ways a caller does: trailing
// separator(s), a '.' element at the end or in the middle, a '..' element (through the parent and, where
// the tree has one, through a sub-directory of the tree), a doubled separator, and relative to the working
// directory with and without a leading "./" or a trailing separator.  "clean" is the control.
var c17Spellings = []string{"clean", "trail", "trail2", "dotend", "dotmid", "dotdot", "subup", "dbl", "rel", "reltrail", "dotrel", "dotreltrail"}

// c17SpellDir writes the path of the existing directory root (clean, absolute) in the given way.
func c17SpellDir(root, kind string, fs []*zipuFile) string {
	sep := string(filepath.Separator)
	parent, base := filepath.Split(root) // parent ends in a separator
	rel := func() string {
		if cwd, err := os.Getwd(); err == nil {
			if r, err := filepath.Rel(cwd, root); err == nil {
				return r
			}
		}
		return root
	}
	switch kind {
	case "trail":
		return root + sep
	case "trail2":
		return root + sep + sep
	case "dotend":
		return root + sep + "."
	case "dotmid":
		return parent + "." + sep + base
	case "dotdot":
		return root + sep + ".." + sep + base
	case "subup":
		// down into the first top-level sub-directory of the tree and up again
		for _, f := range fs {
			el := f.path
			if i := strings.IndexByte(el, '/'); i >= 0 {
				el = el[:i]
			} else if f.mode != 'd' {
				continue
			}
			if el == "" || el == "." || el == ".." {
				continue
			}
			if info, err := os.Lstat(filepath.Join(root, el)); err == nil && info.IsDir() {
				return root + sep + el + sep + ".." + sep
			}
		}
		return root + sep + ".." + sep + base + sep
	case "dbl":
		return parent + sep + base
	case "rel":
		return rel()
	case "reltrail":
		return rel() + sep
	case "dotrel":
		return "." + sep + rel()
	case "dotreltrail":
		return "." + sep + rel() + sep
	}
	return root
}

// c17SpellTrees: the fixed trees of the spelling sweep: one with every kind of content the directory entry
// points decide on (vendor layouts, a nested module, an unacceptable name, LICENSE), one without go.mod, the
// empty tree, and one tree of the special-file family.
func c17SpellTrees() [][]*zipuFile {
	return [][]*zipuFile{
		{c17Reg("go.mod", zipuGoMods[1]), c17Reg("m.go", "package m\n"), c17Reg("LICENSE", "free\n"), c17Reg("pkg/p.go", "package pkg\n"),
			c17Reg("pkg/vendor/v.go", "package vendor\n"), c17Reg("vendor/modules.txt", "# x\n"), c17Reg("vendor/example.com/x.go", "package x\n"),
			c17Reg("sub/go.mod", "module example.com/m/sub\n"), c17Reg("sub/s.go", "package sub\n"), c17Reg("bad name'.go", "package m\n")},
		{c17Reg("a.go", "package a\n"), c17Reg("d/b.go", "package b\n"), c17Reg("d/e/c.go", "package c\n")},
		nil,
		c17SpecialFileTree(".git", "lib/", zipuGoMods[0]),
	}
}

// c17SmallTree: no file of the tree is padded to a size limit (such trees are expensive to create twice).
func c17SmallTree(fs []*zipuFile) bool {
	for _, f := range fs {
		if f.size > 1<<20 {
			return false
		}
	}
	return true
}

// c17Sparse occasionally turns one size-limited file of a real tree into a sparse file at the 16 MiB boundary.
func c17Sparse(r *Rand, fs []*zipuFile) {
	if !r.Chance(4) {
		return
	}
	for _, f := range fs {
		if f.mode == 'r' && (f.path == "LICENSE" || (f.path == "go.mod" && thorough)) {
			f.size = []int64{zipu16M - 1, zipu16M, zipu16M + 1}[r.Intn(3)]
			if f.path == "LICENSE" {
				f.content = nil
			}
			return
		}
	}
}

// c17DirGe124: the flag listFilesInDir derives with os.ReadFile(dir/go.mod): the root go.mod must be
// a regular file (a symlink in the generated trees dangles, a pipe is never used for go.mod here).
func c17DirGe124(fs []*zipuFile) string {
	for _, f := range fs {
		if f.path == "go.mod" && f.mode == 'r' {
			return showBool(zipuGe124(zipuDiskContent(f)))
		}
	}
	return "false"
}

func c17VendorName(r *Rand) string {
	parts := []string{"vendor", "vendor", "a", "b", "pkg", "x.go", "modules.txt", "vendor.go", "vendorx", "xvendor", "", "abcdefgh"}
	// isVendoredPackage is observed through CheckFiles, which only consults it for clean relative paths
	for {
		n := 1 + r.Intn(5)
		el := make([]string, n)
		for i := range el {
			el[i] = r.Pick(parts)
		}
		s := strings.Join(el, "/")
		if s != "" && s == path.Clean(s) && !path.IsAbs(s) {
			return s
		}
	}
}

func c17FoldString(r *Rand) string {
	runes := []string{"a", "A", "k", "K", "K", "s", "S", "ſ", "é", "É", "ß", "ẞ", "µ", "Μ", "μ", "ǅ", "ǆ", "Ǆ", "σ", "ς", "Σ", "ι", "ͅ", "Ι", "ι",
		"İ", "ı", "i", "I", "Å", "Å", "å", "\U00010400", "\U00010428", "\U0001E900", "\U0001E922", "日", "/", ".", "\xff", "\xc0", "\x80", "\xed\xa0\x80", "Ω", "Ω", "ω", "ᲀ", "в", "В", "Ꙋ", "ꙋ", "ᲈ"}
	n := r.Intn(6)
	var b strings.Builder
	for i := 0; i < n; i++ {
		b.WriteString(r.Pick(runes))
	}
	return b.String()
}

func c17PathString(r *Rand) string {
	parts := []string{"a", "b", "..", ".", "", "...", "x.go", "..a", "a..", " "}
	n := r.Intn(6)
	el := make([]string, n)
	for i := range el {
		el[i] = r.Pick(parts)
	}
	s := strings.Join(el, "/")
	if r.Chance(25) {
		s = "/" + s
	}
	if r.Chance(15) {
		s += "/"
	}
	return s
}

// c17StrToFold: the documented computation of strToFold with the toolchain's tables.
func c17StrToFold(s string) string {
	ascii := true
	for i := 0; i < len(s); i++ {
		if s[i] >= 0x80 || 'A' <= s[i] && s[i] <= 'Z' {
			ascii = false
		}
	}
	if ascii {
		return s
	}
	var buf bytes.Buffer
	for _, r := range s {
		buf.WriteRune(c17FoldMin(r))
	}
	return buf.String()
}

func c17FoldMin(r rune) rune {
	for {
		r0 := r
		r = unicode.SimpleFold(r0)
		if r <= r0 {
			break
		}
	}
	if 'A' <= r && r <= 'Z' {
		r += 'a' - 'A'
	}
	return r
}

// ---------------------------------------------------------------------------------------------
// Oracle: the property on the implementation alone.

type c17Class struct {
	list   string // valid / omitted / invalid
	reason string
}

// c17Classify is an independent statement of the documented rules for a list without repeated paths:
// written over path components and pairwise strings.EqualFold (not over strToFold keys).
func c17Classify(fs []*zipuFile) (map[string]c17Class, bool) {
	// go version: the root go.mod of the list
	ge124 := false
	for _, f := range fs {
		if f.path == "go.mod" && f.mode == 'r' {
			ge124 = zipuGe124(f.content)
		}
	}
	// directories that are module roots: they hold a regular file whose name is go.mod in any case
	modRoot := map[string]bool{}
	for _, f := range fs {
		if f.mode != 'r' {
			continue
		}
		if i := strings.LastIndex(f.path, "/"); i >= 0 && strings.EqualFold(f.path[i+1:], "go.mod") {
			modRoot[f.path[:i]] = true
		}
	}
	vendored := func(p string) bool {
		if ge124 && p == "vendor/modules.txt" {
			return true
		}
		el := strings.Split(p, "/")
		if el[0] == "vendor" && len(el) >= 2 {
			return len(el) >= 3 // vendor/<pkg>/<file>
		}
		// first interior "vendor" element that is followed by something
		for k := 1; k+1 < len(el); k++ {
			if el[k] == "vendor" {
				if ge124 {
					return len(el)-(k+1) >= 2
				}
				// golang.org/issue/37397: before 1.24 the package part was taken to start 8 bytes into the name
				return strings.Contains(p[len("/vendor/"):], "/")
			}
		}
		return false
	}
	type reg struct {
		path  string
		isDir bool
	}
	var seen []reg
	lookup := func(p string) (reg, bool) {
		for _, r := range seen {
			if strings.EqualFold(r.path, p) {
				return r, true
			}
		}
		return reg{}, false
	}
	var collide func(p string, isDir bool) string
	collide = func(p string, isDir bool) string {
		if o, ok := lookup(p); ok {
			switch {
			case o.path != p:
				return "casecollision"
			case o.isDir != isDir:
				return "fileanddir"
			case !isDir:
				return "multiple"
			}
		} else {
			seen = append(seen, reg{p, isDir})
		}
		if i := strings.LastIndex(p, "/"); i >= 0 {
			return collide(p[:i], true)
		}
		return ""
	}
	out := map[string]c17Class{}
	sizeErr := false
	remaining := int64(modzip.MaxZipFile)
	for _, f := range fs {
		p := f.path
		set := func(list, reason string) { out[p] = c17Class{list, reason} }
		inSub := false
		for d := p; ; {
			i := strings.LastIndex(d, "/")
			if i < 0 {
				break
			}
			d = d[:i]
			if d != "" && modRoot[d] {
				inSub = true
			}
		}
		switch {
		case f.mode == 'e' && strings.EqualFold(path.Base("x/"+p), "go.mod") && !strings.HasSuffix(p, "/"):
			// a go.mod (any case) that cannot be examined is reported before anything else
			set("invalid", "lstat")
		case p != path.Clean(p):
			set("invalid", "notclean")
		case strings.HasPrefix(p, "/"):
			set("invalid", "notrelative")
		case vendored(p):
			set("omitted", "vendored")
		case inSub:
			set("omitted", "submodulefile")
		case p == ".hg_archival.txt":
			set("omitted", "hgarchival")
		case module.CheckFilePath(p) != nil:
			set("invalid", "filepath")
		case strings.EqualFold(p, "go.mod") && p != "go.mod":
			set("invalid", "gomodcase")
		case f.mode == 'e':
			set("invalid", "lstat")
		default:
			if c := collide(p, f.mode == 'd'); c != "" {
				set("invalid", c)
				continue
			}
			if f.mode == 's' {
				set("omitted", "symlink")
				continue
			}
			if f.mode != 'r' {
				set("omitted", "notregular")
				continue
			}
			if f.size < 0 || f.size > remaining {
				sizeErr = true
			} else {
				remaining -= f.size
			}
			switch {
			case p == "go.mod" && f.size > modzip.MaxGoMod:
				set("invalid", "gomodsize")
			case p == "LICENSE" && f.size > modzip.MaxLICENSE:
				set("invalid", "licensesize")
			default:
				set("valid", "")
			}
		}
	}
	return out, sizeErr
}

func c17Observed(cf modzip.CheckedFiles, strip string) (map[string][]c17Class, int) {
	obs := map[string][]c17Class{}
	for _, v := range cf.Valid {
		v = zipuStrip(v, strip)
		obs[v] = append(obs[v], c17Class{"valid", ""})
	}
	for _, o := range cf.Omitted {
		p := zipuStrip(o.Path, strip)
		obs[p] = append(obs[p], c17Class{"omitted", zipuReason(o.Err)})
	}
	for _, o := range cf.Invalid {
		p := zipuStrip(o.Path, strip)
		obs[p] = append(obs[p], c17Class{"invalid", zipuReason(o.Err)})
	}
	return obs, len(cf.Valid) + len(cf.Omitted) + len(cf.Invalid)
}

func c17DedupFiles(fs []*zipuFile) []*zipuFile {
	seen := map[string]bool{}
	var out []*zipuFile
	for _, f := range fs {
		if !seen[f.path] {
			seen[f.path] = true
			out = append(out, f)
		}
	}
	return out
}

func c17SetOf(l []string) string {
	s := append([]string{}, l...)
	sort.Strings(s)
	return strings.Join(s, "\x00")
}

func c17ErrSet(l []modzip.FileError, strip string) string {
	var s []string
	for _, e := range l {
		s = append(s, zipuStrip(e.Path, strip)+"\x01"+zipuReason(e.Err))
	}
	sort.Strings(s)
	return strings.Join(s, "\x00")
}

// c17PairFiles: two regular one-byte files with the given paths.
func c17PairFiles(pr [2]string) []*zipuFile {
	return []*zipuFile{{path: pr[0], mode: 'r', size: 1, content: []byte("x")}, {path: pr[1], mode: 'r', size: 1, content: []byte("y")}}
}

// c17OracleList: partition and classification on one duplicate-free list.
func c17OracleList(g *Gen, fs []*zipuFile) {
	for once := true; once; once = false {
		line := "zip.checkfiles " + zipuFilesTok(fs)
		cf, err := modzip.CheckFiles(zipuAsFiles(fs))
		obs, total := c17Observed(cf, "")
		g.Case("partition")
		bad := total != len(fs)
		for _, f := range fs {
			if len(obs[f.path]) != 1 {
				bad = true
			}
		}
		if bad {
			g.Fail("C17 partition: a file of a duplicate-free list is not in exactly one of Valid/Omitted/Invalid", "", line)
			continue
		}
		g.Case("classify")
		want, wantSize := c17Classify(fs)
		for _, f := range fs {
			o := obs[f.path][0]
			w := want[f.path]
			if o != w {
				g.Fail("C17 classify: CheckFiles disagrees with the documented rules", "path "+hx(f.path)+" got "+o.list+"/"+o.reason+" want "+w.list+"/"+w.reason, line)
				break
			}
		}
		if wantSize != (cf.SizeError != nil) {
			g.Fail("C17 classify: SizeError disagrees with the documented total-size rule", "", line)
		}
		// Err is SizeError, else the invalid list, else nil
		wantErr := cf.SizeError != nil || len(cf.Invalid) > 0
		if (err != nil) != wantErr {
			g.Fail("C17 classify: CheckFiles error does not match the report", "", line)
		}
	}
}

func oracleC17(g *Gen, n int) {
	// (1)+(2): partition and classification on duplicate-free lists
	for _, pr := range zipuFoldSweep() {
		c17OracleList(g, c17PairFiles(pr))
	}
	for i := 0; i < n*2/3; i++ {
		c17OracleList(g, c17DedupFiles(zipuGenFiles(g.Rand, zipuGenOpts{})))
	}
	// (3): directory vs list, on real trees of regular files and directories without VCS directories
	for i := 0; i < n/3; i++ {
		fs := zipuGenFiles(g.Rand, zipuGenOpts{realFS: true, plainOnly: true, noVCS: true, honest: true})
		c17OracleDir(g, fs)
	}
	// (3) on the class "special name as a regular file" (see c17SpecialFileNames): the exhaustive small sweep,
	// then random trees with such files injected next to their random siblings.  Kept in loops of their own
	// after the ones above so that the random streams of the earlier cases are unchanged.
	for _, fs := range c17SpecialFileSweep() {
		c17OracleDir(g, fs)
	}
	for i := 0; i < n/6; i++ {
		fs := zipuGenFiles(g.Rand, zipuGenOpts{realFS: true, plainOnly: true, noVCS: true, honest: true})
		c17OracleDir(g, c17InjectSpecialFiles(g.Rand, fs))
	}
	// (3) on the class "directory argument not in clean form" (see c17Spellings): every spelling on the fixed
	// trees, then two spellings on random trees.  Again in loops of their own at the end.
	for _, fs := range c17SpellTrees() {
		c17OracleDirSpelled(g, fs, c17Spellings)
	}
	for i := 0; i < n/6; i++ {
		fs := zipuGenFiles(g.Rand, zipuGenOpts{realFS: true, plainOnly: true, noVCS: true, honest: true})
		if i%4 == 0 {
			fs = c17InjectSpecialFiles(g.Rand, fs)
		}
		c17OracleDirSpelled(g, fs, []string{c17Spellings[1+g.Intn(len(c17Spellings)-1)], c17Spellings[1+g.Intn(len(c17Spellings)-1)]})
	}
}

// c17OracleDirSpelled: clause (3) with the directory named by a path in each of the given spellings.  The
// file system paths CheckDir reports are dir joined with the relative path; they are compared after
// filepath.Clean and with the clean form of dir removed.
func c17OracleDirSpelled(g *Gen, fs []*zipuFile, kinds []string) {
	tmp := zipuTemp()
	defer os.RemoveAll(tmp)
	root := filepath.Join(tmp, "root")
	if err := zipuMkTree(root, fs); err != nil {
		return
	}
	mp, mv := zipuPickMod(g.Rand, 3)
	m := module.Version{Path: mp, Version: mv}
	var list []*zipuFile
	filepath.Walk(root, func(p string, info os.FileInfo, err error) error {
		if err == nil && info.Mode().IsRegular() {
			rel, _ := filepath.Rel(root, p)
			data, _ := os.ReadFile(p)
			list = append(list, &zipuFile{path: filepath.ToSlash(rel), mode: 'r', size: info.Size(), content: data})
		}
		return nil
	})
	cfl, errl := modzip.CheckFiles(zipuAsFiles(list))
	var bl bytes.Buffer
	el := modzip.Create(&bl, m, zipuAsFiles(list))
	for _, k := range kinds {
		dir := c17SpellDir(root, k, fs)
		strip := filepath.Clean(dir)
		line := "zip.checkdirsp " + k + " " + c17DirGe124(fs) + " " + zipuDirFilesTok(fs)
		line2 := "zip.createfromdirsp " + k + " " + hx(mp) + " " + hx(mv) + " " + c17DirGe124(fs) + " " + zipuDirFilesTok(fs)
		info := "directory argument spelled " + k
		g.Case("dir-vs-list-spelled")
		cfd, errd := modzip.CheckDir(dir)
		vd := make([]string, len(cfd.Valid))
		for i, v := range cfd.Valid {
			vd[i] = filepath.ToSlash(zipuStrip(filepath.Clean(v), strip))
		}
		var id []modzip.FileError
		for _, e := range cfd.Invalid {
			id = append(id, modzip.FileError{Path: filepath.ToSlash(zipuStrip(filepath.Clean(e.Path), strip)), Err: e.Err})
		}
		if c17SetOf(vd) != c17SetOf(cfl.Valid) {
			g.Fail("C17 dir-vs-list: CheckDir on a directory path not in clean form and CheckFiles report different valid files", info, line)
			continue
		}
		if c17ErrSet(id, "") != c17ErrSet(cfl.Invalid, "") {
			g.Fail("C17 dir-vs-list: CheckDir on a directory path not in clean form and CheckFiles report different invalid files", info, line)
			continue
		}
		if (errd == nil) != (errl == nil) {
			g.Fail("C17 dir-vs-list: CheckDir on a directory path not in clean form and CheckFiles do not fail together", info, line)
			continue
		}
		g.Case("createfromdir-vs-create-spelled")
		var bd bytes.Buffer
		ed := modzip.CreateFromDir(&bd, m, dir)
		if (ed == nil) != (el == nil) {
			g.Fail("C17 dir-vs-list: CreateFromDir on a directory path not in clean form and Create do not succeed or fail together", info+": "+zipuErrKind(ed)+" vs "+zipuErrKind(el), line2)
			continue
		}
		if ed == nil {
			a, b := strings.Split(strings.TrimPrefix(zipuShowArchive(bd.Bytes()), "ok "), ","), strings.Split(strings.TrimPrefix(zipuShowArchive(bl.Bytes()), "ok "), ",")
			if c17SetOf(a) != c17SetOf(b) {
				g.Fail("C17 dir-vs-list: CreateFromDir on a directory path not in clean form and Create include different files or contents", info, line2)
			}
		}
	}
}

func c17OracleDir(g *Gen, fs []*zipuFile) {
	tmp := zipuTemp()
	defer os.RemoveAll(tmp)
	root := filepath.Join(tmp, "root")
	if err := zipuMkTree(root, fs); err != nil {
		return
	}
	mp, mv := zipuPickMod(g.Rand, 3)
	m := module.Version{Path: mp, Version: mv}
	line := "zip.checkdir " + c17DirGe124(fs) + " " + zipuDirFilesTok(fs)
	line2 := "zip.createfromdir " + hx(mp) + " " + hx(mv) + " " + c17DirGe124(fs) + " " + zipuDirFilesTok(fs)
	// the list of its files: every regular file found on disk, in walk order, read back from disk
	var list []*zipuFile
	filepath.Walk(root, func(p string, info os.FileInfo, err error) error {
		if err == nil && info.Mode().IsRegular() {
			rel, _ := filepath.Rel(root, p)
			data, _ := os.ReadFile(p)
			list = append(list, &zipuFile{path: filepath.ToSlash(rel), mode: 'r', size: info.Size(), content: data})
		}
		return nil
	})
	g.Case("dir-vs-list")
	cfd, errd := modzip.CheckDir(root)
	cfl, errl := modzip.CheckFiles(zipuAsFiles(list))
	vd := make([]string, len(cfd.Valid))
	for i, v := range cfd.Valid {
		vd[i] = zipuStrip(v, root)
	}
	if c17SetOf(vd) != c17SetOf(cfl.Valid) {
		g.Fail("C17 dir-vs-list: CheckDir and CheckFiles report different valid files", "", line)
		return
	}
	if c17ErrSet(cfd.Invalid, root) != c17ErrSet(cfl.Invalid, "") {
		g.Fail("C17 dir-vs-list: CheckDir and CheckFiles report different invalid files", "", line)
		return
	}
	if (errd == nil) != (errl == nil) {
		g.Fail("C17 dir-vs-list: CheckDir and CheckFiles do not fail together", "", line)
		return
	}
	g.Case("createfromdir-vs-create")
	var bd, bl bytes.Buffer
	ed := modzip.CreateFromDir(&bd, m, root)
	el := modzip.Create(&bl, m, zipuAsFiles(list))
	if (ed == nil) != (el == nil) {
		g.Fail("C17 dir-vs-list: CreateFromDir and Create do not succeed or fail together", zipuErrKind(ed)+" vs "+zipuErrKind(el), line2)
		return
	}
	if ed == nil {
		a, b := strings.Split(strings.TrimPrefix(zipuShowArchive(bd.Bytes()), "ok "), ","), strings.Split(strings.TrimPrefix(zipuShowArchive(bl.Bytes()), "ok "), ",")
		if c17SetOf(a) != c17SetOf(b) {
			g.Fail("C17 dir-vs-list: CreateFromDir and Create include different files or contents", "", line2)
			return
		}
	}
	// a list in another order: without collisions the report is the same set
	if len(cfl.Invalid) == 0 && len(list) > 1 {
		g.Case("order")
		sh := append([]*zipuFile{}, list...)
		for i := len(sh) - 1; i > 0; i-- {
			j := g.Intn(i + 1)
			sh[i], sh[j] = sh[j], sh[i]
		}
		cfs, _ := modzip.CheckFiles(zipuAsFiles(sh))
		if c17SetOf(cfs.Valid) != c17SetOf(cfl.Valid) || c17ErrSet(cfs.Invalid, "") != c17ErrSet(cfl.Invalid, "") || c17ErrSet(cfs.Omitted, "") != c17ErrSet(cfl.Omitted, "") {
			g.Fail("C17 order: a collision-free list classifies differently in another order", "", "zip.checkfiles "+zipuFilesTok(sh))
		}
	}
}
