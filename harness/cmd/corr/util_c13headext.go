package main

// util_c13headext.go — C13: signed tree heads in the FORWARD-COMPATIBLE encoding.
//
// Input class (added because it was missing: every signed head of every world comes out of tlog.FormatTree through the
// real server code, i.e. its text is exactly the three lines "go.sum database tree / N / hash".  tlog.FormatTree and
// tlog.ParseTree document that a backwards-compatible encoding may carry additional lines after the hash, which the
// parser ignores; such a head is a validly signed head of the same tree.  With three-line heads only, "the bytes the
// client keeps / stores / reports for a head" and "a re-encoding of the tree it parsed from them" cannot be told apart).
//
// Fault kind `headext/<variant>` (dispatched from clFault.apply): the signed head of a response — the tree note of a
// lookup response, or a bare /latest — is re-issued BY THE SAME SIGNER (the configured key for the true logs, the
// attacker's key for a forged log) over the same tree, with additional text lines after the hash line.  Nothing is
// corrupted: the result is an honest head of the log it came from, so every clause of C13 applies unchanged — what is
// written to the configuration is a validly signed head of a true log (clCheckAuthentic, clCheckTimeline), a restarted
// or second client on that configuration goes on, a fork report carries both signed heads (clCheckSecurity).
//
//	ts    one extra line   ("timestamp 1569000000")
//	two   two extra lines
//
// c13HeadExtCases runs the fork enumeration of c13.go (long-lived / restarted / warm / second client / fresh client
// shown the fork first / concurrent shapes / stale replays) with every lookup response carrying such a head.

import (
	"fmt"
	"strings"

	"golang.org/x/mod/sumdb/note"
	"golang.org/x/mod/sumdb/tlog"
)

func clHeadExtApply(e *clEnv, variant string, honest []byte, herr error) ([]byte, error, bool) {
	var extra string
	switch variant {
	case "ts":
		extra = "timestamp 1569000000\n"
	case "two":
		extra = "timestamp 1569000000\nwitness-policy example.org/policy v1\n"
	default:
		return nil, nil, false
	}
	if herr != nil {
		return honest, herr, true
	}
	msg, pre := honest, []byte(nil)
	if _, _, rest, err := tlog.ParseRecord(honest); err == nil {
		if len(rest) == 0 {
			return honest, nil, true
		}
		msg, pre = rest, honest[:len(honest)-len(rest)]
	}
	key := e.w.skey
	n, err := note.Open(msg, note.VerifierList(e.w.verifier))
	if err != nil {
		key = e.w.akey
		if n, err = note.Open(msg, note.VerifierList(e.w.averifier)); err != nil {
			return honest, nil, true // not a signed head (a tile, a mutated response): no-op
		}
	}
	if _, err := tlog.ParseTree([]byte(n.Text)); err != nil {
		return honest, nil, true
	}
	signer, err := note.NewSigner(key)
	if err != nil {
		panic(err)
	}
	out, err := note.Sign(&note.Note{Text: n.Text + extra}, signer)
	if err != nil {
		panic(err)
	}
	return append(append([]byte(nil), pre...), out...), nil, true
}

func c13HeadExtCases(g *Rand) []c13Case {
	maxN, heights, keep := 8, []int{1, 2}, 20
	if thorough {
		maxN, heights, keep = 20, []int{1, 2, 3, 5}, 4
	}
	wseed := g.U64()%1000 + 1
	var cases []c13Case
	k := 0
	for nA := 2; nA <= maxN; nA++ {
		for p := 0; p <= nA; p++ {
			if thorough && nA > 10 && g.Intn(nA/3) != 0 {
				continue
			}
			nB := []int{p + 1, nA, nA + 1 + g.Intn(3)}[g.Intn(3)]
			if nB <= p {
				continue
			}
			h := heights[g.Intn(len(heights))]
			variant := []string{"ts", "ts", "two"}[g.Intn(3)]
			c13Enumerate(g, wseed, nA, p, nB, h, func(c c13Case) {
				k++
				if k%keep != 0 {
					return // the enumeration is large: one scenario in `keep`, across all of its shapes
				}
				f := strings.Fields(c.line)
				if len(f) < 4 {
					return
				}
				line := strings.Join(f[:3], " ") + fmt.Sprintf(" f+=L/headext/%s ", variant) + strings.Join(f[3:], " ")
				cases = append(cases, c13Case{line, "headext/" + variant + "/" + strings.SplitN(c.tag, "/", 2)[0]})
			})
		}
	}
	return cases
}
