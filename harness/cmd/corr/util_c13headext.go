package main

// util_c13headext.go — C13: signed tree heads in the FORWARD-COMPATIBLE encoding.
//
// Input class (added because it was missing: every signed head of every world comes out of tlog.FormatTree through the
// real server code, i.e. its text is exactly the three lines "go.sum database tree / N / hash".  tlog.FormatTree and
// tlog.ParseTree document that a backwards-compatible encoding may carry additional lines after the hash, which the
// parser ignores; such a head is a validly signed head of the same tree.  With three-line heads only, "the bytes the
// client keeps / stores / reports for a head" and "a re-encoding of the tree it parsed from them" cannot be told apart).
//
// Fault kind `headext/<variant>` (dispatched from clFault.apply): the signed head of a response — the tree note of a
// lookup response, or a bare /latest — is re-issued BY THE SAME SIGNER (the configured key for the true logs, the
// attacker's key for a forged log) over the same tree, with additional text lines after the hash line.  Nothing is
// corrupted: the result is an honest head of the log it came from, so every clause of C13 applies unchanged — what is
// written to the configuration is a validly signed head of a true log (clCheckAuthentic, clCheckTimeline), a restarted
// or second client on that configuration goes on, a fork report carries both signed heads (clCheckSecurity).
//
//	ts       one extra line   ("timestamp 1569000000")
//	two      two extra lines
//	pad<N>   as many extra lines (64 bytes each) as it takes for the signed head to be at least N bytes long
//
// c13HeadExtCases runs the fork enumeration of c13.go (long-lived / restarted / warm / second client / fresh client
// shown the fork first / concurrent shapes / stale replays) with every lookup response carrying such a head.
//
// c13LongHeadCases — the SIZE of a signed head as an input dimension (see there).

import (
	"bytes"
	"fmt"
	"strconv"
	"strings"

	"golang.org/x/mod/sumdb/note"
	"golang.org/x/mod/sumdb/tlog"
)

func clHeadExtApply(e *clEnv, variant string, honest []byte, herr error) ([]byte, error, bool) {
	var extra string
	padTo := 0
	switch {
	case variant == "ts":
		extra = "timestamp 1569000000\n"
	case variant == "two":
		extra = "timestamp 1569000000\nwitness-policy example.org/policy v1\n"
	case strings.HasPrefix(variant, "pad"):
		n, err := strconv.Atoi(variant[3:])
		if err != nil || n < 0 || n > 1<<21 {
			return nil, nil, false
		}
		padTo = n
	default:
		return nil, nil, false
	}
	if herr != nil {
		return honest, herr, true
	}
	msg, pre := honest, []byte(nil)
	if _, _, rest, err := tlog.ParseRecord(honest); err == nil {
		if len(rest) == 0 {
			return honest, nil, true
		}
		msg, pre = rest, honest[:len(honest)-len(rest)]
	}
	key := e.w.skey
	n, err := note.Open(msg, note.VerifierList(e.w.verifier))
	if err != nil {
		key = e.w.akey
		if n, err = note.Open(msg, note.VerifierList(e.w.averifier)); err != nil {
			return honest, nil, true // not a signed head (a tile, a mutated response): no-op
		}
	}
	if _, err := tlog.ParseTree([]byte(n.Text)); err != nil {
		return honest, nil, true
	}
	if padTo > 0 {
		// 64-byte lines "x-ext-000017 wwww…w\n"; at least one, then until the signed head has reached padTo bytes
		// (the head grows by exactly the bytes added to its text)
		var b strings.Builder
		for i := 0; i == 0 || len(msg)+b.Len() < padTo; i++ {
			l := fmt.Sprintf("x-ext-%06d ", i)
			b.WriteString(l + strings.Repeat("w", 63-len(l)) + "\n")
		}
		extra = b.String()
	}
	signer, err := note.NewSigner(key)
	if err != nil {
		panic(err)
	}
	out, err := note.Sign(&note.Note{Text: n.Text + extra}, signer)
	if err != nil {
		panic(err)
	}
	return append(append([]byte(nil), pre...), out...), nil, true
}

func c13HeadExtCases(g *Rand) []c13Case {
	maxN, heights, keep := 8, []int{1, 2}, 20
	if thorough {
		maxN, heights, keep = 20, []int{1, 2, 3, 5}, 4
	}
	wseed := g.U64()%1000 + 1
	var cases []c13Case
	k := 0
	for nA := 2; nA <= maxN; nA++ {
		for p := 0; p <= nA; p++ {
			if thorough && nA > 10 && g.Intn(nA/3) != 0 {
				continue
			}
			nB := []int{p + 1, nA, nA + 1 + g.Intn(3)}[g.Intn(3)]
			if nB <= p {
				continue
			}
			h := heights[g.Intn(len(heights))]
			variant := []string{"ts", "ts", "two"}[g.Intn(3)]
			c13Enumerate(g, wseed, nA, p, nB, h, func(c c13Case) {
				k++
				if k%keep != 0 {
					return // the enumeration is large: one scenario in `keep`, across all of its shapes
				}
				f := strings.Fields(c.line)
				if len(f) < 4 {
					return
				}
				line := strings.Join(f[:3], " ") + fmt.Sprintf(" f+=L/headext/%s ", variant) + strings.Join(f[3:], " ")
				cases = append(cases, c13Case{line, "headext/" + variant + "/" + strings.SplitN(c.tag, "/", 2)[0]})
			})
		}
	}
	return cases
}

// c13LongHeadCases — the SIZE of a signed tree head as an input dimension.
//
// Input class (added because it was missing: every signed head of every scenario was a "small" note — the three-line
// head of FormatTree with one signature, about 200 bytes, or that head with one or two short extra lines (variants ts /
// two above), under 300 bytes.  Nothing in the formats bounds a head to that: the text may carry any number of
// additional lines after the hash (tlog.ParseTree ignores them), and a note may carry up to 100 signature lines, those of
// keys the client does not know being ignored (co-signatures, util_clsigs.go).  So whatever the client does with the
// BYTES of a head — keep them, write them to the configuration, hand them to the security callback — was only ever
// observed on notes far shorter than any buffer, line or echo bound an implementation might have).
//
// The fork enumeration of c13.go is run with heads of growing size, on a roughly geometric ladder from a few hundred
// bytes to tens of kilobytes (hundreds of kilobytes in the thorough tier), each step jittered, built in three ways:
//
//	text   additional text lines                              f+=L/headext/pad<N>
//	sigs   k co-signatures of unknown keys, k = 1 … 99,        f+=L/sigs/<k>[.pre|.dup]
//	       after / before the server's line / one line repeated
//	both   some extra lines and some co-signatures
//
// and in three placements: every head long (`all`); only the heads presented from the second server onwards — in a fork
// shape: the forked head long, the client's own head the ordinary short one (`second`); only the heads of the first
// server long, i.e. the client's own head long and the forked head short (`first`).  The concurrent shapes carry fault
// rules of their own (the split-view server), so there the rule is appended after them and covers every response.
//
// All of these heads are honest heads of the log they come from, so every clause of C13 applies unchanged.  The clause
// that looks at the bytes is "whenever the failure is reported as a security error the security callback received both
// signed heads": clCheckSecurity / c13CheckSecurityPar / c13CheckSecurityFresh search the report for the COMPLETE signed
// notes the client was given — each candidate is re-opened with note.Open under the configured key (classifyHead) and
// must occur in the report byte for byte, from the first byte of its text to the newline of its last signature line
// (bytes.Contains of the indented note) — not for a size, a hash or the start of a signature line; a head that is only
// partly in the report does not count, and a report with fewer than two mutually inconsistent complete heads is a finding.
// Likewise "the stored head is a validly signed head" re-opens every value written to the configuration.
// c13TagReportSizes records how long the heads found complete in the reports were (coverage only).
func c13LongHeadCases(g *Rand) []c13Case {
	maxN, heights, keepFork, keepOther := 8, []int{1, 2}, 16, 80
	ladder := []int{384, 768, 1536, 3072, 6144, 12288, 49152}
	sigLadder := []int{1, 2, 4, 8, 16, 32, 64, 99}
	if thorough {
		maxN, heights, keepFork, keepOther = 20, []int{1, 2, 3, 5}, 3, 12
		ladder = append(ladder, 196608, 786432)
	}
	wseed := g.U64()%1000 + 1
	// one (way, size) per call, jittered: pad sizes between the rung and 1.5 × the rung
	pickFault := func() (fault []string, way string) {
		pad := func() string {
			r := ladder[g.Intn(len(ladder))]
			return fmt.Sprintf("f+=L/headext/pad%d", r+g.Intn(r/2+1))
		}
		sigs := func(max int) string {
			k := sigLadder[g.Intn(len(sigLadder))]
			for k > max {
				k /= 2
			}
			return fmt.Sprintf("f+=L/sigs/%d%s", k, []string{"", "", ".pre", ".dup"}[g.Intn(4)])
		}
		switch g.Intn(5) {
		case 0, 1:
			return []string{pad()}, "text"
		case 2, 3:
			return []string{sigs(99)}, "sigs"
		}
		return []string{pad(), sigs(32)}, "both"
	}
	isStep := func(t string) bool {
		return strings.HasPrefix(t, "new=") || strings.HasPrefix(t, "warm=") || strings.HasPrefix(t, "par=") || strings.HasPrefix(t, "look=")
	}
	var cases []c13Case
	kf, ko := 0, 0
	for nA := 2; nA <= maxN; nA++ {
		for p := 0; p <= nA; p++ {
			if thorough && nA > 10 && g.Intn(nA/3) != 0 {
				continue
			}
			nB := []int{p + 1, nA, nA + 1 + g.Intn(3)}[g.Intn(3)]
			if nB <= p {
				continue
			}
			h := heights[g.Intn(len(heights))]
			c13Enumerate(g, wseed, nA, p, nB, h, func(c c13Case) {
				// both heads beyond the common prefix (a detected fork needs that) get the larger share
				conc := strings.HasPrefix(c.tag, "concurrent/")
				if strings.Contains(c.tag, "a>p,b>p") {
					if kf++; kf%keepFork != 0 {
						return
					}
				} else {
					if ko++; ko%keepOther != 0 {
						return
					}
				}
				f := strings.Fields(c.line)
				if len(f) < 4 {
					return
				}
				fault, way := pickFault()
				// positions: `at` the first step that creates a client or looks something up (every fault rule a shape
				// brings along precedes it); `snd` the second server of a sequential shape
				at, snd := -1, -1
				for i := 3; i < len(f); i++ {
					if at < 0 && isStep(f[i]) {
						at = i
					}
					if at >= 0 && snd < 0 && strings.HasPrefix(f[i], "srv=") {
						snd = i
					}
				}
				if at < 0 {
					return
				}
				place := "all"
				if !conc && snd > at {
					place = []string{"all", "second", "second", "first"}[g.Intn(4)]
				}
				var out []string
				switch place {
				case "all":
					out = append(append(append(out, f[:at]...), fault...), f[at:]...)
				case "second":
					out = append(append(append(out, f[:snd]...), fault...), f[snd:]...)
				case "first":
					out = append(append(append(out, f[:at]...), fault...), f[at:snd]...)
					out = append(append(out, "f-="), f[snd:]...)
				}
				cases = append(cases, c13Case{strings.Join(out, " "), "longhead/" + way + "/" + place + "/" + strings.SplitN(c.tag, "/", 2)[0]})
			})
		}
	}
	return cases
}

// c13TagReportSizes: coverage only — for every security report, the length of each complete signed head found in it
// (same candidates and same test as clCheckSecurity), in size classes; and whether a report was seen at all in which a
// head the client had been given is present only in part (never on a client for which the property holds: that is what
// the message clauses report; here it is just counted).
func c13TagReportSizes(g *Gen, out *clOutcome) {
	tr := out.env.trace
	for _, ev := range tr {
		if ev.Kind != "sec" || ev.C < 0 {
			continue
		}
		seen := map[string]bool{}
		for _, e2 := range tr[:ev.Seq] {
			if e2.C != ev.C || e2.Err != "" {
				continue
			}
			var cnd []byte
			switch {
			case e2.Kind == "rf" && e2.File == clName+"/latest":
				cnd = e2.Data
			case e2.Kind == "rr" || e2.Kind == "rc":
				if _, _, rest, err := tlog.ParseRecord(e2.Data); err == nil {
					cnd = rest
				}
			}
			if len(cnd) == 0 || seen[string(cnd)] {
				continue
			}
			seen[string(cnd)] = true
			if !bytes.Contains(ev.Data, clIndent(cnd)) {
				continue
			}
			cls := ">64K"
			for _, b := range []int{256, 512, 1024, 2048, 4096, 16384, 65536} {
				if len(cnd) <= b {
					cls = "<=" + strconv.Itoa(b)
					break
				}
			}
			g.st.OracleTags["report-carries-complete-head-of-bytes/"+cls]++
			if k := clCountSigLines(cnd); k > 1 {
				g.st.OracleTags["report-carries-complete-cosigned-head"]++
			}
		}
	}
}
