package main

// C06 — path validity (module / import / file), SplitPathVersion, Check, CheckPathMajor,
// PathMajorPrefix, MatchPrefixPatterns.

import (
	"errors"
	"math/big"
	"path"
	"regexp"
	"strconv"
	"strings"
	"unicode"
	"unicode/utf8"

	"golang.org/x/mod/module"
	"golang.org/x/mod/semver"
)

func init() {
	impls["module.checkpath"] = func(a []string) string { return c06ShowPathErr(module.CheckPath(unhx(a[0]))) }
	impls["module.checkimportpath"] = func(a []string) string { return c06ShowPathErr(module.CheckImportPath(unhx(a[0]))) }
	impls["module.checkfilepath"] = func(a []string) string { return c06ShowPathErr(module.CheckFilePath(unhx(a[0]))) }
	impls["module.splitpathversion"] = func(a []string) string {
		pre, maj, ok := module.SplitPathVersion(unhx(a[0]))
		return hx(pre) + " " + hx(maj) + " " + showBool(ok)
	}
	impls["module.matchpathmajor"] = func(a []string) string { return showBool(module.MatchPathMajor(unhx(a[0]), unhx(a[1]))) }
	impls["module.checkpathmajor"] = func(a []string) string {
		if module.CheckPathMajor(unhx(a[0]), unhx(a[1])) != nil {
			return "err:major"
		}
		return "ok"
	}
	impls["module.pathmajorprefix"] = func(a []string) string { return hx(module.PathMajorPrefix(unhx(a[0]))) } // panic -> "panic" (runImpl)
	impls["module.check"] = func(a []string) string { return c06ShowCheckErr(module.Check(unhx(a[0]), unhx(a[1]))) }
	impls["module.matchprefixpatterns"] = func(a []string) string {
		return showBool(module.MatchPrefixPatterns(unhx(a[0]), unhx(a[1])))
	}
	// standard-library behaviour re-implemented by hand in lean/ModVerif/Basic: checked directly
	impls["module.pathmatch"] = func(a []string) string {
		m, _ := path.Match(unhx(a[0]), unhx(a[1]))
		return showBool(m)
	}
	impls["module.isletter"] = func(a []string) string { return showBool(unicode.IsLetter(rune(atoi(a[0])))) }
	impls["module.validutf8"] = func(a []string) string { return showBool(utf8.ValidString(unhx(a[0]))) }
	impls["module.runes"] = func(a []string) string {
		out := []string{}
		for _, r := range unhx(a[0]) {
			out = append(out, itoa(int(r)))
		}
		if len(out) == 0 {
			return "_"
		}
		return strings.Join(out, ",")
	}
	register(&Prop{ID: "C06", Gen: c06Gen, Oracle: c06Oracle,
		Rule: "paths of 1-5 elements from templates (reserved Windows names in random case with/without extension, x~1/~1x/.x/x./.., x~DIGITS with digit runs of 1-40 digits around every power of two and ten incl. leading zeros signs and underscores, major suffixes v0/v1/v2/v01/v2.1, gopkg.in forms) over an alphabet of every ASCII punctuation char, letters, digits, é ß U+212A U+017F a combining mark U+FFFD and ill-formed UTF-8, plus one-step mutations and random bytes; versions from the C04 generator steered to the path's major; glob lists with empty items, trailing slashes, * ? [a-z] and malformed [; non-trivial = valid UTF-8, non-empty, no //, no trailing slash (reaches checkElem), for non-path ops every case; distinct by op line"})
}

// ---- canonical error kinds

func c06ErrKind(msg string) string {
	switch msg {
	case "invalid UTF-8":
		return "utf8"
	case "empty string":
		return "empty"
	case "leading dash":
		return "leading-dash"
	case "double slash":
		return "double-slash"
	case "trailing slash":
		return "trailing-slash"
	case "empty path element":
		return "empty-elem"
	case "leading dot in path element":
		return "leading-dot"
	case "trailing dot in path element":
		return "trailing-dot"
	case "trailing tilde and digits in path element":
		return "tilde-digits"
	case "leading slash":
		return "leading-slash"
	case "missing dot in first path element":
		return "missing-dot"
	case "leading dash in first path element":
		return "leading-dash-first"
	case "invalid version":
		return "version"
	}
	switch {
	case strings.HasPrefix(msg, "invalid char ") && strings.HasSuffix(msg, " in first path element"):
		return "char-first"
	case strings.HasPrefix(msg, "invalid char "):
		return "char"
	case strings.HasPrefix(msg, "invalid path element "):
		return "all-dots"
	case strings.HasSuffix(msg, " disallowed as path element component on Windows"):
		return "windows"
	}
	return "unknown"
}

func c06ShowPathErr(err error) string {
	if err == nil {
		return "ok"
	}
	var ipe *module.InvalidPathError
	if errors.As(err, &ipe) {
		return "err:" + c06ErrKind(ipe.Err.Error())
	}
	return "err:unknown"
}

func c06ShowCheckErr(err error) string {
	if err == nil {
		return "ok"
	}
	var ipe *module.InvalidPathError
	if errors.As(err, &ipe) {
		return "err:" + c06ErrKind(ipe.Err.Error())
	}
	var ive *module.InvalidVersionError
	if errors.As(err, &ive) {
		if ive.Err.Error() == "not a semantic version" {
			return "err:not-semver"
		}
		return "err:major"
	}
	return "err:unknown"
}

// ---- generators

// every ASCII punctuation character, space, letters and digits
const c06Punct = "!\"#$%&'()*+,-./:;<=>?@[\\]^_`{|}~ "
const c06Lower = "abcdefghijklmnopqrstuvwxyz"
const c06Upper = "ABCDEFGHIJKLMNOPQRSTUVWXYZ"

// non-ASCII pieces: é ß KELVIN SIGN, LONG S, combining acute, U+FFFD (well-formed), multiplication sign,
// CJK letter, 4-byte letter, and ill-formed sequences (lone byte, overlong, surrogate, truncated, > U+10FFFF)
var c06NonASCII = []string{"é", "ß", "K", "ſ", "́", "�", "×", "世", "\U00010400",
	"\xff", "\x80", "\xc0\x80", "\xed\xa0\x80", "\xe2\x82", "\xf4\x90\x80\x80", "\xc3"}

var c06Reserved = []string{"CON", "PRN", "AUX", "NUL", "COM1", "COM2", "COM3", "COM4", "COM5", "COM6", "COM7", "COM8", "COM9",
	"LPT1", "LPT2", "LPT3", "LPT4", "LPT5", "LPT6", "LPT7", "LPT8", "LPT9"}

func c06RandCase(r *Rand, s string) string {
	b := []byte(s)
	for i, c := range b {
		if 'A' <= c && c <= 'Z' && r.Bool() {
			b[i] = c + 32
		} else if 'a' <= c && c <= 'z' && r.Bool() {
			b[i] = c - 32
		}
	}
	return string(b)
}

func c06Char(r *Rand) string {
	switch r.Intn(12) {
	case 0, 1:
		return string(c06Punct[r.Intn(len(c06Punct))])
	case 2:
		return r.Pick(c06NonASCII)
	case 3:
		return string(c06Upper[r.Intn(26)])
	case 4:
		return string(digits[r.Intn(10)])
	case 5:
		return r.Pick([]string{".", "~", "-", "_", "+"})
	}
	return string(c06Lower[r.Intn(26)])
}

func c06Word(r *Rand, n int) string {
	var b strings.Builder
	for i := 0; i < n; i++ {
		b.WriteString(c06Char(r))
	}
	return b.String()
}

func c06PlainWord(r *Rand) string {
	return r.Bytes(1+r.Intn(6), c06Lower+"0123456789-_")
}

// Input class "numeric run of any width" (added for the short-name rule "~ followed by one or more ASCII
// digits", and used for major suffixes too). The rule is about digit STRINGS of any length; the templates used to
// carry runs of at most two digits (x~1, x~12, x~01), so an implementation that reads the run as a number (fixed-width
// parse, overflow, sign/underscore/leading-zero handling) was indistinguishable from one that scans characters.
// c06NumFixed is a small exhaustive family: 2^k-1, 2^k, 2^k+1 for every machine-integer width k, and for every length
// 1..40 the runs 99…9, 10…0 and 00…07 (leading zeros).
var c06NumFixed = func() []string {
	var out []string
	one := big.NewInt(1)
	for _, k := range []uint{7, 8, 15, 16, 31, 32, 53, 63, 64, 65, 127, 128} {
		p := new(big.Int).Lsh(one, k)
		out = append(out, new(big.Int).Sub(p, one).String(), p.String(), new(big.Int).Add(p, one).String())
	}
	for n := 1; n <= 40; n++ {
		out = append(out, strings.Repeat("9", n), "1"+strings.Repeat("0", n-1), strings.Repeat("0", n-1)+"7")
	}
	return out
}()

// c06DigitRun returns a non-empty string of ASCII digits: a boundary run, a boundary run behind leading zeros, a run
// whose length is near the decimal width of a 32/64/128-bit integer, or random digits of 1..40 (thorough: 1..100) digits.
func c06DigitRun(r *Rand) string {
	switch r.Intn(6) {
	case 0, 1:
		return r.Pick(c06NumFixed)
	case 2:
		return strings.Repeat("0", 1+r.Intn(4)) + r.Pick(c06NumFixed)
	case 3:
		return r.Bytes(1, "123456789") + r.Bytes([]int{8, 9, 10, 18, 19, 20, 38, 39}[r.Intn(8)]+r.Intn(2), digits)
	}
	n := 1 + r.Intn(40)
	if thorough {
		n = 1 + r.Intn(100)
	}
	return r.Bytes(n, digits)
}

// c06ShortNameElem: an element built around "~" + digit run: the rejected shapes (run at the end of the part before
// the first dot) and the near misses that stay valid (sign, underscore, letter or tilde after/inside the run, run after
// the first dot, no tilde).
func c06ShortNameElem(r *Rand) string {
	w := c06PlainWord(r)
	d := c06DigitRun(r)
	switch r.Intn(16) {
	case 0, 1, 2:
		return w + "~" + d
	case 3:
		return w + "~" + d + "." + r.Pick([]string{"txt", "go", "v1", "v2", "7"})
	case 4:
		return "~" + d
	case 5:
		return w + "~b~" + d
	case 6:
		return c06RandCase(r, r.Pick(c06Reserved)) + "~" + d
	case 7:
		return w + "~" + d + r.Pick([]string{"z", "~", "_", "-", "e3", "x0"})
	case 8:
		return w + "~" + r.Pick([]string{"+", "-", "_", "0x", "0b", "0o", " "}) + d
	case 9:
		i := r.Intn(len(d) + 1)
		return w + "~" + d[:i] + r.Pick([]string{"_", "-", "~", "a", "٣", "\xff"}) + d[i:]
	case 10:
		return w + ".~" + d
	case 11:
		return w + d
	case 12:
		return w + "~" + d + "~" + c06DigitRun(r)
	case 13:
		return w + "~" + d + "." + w + "~" + c06DigitRun(r)
	}
	return w + "~" + d
}

var c06MajorElems = []string{"v0", "v1", "v2", "v3", "v10", "v01", "v2.1", "v2.0", "v1.2.3", "v", "v2-unstable", "V2", "v2a", "vv2", "v002", "v20"}

// c06Elem returns one path element (usually close to valid).
func c06Elem(r *Rand) string {
	switch r.Intn(16) {
	case 0: // reserved name, random case, with/without extension
		s := c06RandCase(r, r.Pick(c06Reserved))
		switch r.Intn(6) {
		case 0:
			s += "." + c06PlainWord(r)
		case 1:
			s += ".tar.gz"
		case 2:
			s += "~1"
		case 3:
			s = s + r.Pick([]string{"0", "10", "x", "K", ".", "~"})
		case 4:
			s = r.Pick([]string{"x", "~", "-"}) + s
		}
		return s
	case 1: // near-reserved with fold-alikes
		return r.Pick([]string{"coK", "Kon", "nuſ", "auſ", "com¹", "lpt¹", "COM", "LPT", "com0", "lpt0", "co", "nul.nul", "x.nul", "nul..x"})
	case 2: // short-name shapes
		w := c06PlainWord(r)
		return r.Pick([]string{w + "~1", "~1" + w, w + "~12", w + "~", "~", "~1", w + "~1.go", w + ".y~1", w + "~1a", w + "~a1", w + "~1~" + w, w + "~b~2", w + "~٣", w + "~1́", "~~1", w + "~01"})
	case 3: // dots
		w := c06PlainWord(r)
		return r.Pick([]string{"." + w, w + ".", "..", ".", "...", w + ".." + w, ".." + w, w + "." + w, ".~1", "." + w + "."})
	case 4: // major-like
		if r.Chance(20) {
			return "v" + c06DigitRun(r)
		}
		return r.Pick(c06MajorElems)
	case 5: // one char from the whole alphabet in a plain word
		w := c06PlainWord(r)
		i := r.Intn(len(w) + 1)
		return w[:i] + c06Char(r) + w[i:]
	case 6: // anything
		return c06Word(r, 1+r.Intn(5))
	case 7:
		return c06RandCase(r, c06PlainWord(r))
	case 9: // short-name shapes with digit runs of any width
		return c06ShortNameElem(r)
	case 8:
		return c06PlainWord(r) + r.Pick([]string{"+", "++", " x", "@v1", "é", "世界", "!", "%20", "=", ",", "[1]", "{a}", "^", "$", "#", "&", "(x)", "*", "?", "\\x", ":", ";", "<", ">", "|", "\"", "'", "`"})
	}
	return c06PlainWord(r)
}

func c06FirstElem(r *Rand) string {
	switch r.Intn(14) {
	case 0:
		return "gopkg.in"
	case 1:
		return r.Pick([]string{"example", "localhost", "EXAMPLE.com", "Example.com", "-x.com", "x_y.com", "x~y.com", "a.b-c.io", "1.2", ".com", "com.", "a..b", "x+y.com", "é.com", "ex ample.com", "nul.com", "con.org", "x~1.com", "v2.com", "a.v2"})
	case 2:
		return c06Elem(r)
	}
	return r.Pick([]string{"example.com", "golang.org", "github.com", "rsc.io", "a.b", "x.y.z", "go.uber.org", "k8s.io", "9fans.net", "my-domain.dev"})
}

var c06GopkgForms = []string{"gopkg.in/yaml.v2", "gopkg.in/yaml.v0", "gopkg.in/check.v1", "gopkg.in/yaml.v01", "gopkg.in/yaml.v10", "gopkg.in/yaml.v2-unstable",
	"gopkg.in/yaml.v0-unstable", "gopkg.in/yaml.v1-unstable", "gopkg.in/yaml.v-unstable", "gopkg.in/user/pkg.v3", "gopkg.in/v2", "gopkg.in/yaml", "gopkg.in/yaml.v2.3",
	"gopkg.in/yaml/v2", "gopkg.in/.v2", "gopkg.in/yaml.V2", "gopkg.in/yaml.v", "gopkg.in/yaml.v2-unstable-unstable", "gopkg.in/-unstable", "gopkg.in/", "gopkg.in",
	"gopkg.in/yaml.v2/", "gopkg.in/x.v2/sub", "gopkg.in/yaml.v00", "gopkg.in/yaml.v2-Unstable", "gopkg.in/Yaml.v2", "gopkg.in/y~1.v2", "gopkg.in/con.v2", "gopkg.in/x.v2-unstabl",
	"gopkg.inx/yaml.v2", "gopkg.in/a/b/c.v4-unstable", "gopkg.in/x.v123456789012345678901234567890"}

// c06Path returns a path; mostly well-formed.
func c06Path(r *Rand) string {
	switch r.Intn(20) {
	case 0:
		return r.Pick(c06GopkgForms)
	case 1:
		return mutate(r, r.Pick(c06GopkgForms), "v.0129-/unstable")
	case 2:
		return r.Pick([]string{"", "/", "//", "-", ".", "..", "a", "a/", "/a", "a//b", "-a.b/c", "a.b//", "a.b/-c", "\xff", "a.b/\xff", "golang.org/x/mod", "example.com/A~b/v2",
			"example.com/v2", "example.com/v1", "/v2", "v2", "a.b/v2/v3", "a.b/v3/v3", "a.b/x/v9999999999999999999999", "a.b/c/v2/"})
	}
	n := 1 + r.Intn(5)
	if thorough {
		n = 1 + r.Intn(8)
	}
	el := make([]string, 0, n+1)
	el = append(el, c06FirstElem(r))
	for i := 1; i < n; i++ {
		el = append(el, c06Elem(r))
	}
	if r.Chance(35) {
		el = append(el, r.Pick(c06MajorElems))
	}
	if el[0] == "gopkg.in" && r.Chance(70) {
		el[len(el)-1] += r.Pick([]string{".v0", ".v1", ".v2", ".v3-unstable", ".v01", ".v", ".v-unstable", ".v10", ".v2.1"})
	}
	p := strings.Join(el, "/")
	switch r.Intn(40) {
	case 0:
		p = "/" + p
	case 1:
		p += "/"
	case 2:
		p = "-" + p
	case 3:
		i := r.Intn(len(p) + 1)
		p = p[:i] + "/" + p[i:]
	case 4, 5:
		p = mutate(r, p, c06Punct+"aZ0v.\xff")
	}
	return p
}

func c06Nontrivial(p string) bool {
	return utf8.ValidString(p) && p != "" && !strings.Contains(p, "//") && p[len(p)-1] != '/'
}

// c06VersionFor returns a version, usually one whose major matches pathMajor.
func c06VersionFor(r *Rand, pathMajor string) string {
	if r.Chance(15) {
		v, _ := genVersion(r)
		return v
	}
	v := genValidVersion(r)
	maj := ""
	if len(pathMajor) > 2 {
		maj = strings.TrimSuffix(pathMajor[2:], "-unstable")
	}
	rest := ""
	if i := strings.IndexAny(v, ".-+"); i >= 0 {
		rest = v[i:]
	}
	switch r.Intn(10) {
	case 0:
		return v
	case 1:
		return "v0.0.0-20161208181325-20d25e280405"
	case 2:
		return "v" + r.Pick([]string{"0", "1", "2", "3"}) + rest + "+incompatible"
	case 3:
		if strings.Contains(rest, "+") {
			rest = rest[:strings.Index(rest, "+")]
		}
		if !strings.Contains(rest, ".") || strings.Count(rest, ".") < 2 {
			rest = ".0.0"
		}
		return "v" + r.Pick([]string{"2", "3", maj}) + rest + "+incompatible"
	}
	if maj == "" {
		maj = r.Pick([]string{"0", "1", "1", "2"})
	}
	return "v" + maj + rest
}

var c06GlobItems = []string{"", "*", "?", "*.corp.com", "example.com", "example.com/", "example.com/*", "*/x", "[a-z]*.com", "[", "[a", "[]", "a[", "\\", "a\\",
	"x[^a]", "ex?mple.com", "example.com//", "/", "//", "*/*", "golang.org/x", "golang.org/x/", "*.org/x/m*", "rsc.io/*/v2", "[a-z", "[z-a]", "[a-]", "a[]b]", "\\*",
	"example.com/\\", "*/", "é*", "[é-ü]x", "[\xff]", "a/[", "*.com,", "a**b", "**", "*?*", "x*y*z", "[^/]", "?*/?"}

func c06GlobList(r *Rand) string {
	n := r.Intn(4)
	items := make([]string, 0, n+1)
	for i := 0; i <= n; i++ {
		switch r.Intn(6) {
		case 0:
			items = append(items, mutate(r, r.Pick(c06GlobItems), "*?[]^-\\/,a."))
		case 1:
			items = append(items, r.Bytes(r.Intn(6), "ab*?[]^-\\/,.é\xff"))
		default:
			items = append(items, r.Pick(c06GlobItems))
		}
	}
	return strings.Join(items, ",")
}

// c06TargetFor makes a target related to one of the globs in the list.
func c06TargetFor(r *Rand, globs string) string {
	if r.Chance(25) {
		return c06Path(r)
	}
	items := strings.Split(globs, ",")
	g := strings.TrimSuffix(items[r.Intn(len(items))], "/")
	var b strings.Builder
	for i := 0; i < len(g); i++ {
		switch g[i] {
		case '*':
			b.WriteString(r.Bytes(r.Intn(4), "abcxyz.-"))
		case '?':
			b.WriteString(r.Bytes(1, "abcxyz/"))
		case '[':
			b.WriteString(r.Bytes(1, "abmz^-é"[:6]))
			for i < len(g) && g[i] != ']' {
				i++
			}
		case '\\':
		default:
			b.WriteByte(g[i])
		}
	}
	t := b.String()
	switch r.Intn(5) {
	case 0:
		t += "/" + c06PlainWord(r)
	case 1:
		t += "/" + c06PlainWord(r) + "/" + c06PlainWord(r)
	case 2:
		t = mutate(r, t, "ab/.x")
	}
	return t
}

func c06Gen(g *Gen, n int) {
	r := g.Rand
	// fixed boundary stream: every ASCII byte as an element character, for the three kinds
	for c := 0; c < 128; c++ {
		p := "example.com/a" + string(rune(c)) + "b"
		g.Emit("module.checkpath "+hx(p), true, "ascii-sweep")
		g.Emit("module.checkimportpath "+hx(p), true, "ascii-sweep")
		g.Emit("module.checkfilepath "+hx(p), true, "ascii-sweep")
		g.Emit("module.checkpath "+hx("a"+string(rune(c))+".b/x"), true, "ascii-sweep")
	}
	for _, w := range c06Reserved {
		for _, e := range []string{w, strings.ToLower(w), w + ".x", c06RandCase(r, w) + ".x.y", w + "~1", w + "x"} {
			g.Emit("module.checkfilepath "+hx("a/"+e), true, "reserved-sweep")
			g.Emit("module.checkimportpath "+hx("a/"+e), true, "reserved-sweep")
		}
	}
	// fixed boundary stream: "~" + every run of c06NumFixed (see there), rejected shapes and near misses
	for _, d := range c06NumFixed {
		g.Emit("module.checkpath "+hx("x.y/z~"+d), true, "tilde-run-sweep")
		g.Emit("module.checkimportpath "+hx("x.y/a~b~"+d+".txt/w"), true, "tilde-run-sweep")
		g.Emit("module.checkfilepath "+hx("x.y/z~"+d), true, "tilde-run-sweep")
		g.Emit("module.checkpath "+hx("x.y/z~"+d+"z"), true, "tilde-run-sweep")
		g.Emit("module.checkimportpath "+hx("x.y/z~+"+d), true, "tilde-run-sweep")
		g.Emit("module.check "+hx("gopkg.in/z~"+d+".v1")+" "+hx("v1.0.0"), true, "tilde-run-sweep")
	}
	for i := 0; i < n; i++ {
		switch g.Intn(26) {
		case 0, 1, 2, 3:
			p := c06Path(r)
			g.Emit("module.checkpath "+hx(p), c06Nontrivial(p), "path")
		case 4, 5, 6:
			p := c06Path(r)
			g.Emit("module.checkimportpath "+hx(p), c06Nontrivial(p), "path")
		case 7, 8, 9:
			p := c06Path(r)
			if g.Chance(30) { // file-ish paths
				p = strings.Join([]string{c06Elem(r), c06Elem(r)}, "/")
			}
			g.Emit("module.checkfilepath "+hx(p), c06Nontrivial(p), "path")
		case 10, 11, 12:
			p := c06Path(r)
			g.Emit("module.splitpathversion "+hx(p), true, "split")
		case 13, 14, 15, 16:
			p := c06Path(r)
			_, maj, _ := module.SplitPathVersion(p)
			v := c06VersionFor(r, maj)
			g.Emit("module.check "+hx(p)+" "+hx(v), c06Nontrivial(p), "check")
		case 17, 18, 19:
			maj := r.Pick([]string{"", "/v2", "/v3", "/v10", ".v0", ".v1", ".v2", ".v2-unstable", ".v1-unstable", ".v-unstable", "/", ".", "v2", "/v1", "/v2-unstable", ".v", "-unstable", ".v-unstable-unstable", "/v2.1", "x", "/v02", ".v03-unstable"})
			if g.Chance(10) {
				maj = mutate(r, maj, "/.v012-unstable")
			}
			v := c06VersionFor(r, maj)
			switch g.Intn(3) {
			case 0:
				g.Emit("module.matchpathmajor "+hx(v)+" "+hx(maj), true, "major")
			case 1:
				g.Emit("module.checkpathmajor "+hx(v)+" "+hx(maj), true, "major")
			default:
				g.Emit("module.pathmajorprefix "+hx(maj), true, "major")
			}
		case 20, 21, 22:
			gl := c06GlobList(r)
			t := c06TargetFor(r, gl)
			g.Emit("module.matchprefixpatterns "+hx(gl)+" "+hx(t), true, "glob")
		case 23:
			pat := r.Pick(c06GlobItems)
			if g.Chance(50) {
				pat = r.Bytes(r.Intn(7), "ab*?[]^-\\/.é\xff")
			}
			if strings.Contains(pat, ",") {
				pat = strings.ReplaceAll(pat, ",", "")
			}
			name := c06TargetFor(r, pat)
			if g.Chance(30) {
				name = r.Bytes(r.Intn(6), "ab/-].^é\xff")
			}
			g.Emit("module.pathmatch "+hx(pat)+" "+hx(name), true, "stdlib")
		case 24:
			// unicode.IsLetter table spot-check: range edges and random points
			var c int
			switch g.Intn(4) {
			case 0:
				c = g.Intn(0x3000)
			case 1:
				c = g.Intn(0x110000)
			case 2:
				c = []int{0x7f, 0x80, 0xaa, 0xb5, 0xd7, 0xf7, 0x2c1, 0x2c6, 0x212a, 0x17f, 0xfffd, 0xd800, 0x10ffff, 0x110000, 0x10400, 0x1e943, 0x323af, 0x323b0}[g.Intn(18)]
			default:
				c = 0x1e000 + g.Intn(0x2000)
			}
			g.Emit("module.isletter "+itoa(c), true, "stdlib")
		default:
			s := c06Word(r, g.Intn(6))
			if g.Bool() {
				g.Emit("module.validutf8 "+hx(s), true, "stdlib")
			} else {
				g.Emit("module.runes "+hx(s), true, "stdlib")
			}
		}
	}
}

// ---- independent statement of the documented rules (oracle side; not derived from module.go's code)

const (
	c06Mod = iota
	c06Imp
	c06File
)

var c06ReservedRE = regexp.MustCompile(`(?i)^(con|prn|aux|nul|com[1-9]|lpt[1-9])$`)
var c06ShortNameRE = regexp.MustCompile(`~[0-9]+$`)
var c06FirstRE = regexp.MustCompile(`^[-.0-9a-z]+$`)
var c06NumericMajorRE = regexp.MustCompile(`^v[0-9.]+$`)
var c06GoodMajorRE = regexp.MustCompile(`^v([2-9]|[1-9][0-9]+)$`)
var c06GopkgRE = regexp.MustCompile(`\.v(0|[1-9][0-9]*(-unstable)?)$`)

func c06SpecChar(kind int, r rune) bool {
	letterDigit := 'a' <= r && r <= 'z' || 'A' <= r && r <= 'Z' || '0' <= r && r <= '9'
	switch kind {
	case c06Mod:
		return letterDigit || strings.ContainsRune("-._~", r)
	case c06Imp:
		return letterDigit || strings.ContainsRune("-._~+", r)
	}
	if r < 0x80 {
		return letterDigit || strings.ContainsRune("!#$%&()+,-.=@[]^_{}~ ", r)
	}
	return unicode.IsLetter(r)
}

func c06SpecElem(kind int, e string) bool {
	if e == "" || strings.Trim(e, ".") == "" {
		return false
	}
	if kind == c06Mod && strings.HasPrefix(e, ".") {
		return false
	}
	if strings.HasSuffix(e, ".") {
		return false
	}
	for _, r := range e {
		if !c06SpecChar(kind, r) {
			return false
		}
	}
	short, _, _ := strings.Cut(e, ".")
	if c06ReservedRE.MatchString(short) {
		return false
	}
	if kind != c06File && c06ShortNameRE.MatchString(short) {
		return false
	}
	return true
}

func c06SpecPath(kind int, p string) bool {
	if !utf8.ValidString(p) || p == "" {
		return false
	}
	if kind != c06File && p[0] == '-' {
		return false
	}
	for _, e := range strings.Split(p, "/") {
		if !c06SpecElem(kind, e) {
			return false
		}
	}
	return true
}

func c06SpecModPath(p string) bool {
	if !c06SpecPath(c06Mod, p) {
		return false
	}
	el := strings.Split(p, "/")
	if !strings.Contains(el[0], ".") || !c06FirstRE.MatchString(el[0]) {
		return false
	}
	if strings.HasPrefix(p, "gopkg.in/") {
		return c06GopkgRE.MatchString(p)
	}
	last := el[len(el)-1]
	if len(el) > 1 && c06NumericMajorRE.MatchString(last) && !c06GoodMajorRE.MatchString(last) {
		return false
	}
	return true
}

var c06SlashMajorRE = regexp.MustCompile(`^/v([2-9]|[1-9][0-9]+)$`)
var c06DotMajorRE = regexp.MustCompile(`^\.v(0|[1-9][0-9]*)(-unstable)?$`)

// c06SpecMajorMatches: the documented correspondence between a path's major suffix and a valid version.
func c06SpecMajorMatches(suffix, v string) bool {
	m := v
	if i := strings.IndexAny(v, ".-+"); i >= 0 {
		m = v[:i]
	}
	switch {
	case suffix == "":
		return m == "v0" || m == "v1" || strings.HasSuffix(v, "+incompatible") && semver.Build(v) == "+incompatible"
	case suffix[0] == '/':
		return m == suffix[1:]
	default: // gopkg.in
		want := strings.TrimSuffix(suffix[1:], "-unstable")
		return m == want || want == "v1" && strings.HasPrefix(v, "v0.0.0-")
	}
}

func c06SpecMatchPrefix(globs, target string) bool {
	el := strings.Split(target, "/")
	for _, g := range strings.Split(globs, ",") {
		g = strings.TrimSuffix(g, "/")
		if g == "" {
			continue
		}
		k := strings.Count(g, "/") + 1
		if len(el) < k {
			continue
		}
		if ok, _ := path.Match(g, strings.Join(el[:k], "/")); ok {
			return true
		}
	}
	return false
}

func c06Oracle(g *Gen, n int) {
	r := g.Rand
	// fixed boundary stream (same family as in c06Gen): "~" + digit run of every width, in the shapes the short-name
	// rule names and in the near misses it does not
	for _, d := range c06NumFixed {
		for _, e := range []string{"z~" + d, "z~" + d + ".txt", "a~b~" + d, "~" + d, "z~" + d + "z", "z~" + d + "~", "z~-" + d, "z~_" + d, "z.~" + d, "z" + d} {
			c06OraclePath(g, r, "x.y/"+e, false)
			c06OraclePath(g, r, "example.com/a/"+e+"/v2", false)
		}
		c06OraclePath(g, r, "gopkg.in/z~"+d+".v1", false)
	}
	for i := 0; i < n; i++ {
		c06OraclePath(g, r, c06Path(r), i%3 == 0)
	}
}

// c06OraclePath states the property for one path p (and a version steered to p's major suffix).
func c06OraclePath(g *Gen, r *Rand, p string, withGlob bool) {
	g.Case("path")
	mod, imp, file := module.CheckPath(p) == nil, module.CheckImportPath(p) == nil, module.CheckFilePath(p) == nil
	// inclusions
	if mod && !imp {
		g.Fail("valid module path is not a valid import path", strconv.Quote(p), "module.checkpath "+hx(p), "module.checkimportpath "+hx(p))
	}
	if imp && !file {
		g.Fail("valid import path is not a valid file path", strconv.Quote(p), "module.checkimportpath "+hx(p), "module.checkfilepath "+hx(p))
	}
	// exactly when the documented rules hold
	if mod != c06SpecModPath(p) {
		g.Fail("CheckPath disagrees with the documented module path rules", strconv.Quote(p), "module.checkpath "+hx(p))
	}
	if imp != c06SpecPath(c06Imp, p) {
		g.Fail("CheckImportPath disagrees with the documented import path rules", strconv.Quote(p), "module.checkimportpath "+hx(p))
	}
	if file != c06SpecPath(c06File, p) {
		g.Fail("CheckFilePath disagrees with the documented file path rules", strconv.Quote(p), "module.checkfilepath "+hx(p))
	}
	// split shape
	pre, maj, ok := module.SplitPathVersion(p)
	if mod {
		shape := maj == "" || c06SlashMajorRE.MatchString(maj) || strings.HasPrefix(p, "gopkg.in/") && c06DotMajorRE.MatchString(maj)
		if !ok || pre+maj != p || !shape {
			g.Fail("SplitPathVersion of a valid module path: prefix+suffix != path or suffix not empty, /vN (N>=2), .vN[-unstable]", strconv.Quote(p)+" -> "+strconv.Quote(pre)+" "+strconv.Quote(maj), "module.splitpathversion "+hx(p))
		}
	}
	if !ok && (pre != p || maj != "") {
		g.Fail("SplitPathVersion with ok=false does not return (path, \"\")", strconv.Quote(p), "module.splitpathversion "+hx(p))
	}
	// Check(p, v) <=> CheckPath(p) && IsValid(v) && major matches
	v := c06VersionFor(r, maj)
	g.Case("check")
	got := module.Check(p, v) == nil
	want := mod && semver.IsValid(v) && c06SpecMajorMatches(maj, v)
	if got != want {
		g.Fail("Check(path, version) is not CheckPath && IsValid && major-matches", strconv.Quote(p)+" "+strconv.Quote(v), "module.check "+hx(p)+" "+hx(v))
	}
	if mod && semver.IsValid(v) {
		if module.MatchPathMajor(v, maj) != (module.CheckPathMajor(v, maj) == nil) {
			g.Fail("MatchPathMajor != (CheckPathMajor == nil)", strconv.Quote(v)+" "+strconv.Quote(maj), "module.matchpathmajor "+hx(v)+" "+hx(maj))
		}
	}
	// MatchPrefixPatterns = documented prefix-glob definition
	if withGlob {
		gl := c06GlobList(r)
		t := c06TargetFor(r, gl)
		g.Case("glob")
		if module.MatchPrefixPatterns(gl, t) != c06SpecMatchPrefix(gl, t) {
			g.Fail("MatchPrefixPatterns differs from the prefix-glob definition", strconv.Quote(gl)+" "+strconv.Quote(t), "module.matchprefixpatterns "+hx(gl)+" "+hx(t))
		}
	}
}
