package main

// util_clsched.go — deterministic scheduler for the external operations of concurrently running lookups.
//
// Every external operation (ReadRemote, ReadCache, WriteCache, ReadConfig, WriteConfig, SecurityError) of
// every goroutine, and the start of every lookup goroutine, blocks in clSched.wait until the scheduler
// releases it.  The scheduler releases ONE operation at a time and only at quiescent points: moments at
// which no goroutine of the process is running or runnable (every goroutine is blocked at an external
// operation, on an internal lock/WaitGroup of the client, or has finished).  Quiescence is read off
// runtime.Stack(all): the wake-ups the client uses (mutex unlock, WaitGroup.Done, channel close) make the
// woken goroutine runnable synchronously, so "nobody running or runnable" is a stable condition.
// The released operation is chosen among the pending ones, sorted by (client, kind, file, goroutine label),
// by a strategy driven by a seed or by an enumerated list of choices; the run is therefore reproducible.

import (
	"bytes"
	"fmt"
	"runtime"
	"sort"
	"strconv"
	"strings"
	"sync"
	"time"

	"golang.org/x/mod/module"
)

type clPend struct {
	c       int
	g       string
	kind    string
	file    string
	key     string
	ch      chan struct{}
	aborted bool
}

type clSched struct {
	mu       sync.Mutex
	pending  []*clPend
	ackCh    chan struct{}
	strategy string
	rng      *Rand
	choices  []int
	step     int
	live     int
	aborted  bool
	deadline time.Time
	buf      []byte
	picks    []string
	onQuiet  func()
	steps    int
}

func (s *clSched) wait(c int, g, kind, file string) *clPend {
	s.mu.Lock()
	if s.aborted {
		s.mu.Unlock()
		return nil
	}
	p := &clPend{c: c, g: g, kind: kind, file: file, ch: make(chan struct{})}
	p.key = fmt.Sprintf("%03d|%s|%s|%s", c, kind, file, g)
	s.pending = append(s.pending, p)
	s.mu.Unlock()
	<-p.ch
	if p.aborted {
		return nil
	}
	return p
}

func (s *clSched) ack() { s.ackCh <- struct{}{} }

func (s *clSched) finished() {
	s.mu.Lock()
	s.live--
	s.mu.Unlock()
}

// abort releases everything; later operations run unscheduled so that goroutines can drain.
func (s *clSched) abort() {
	s.mu.Lock()
	s.aborted = true
	ps := s.pending
	s.pending = nil
	s.mu.Unlock()
	for _, p := range ps {
		p.aborted = true
		close(p.ch)
	}
}

var clBlockedStates = map[string]bool{
	"chan receive": true, "chan send": true, "select": true, "select (no cases)": true, "semacquire": true,
	"sync.Mutex.Lock": true, "sync.RWMutex.RLock": true, "sync.RWMutex.Lock": true, "sync.Cond.Wait": true,
	"sync.WaitGroup.Wait": true, "IO wait": true, "chan receive (nil chan)": true, "chan send (nil chan)": true,
	"finalizer wait": true, "sleep": true,
}

// clAllBlocked reports whether every goroutine other than the caller is blocked.
func clAllBlocked(buf *[]byte) bool {
	for {
		n := runtime.Stack(*buf, true)
		if n < len(*buf) {
			b := (*buf)[:n]
			first := true
			for len(b) > 0 {
				// header line of a goroutine block
				if bytes.HasPrefix(b, []byte("goroutine ")) {
					eol := bytes.IndexByte(b, '\n')
					if eol < 0 {
						eol = len(b)
					}
					line := b[:eol]
					if !first {
						lb := bytes.IndexByte(line, '[')
						rb := bytes.LastIndexByte(line, ']')
						if lb < 0 || rb < lb {
							return false
						}
						st := string(line[lb+1 : rb])
						if i := strings.IndexByte(st, ','); i >= 0 {
							st = st[:i]
						}
						if !clBlockedStates[st] {
							return false
						}
					}
					first = false
				}
				// skip to the next block
				i := bytes.Index(b, []byte("\n\n"))
				if i < 0 {
					break
				}
				b = b[i+2:]
			}
			return true
		}
		*buf = make([]byte, 2*len(*buf))
	}
}

func (s *clSched) settle() bool {
	for spins := 0; ; spins++ {
		if time.Now().After(s.deadline) {
			return false
		}
		runtime.Gosched()
		if clAllBlocked(&s.buf) {
			return true
		}
		if spins > 20 {
			time.Sleep(20 * time.Microsecond)
		}
	}
}

func (s *clSched) choose(P []*clPend) int {
	n := len(P)
	switch s.strategy {
	case "canon":
		return 0
	case "last":
		return n - 1
	case "rr":
		return s.step % n
	case "enum":
		if s.step < len(s.choices) {
			return s.choices[s.step] % n
		}
		return 0
	case "rflast", "rflastc":
		// keep every ReadConfig(<name>/latest) of client 0 back as long as anything else can run: its goroutines install
		// their heads in memory and then sit just before the configuration read while the other clients complete
		var pref []int
		for i, p := range P {
			if !(p.kind == "rf" && p.c == 0 && strings.HasSuffix(p.file, "/latest")) {
				pref = append(pref, i)
			}
		}
		if len(pref) > 0 {
			if s.strategy == "rflastc" {
				return pref[0]
			}
			return pref[s.rng.Intn(len(pref))]
		}
		if s.strategy == "rflastc" {
			return 0
		}
		return s.rng.Intn(n)
	case "conflict", "memrace":
		// conflict: keep every configuration write back as long as anything else can run, so that all clients
		// read the same configuration before the first of them writes.
		// memrace: keep back lookup responses' follow-up work … same idea for tile reads: run starts and lookup
		// reads first, tile reads last, so several goroutines sit between reading `latest` and installing.
		var pref []int
		for i, p := range P {
			late := p.kind == "wf"
			if s.strategy == "memrace" {
				late = p.kind == "wf" || strings.Contains(p.file, "/tile/")
			}
			if !late {
				pref = append(pref, i)
			}
		}
		if len(pref) > 0 {
			return pref[s.rng.Intn(len(pref))]
		}
		return s.rng.Intn(n)
	}
	return s.rng.Intn(n) // "rand"
}

// run drives the goroutines until all lookups have returned; false = hang/deadlock.
func (s *clSched) run() bool {
	for {
		if !s.settle() {
			s.abort()
			return false
		}
		if s.onQuiet != nil {
			s.onQuiet()
		}
		s.mu.Lock()
		P := append([]*clPend(nil), s.pending...)
		live := s.live
		s.mu.Unlock()
		if len(P) == 0 {
			if live == 0 {
				return true
			}
			s.abort() // deadlock: goroutines alive, nothing pending
			return false
		}
		sort.Slice(P, func(i, j int) bool { return P[i].key < P[j].key })
		i := s.choose(P)
		s.step++
		pick := P[i]
		s.picks = append(s.picks, strconv.Itoa(i))
		s.mu.Lock()
		for k, p := range s.pending {
			if p == pick {
				s.pending = append(s.pending[:k], s.pending[k+1:]...)
				break
			}
		}
		s.mu.Unlock()
		close(pick.ch)
		select {
		case <-s.ackCh:
		case <-time.After(time.Until(s.deadline) + time.Millisecond):
			s.abort()
			return false
		}
	}
}

// clParLookups executes `par=<strategy>:<seed or choices>:<c>.<key>,...`.
func clParLookups(out *clOutcome, arg string) bool {
	parts := strings.SplitN(arg, ":", 3)
	if len(parts) != 3 {
		return false
	}
	env := out.env
	s := &clSched{strategy: parts[0], ackCh: make(chan struct{}, 1), buf: make([]byte, 1<<18)}
	switch s.strategy {
	case "canon", "last", "rr", "rand", "conflict", "memrace", "rflast", "rflastc":
		seed, err := strconv.ParseUint(parts[1], 10, 64)
		if err != nil {
			return false
		}
		s.rng = &Rand{s: seed*0x9e3779b97f4a7c15 + 77}
	case "enum":
		s.rng = &Rand{s: 1}
		if parts[1] != "-" {
			for _, c := range strings.Split(parts[1], ".") {
				n, err := strconv.Atoi(c)
				if err != nil || n < 0 {
					return false
				}
				s.choices = append(s.choices, n)
			}
		}
	default:
		return false
	}
	type job struct {
		lk *clLookup
	}
	var jobs []*clLookup
	for i, item := range strings.Split(parts[2], ",") {
		dot := strings.IndexByte(item, '.')
		if dot < 0 {
			return false
		}
		c, err := strconv.Atoi(item[:dot])
		if err != nil || out.clients[c] == nil {
			return false
		}
		path, vers, ok := out.w.resolveKey(item[dot+1:])
		if !ok {
			return false
		}
		jobs = append(jobs, &clLookup{c: c, g: "g" + itoa(i), key: item[dot+1:], path: path, vers: vers,
			private: module.MatchPrefixPatterns(out.nosumdbOf[c], path)})
	}
	if len(jobs) == 0 || len(jobs) > 64 {
		return false
	}
	s.live = len(jobs)
	s.deadline = time.Now().Add(clLookupTimeout)
	if !clRaceBuild {
		s.onQuiet = func() {
			for c, cl := range out.clients {
				out.latestSamples[c] = append(out.latestSamples[c], clLatestN(cl))
			}
		}
	}
	env.sched = s
	var wg sync.WaitGroup
	for _, lk := range jobs {
		lk := lk
		out.looks = append(out.looks, lk)
		wg.Add(1)
		go func() {
			defer wg.Done()
			defer s.finished()
			id := clGoid()
			env.gids.Store(id, lk.g)
			defer env.gids.Delete(id)
			ops := out.opsOf[lk.c]
			sev := ops.do("start", lk.path+"@"+lk.vers, func(ev *clEvent) {})
			lk.from = sev.Seq
			func() {
				defer func() {
					if r := recover(); r != nil {
						lk.err = fmt.Errorf("panic: %v", r)
					}
				}()
				lk.lines, lk.err = out.clients[lk.c].Lookup(lk.path, lk.vers)
			}()
			lk.kind = clErrKind(lk.err)
			if lk.err != nil && strings.HasPrefix(lk.err.Error(), "panic:") {
				lk.kind = "panic"
			}
			env.mu.Lock()
			lk.to = len(env.trace)
			env.trace = append(env.trace, clEvent{C: lk.c, G: lk.g, Kind: "ret", File: lk.path + "@" + lk.vers, Err: lk.kind, Seq: len(env.trace)})
			env.mu.Unlock()
		}()
	}
	ok := s.run()
	if !ok {
		out.hang = true
		// give drained goroutines a moment; never wait unboundedly
		done := make(chan struct{})
		go func() { wg.Wait(); close(done) }()
		select {
		case <-done:
		case <-time.After(2 * time.Second):
		}
		env.sched = nil
		return false
	}
	wg.Wait()
	env.sched = nil
	out.schedPicks = append(out.schedPicks, strings.Join(s.picks, "."))
	s.steps = s.step
	return true
}
