package main

func init() {
	mirror("edit.session")
	mirror("edit.worksession")
}
