package main

func init() {
	mirror("edit.session")
}
