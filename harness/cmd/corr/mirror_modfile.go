package main

func init() {
	mirror("modfile.modulepath", "modfile.autoquote", "modfile.isdirpath")
}
