package main

import (
	"fmt"
	"strings"

	"golang.org/x/mod/modfile"
)

func init() {
	mirror("modfile.modulepath", "modfile.autoquote", "modfile.isdirpath", "modfile.lex", "modfile.format")
	// token level: the lexer alone (hook LexTokens, build tag verif), on every input that is parsed
	impls["modfile.lex"] = func(a []string) string {
		toks, comments, ok := modfile.LexTokens([]byte(unhx(a[0])))
		if !ok {
			return "err"
		}
		pos := func(p modfile.Position) string { return fmt.Sprintf("%d:%d:%d", p.Byte, p.Line, p.LineRune) }
		ts := make([]string, len(toks))
		for i, t := range toks {
			ts[i] = fmt.Sprintf("%d@%s-%s=%s", t.Kind, pos(t.Pos), pos(t.EndPos), hx(t.Text))
		}
		cs := "_"
		if len(comments) > 0 {
			l := make([]string, len(comments))
			for i, c := range comments {
				l[i] = fmt.Sprintf("%s=%s:%s", pos(c.Start), hx(c.Token), showBool(c.Suffix))
			}
			cs = strings.Join(l, ",")
		}
		return strings.Join(ts, ",") + " comments=" + cs
	}
	derivedOps["modfile.parsesyntax"] = func(line string) []string {
		f := strings.Fields(line)
		if len(f) != 2 || len(f[1]) > 4000 {
			return nil
		}
		return []string{"modfile.lex " + f[1]}
	}
}
