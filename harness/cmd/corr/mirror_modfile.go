package main

import (
	"fmt"
	"strings"

	"golang.org/x/mod/modfile"
)

func init() {
	mirror("modfile.modulepath", "modfile.autoquote", "modfile.isdirpath", "modfile.lex", "modfile.format", "modfile.lineless", "modfile.checkcanonical", "modfile.parsetree",
		"modfile.parse", "modfile.parselax", "modfile.parsework")
	// token level: the lexer alone (hook LexTokens, build tag verif), on every input that is parsed
	impls["modfile.lex"] = func(a []string) string {
		toks, comments, ok := modfile.LexTokens([]byte(unhx(a[0])))
		if !ok {
			return "err"
		}
		pos := func(p modfile.Position) string { return fmt.Sprintf("%d:%d:%d", p.Byte, p.Line, p.LineRune) }
		ts := make([]string, len(toks))
		for i, t := range toks {
			ts[i] = fmt.Sprintf("%d@%s-%s=%s", t.Kind, pos(t.Pos), pos(t.EndPos), hx(t.Text))
		}
		cs := "_"
		if len(comments) > 0 {
			l := make([]string, len(comments))
			for i, c := range comments {
				l[i] = fmt.Sprintf("%s=%s:%s", pos(c.Start), hx(c.Token), showBool(c.Suffix))
			}
			cs = strings.Join(l, ",")
		}
		return strings.Join(ts, ",") + " comments=" + cs
	}
	// the syntax tree alone (errors collapsed: the regenerated parser reports a syntax error as a panic, as the Go parser does internally)
	impls["modfile.parsetree"] = func(a []string) string {
		o := impls["modfile.parsesyntax"](a)
		if strings.HasPrefix(o, "err") {
			return "err"
		}
		return o
	}
	// the block-sorting comparators and checkCanonicalVersion (hooks LineLess / CheckCanonicalVersion)
	impls["modfile.lineless"] = func(a []string) string {
		return showBool(modfile.LineLess(a[0], unhxList(a[1]), unhxList(a[2])))
	}
	impls["modfile.checkcanonical"] = func(a []string) string {
		if modfile.CheckCanonicalVersion(unhx(a[0]), unhx(a[1])) != nil {
			return "err"
		}
		return "ok"
	}
	derivedOps["modfile.parsesyntax"] = func(line string) []string {
		f := strings.Fields(line)
		if len(f) != 2 || len(f[1]) > 4000 {
			return nil
		}
		out := []string{"modfile.lex " + f[1], "modfile.parsetree " + f[1]}
		// adjacent source lines of the input as token lists: realistic exclude / retract / require lines, compared with all
		// three comparators; (path, version) pairs go to checkCanonicalVersion
		var toks [][]string
		for _, l := range strings.Split(unhx(f[1]), "\n") {
			if i := strings.Index(l, "//"); i >= 0 {
				l = l[:i]
			}
			t := strings.Fields(l)
			if len(t) > 0 && (t[0] == "exclude" || t[0] == "retract" || t[0] == "require" || t[0] == "replace") {
				t = t[1:]
			}
			if len(t) > 0 && len(t) <= 6 && t[0] != "(" && t[0] != ")" {
				toks = append(toks, t)
			}
		}
		n := 0
		for i := 0; i+1 < len(toks) && n < 3; i++ {
			a, b := toks[i], toks[i+1]
			if len(a) == 1 && strings.HasPrefix(a[0], "[") {
				continue
			}
			n++
			for _, k := range []string{"line", "exclude", "retract"} {
				out = append(out, "modfile.lineless "+k+" "+hxList(a)+" "+hxList(b), "modfile.lineless "+k+" "+hxList(b)+" "+hxList(a))
			}
			if len(a) >= 2 {
				out = append(out, "modfile.checkcanonical "+hx(a[0])+" "+hx(a[1]))
			}
		}
		return out
	}
}
