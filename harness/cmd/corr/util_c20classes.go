package main

// C20 — two more input classes of the generator / the implementation-only oracle (used by c20.go only).
//
//  1. "fixer rejects a LATER directive" (c20Fix…): files with several version-carrying directives
//     (retract lines, lines of retract blocks, intervals, mixed with require lines) of which the 2nd / 3rd /
//     last one carries a version the stub fixer rejects, parsed WITH the stub fixer, and an oracle clause
//     that compares the position of every fixer error with the start of the physical line of the directive
//     it is about, located independently of the parser by searching the source text for the rejected version.
//  2. "one very long physical line" (c20Long…): a line of 65535 / 65536 / 70000 / 200000 bytes in front of,
//     or being, the module directive.

import (
	"fmt"
	"sort"
	"strings"
	"unicode/utf8"

	"golang.org/x/mod/modfile"
)

// ---- class 1: the fixer rejects a directive that is not the first one
//
// Why it was missing: retract versions are only handed to the caller's fixer after the whole file has been
// read (File.fixRetract), so an error of that pass is positioned through the typed entry, not through the
// line being parsed. The random files parse with the stub fixer in 35% of the parse ops, hold at most a
// few retract directives, and an odd version (12% of the odd-scaled atoms) that the fixer rejects was
// practically always either alone or the first retract of the file; the generic position clause
// (line/column/byte agree with each other) cannot tell WHICH directive an error belongs to anyway.
//
// The class: N >= 2 directives, each with a text that occurs once in the file; every subset of them rejected
// by the fixer (plain error / module error), as single versions and as either end of an interval, quoted or
// bare, as top-level lines, block lines or both, with the module directive first / last / in the middle /
// missing, rationale comments with multi-byte runes before and behind, LF and CRLF.

type c20FixDir struct {
	verb string // "retract" or "require"
	key  string // occurs in exactly one physical line of the file: the directive's line
	kind string // "" = every version of the directive is accepted by the stub fixer; else the error kind
}

type c20FixFile struct {
	src       string
	hasModule bool
	dirs      []c20FixDir
}

func c20FixID(i int) string { return string([]byte{'a' + byte(i/26%26), 'a' + byte(i%26), 'q'}) }

var c20FixRationales = []string{"", "", " // published by accident", " // défaut de série", "\t//続き", " //", "  // \U0001F600 oops"}
var c20FixBefores = []string{"", "", "", "// rationale line\n", "// résumé: 続く\n// second line\n", "//\n"}

// c20FixVersionTokens: the version tokens of directive i and what the stub fixer does with them.
// status 0 accepted, 1 plain error, 2 module error; shape 0 single version, 1 interval (rejected low end),
// 2 interval (rejected high end), 3 interval (both ends rejected: the low one is reported); quote 0 bare,
// 1 "…" (the directive layer reserves `…` and '…': such a version never reaches the fixer).
func c20FixVersionTokens(i, status, shape, quote int) (text, key, kind string) {
	q := func(s string) string {
		if quote%2 == 1 {
			return "\"" + s + "\""
		}
		return s
	}
	lo, hi := fmt.Sprintf("v1.%d.0", 100+i), fmt.Sprintf("v1.%d.5", 100+i)
	if status == 0 {
		if i%5 == 3 && shape == 0 {
			return "latest", "", "" // fixable, not unique: the caller supplies a key of its own
		}
		if shape == 0 {
			return q(lo), lo, ""
		}
		return "[" + q(lo) + ", " + hi + "]", lo, ""
	}
	pre, other, kind := "bad", "modbad", "fix-error"
	if status == 2 {
		pre, other, kind = "modbad", "bad", "fix-module-error"
	}
	bad := pre + c20FixID(i)
	key = "bad" + c20FixID(i)
	switch shape % 4 {
	case 0:
		return q(bad), key, kind
	case 1:
		return "[" + q(bad) + ", " + hi + "]", key, kind
	case 2:
		return "[" + lo + " , " + q(bad) + " ]", key, kind
	}
	return "[" + q(bad) + "," + other + c20FixID(i) + "]", key, kind
}

// c20FixBuild assembles one member. statuses[i] is the fixer's verdict on retract directive i; form 0: all
// top-level lines, 1: one block, 2: a line and then a block, 3: a block and then lines; modPos 0 first,
// 1 last, 2 in the middle, 3 missing; reqStatus -1 no require line, else the status of one require line
// placed after the first retract group; k varies the secondary layout (shapes, quoting, comments, indentation, CRLF).
func c20FixBuild(statuses []int, form, modPos, reqStatus, k int) c20FixFile {
	var f c20FixFile
	n := len(statuses)
	lineOf := func(i int, inBlock bool) string {
		text, key, kind := c20FixVersionTokens(i, statuses[i], (k+i)%4, (k/4+i)%3)
		rat := c20FixRationales[(k+3*i)%len(c20FixRationales)]
		if key == "" {
			key = "uniq" + c20FixID(i)
			rat = " // " + key
		}
		f.dirs = append(f.dirs, c20FixDir{"retract", key, kind})
		if inBlock {
			ind := []string{"\t", "    ", "\t\t", ""}[(k/2+i)%4]
			before := strings.ReplaceAll(c20FixBefores[(k+i)%len(c20FixBefores)], "//", ind+"//")
			return before + ind + text + rat + "\n"
		}
		ind := []string{"", "", " ", "\t"}[(k/3+i)%4]
		return c20FixBefores[(k+i)%len(c20FixBefores)] + ind + "retract" + []string{" ", "\t", "  "}[(k+i)%3] + text + rat + "\n"
	}
	block := func(from, to int) string {
		s := "retract (" + c20FixRationales[k%2*2] + "\n"
		for i := from; i < to; i++ {
			if (k+i)%5 == 4 {
				s += "\n"
			}
			s += lineOf(i, true)
		}
		return s + ")\n"
	}
	lines := func(from, to int) string {
		s := ""
		for i := from; i < to; i++ {
			s += lineOf(i, false)
			if (k+i)%3 == 0 {
				s += "\n"
			}
		}
		return s
	}
	var groups []string
	switch form % 4 {
	case 0:
		groups = []string{lines(0, 1), lines(1, n)}
	case 1:
		groups = []string{block(0, n)}
	case 2:
		groups = []string{lines(0, 1), block(1, n)}
	default:
		cut := n - 1
		groups = []string{block(0, cut), lines(cut, n)}
	}
	if reqStatus >= 0 {
		text, key, kind := c20FixVersionTokens(n, reqStatus, 0, k/5)
		if key == "" {
			text, key = "v1.900.0", "v1.900.0"
		}
		f.dirs = append(f.dirs, c20FixDir{"require", key, kind})
		req := "require example.com/dep " + text + " // indirect\n"
		groups = append(groups[:1:1], append([]string{req}, groups[1:]...)...)
	}
	mod := []string{"module example.com/m\n", "// Deprecated: ü\nmodule \"example.com/m\" // the module\n", "module\texample.com/m\n"}[k%3]
	goLine := []string{"go 1.21\n", "", "\ngo 1.21\n\n"}[(k/2)%3]
	var parts []string
	switch modPos % 4 {
	case 0:
		parts = append([]string{mod, goLine}, groups...)
		f.hasModule = true
	case 1:
		parts = append(append([]string{goLine}, groups...), mod)
		f.hasModule = true
	case 2:
		parts = append([]string{goLine, groups[0], mod}, groups[1:]...)
		f.hasModule = true
	default:
		parts = append([]string{goLine}, groups...)
	}
	f.src = strings.Join(parts, "")
	switch (k / 7) % 5 {
	case 3:
		f.src = strings.ReplaceAll(f.src, "\n", "\r\n")
	case 4:
		f.src = strings.TrimSuffix(f.src, "\n")
	}
	return f
}

// c20FixSweep: exhaustive small scope — 2 and 3 retract directives × every accept/reject pattern × form ×
// position of the module directive (the kinds of rejection, shapes, quoting and layout cycle with k).
func c20FixSweep(f func(c20FixFile)) {
	k := 0
	for n := 2; n <= 3; n++ {
		for pat := 0; pat < 1<<n; pat++ {
			for form := 0; form < 4; form++ {
				for modPos := 0; modPos < 4; modPos++ {
					st := make([]int, n)
					for i := range st {
						if pat>>i&1 == 1 {
							st[i] = 1 + (k+i)%2
						}
					}
					req := -1
					if k%6 == 5 {
						req = k / 6 % 3
					}
					f(c20FixBuild(st, form, modPos, req, k))
					k += 11 // co-prime with the layout cycle lengths
				}
			}
		}
	}
}

// c20FixRandom: the same family with 2..7 directives and random choices.
func c20FixRandom(r *Rand) c20FixFile {
	st := make([]int, 2+r.Intn(6))
	for i := range st {
		if r.Chance(40) {
			st[i] = 1 + r.Intn(2)
		}
	}
	if r.Chance(50) { // the shape the class exists for: only a later one is rejected
		st[0] = 0
		st[1+r.Intn(len(st)-1)] = 1 + r.Intn(2)
	}
	modPos := r.Intn(4)
	if modPos == 3 && r.Chance(50) {
		modPos = r.Intn(3)
	}
	return c20FixBuild(st, r.Intn(4), modPos, r.Intn(4)-1, r.Intn(1<<20))
}

// c20LineStartOf locates the physical line of data that contains key and returns the position of its first
// byte that is not a blank or a tab — computed from the text alone. ok is false when key does not occur in
// exactly one line (a generator mistake: the case is then skipped, never reported).
func c20LineStartOf(data, key string) (modfile.Position, bool) {
	i := strings.Index(data, key)
	if i < 0 {
		return modfile.Position{}, false
	}
	ls := strings.LastIndexByte(data[:i], '\n') + 1
	le := len(data)
	if j := strings.IndexByte(data[i:], '\n'); j >= 0 {
		le = i + j
	}
	if strings.LastIndex(data, key) > le {
		return modfile.Position{}, false
	}
	p := ls
	for p < le && (data[p] == ' ' || data[p] == '\t') {
		p++
	}
	return modfile.Position{Line: 1 + strings.Count(data[:ls], "\n"), LineRune: 1 + utf8.RuneCountInString(data[ls:p]), Byte: p}, true
}

// c20OracleFix — clause "every error is positioned at the start of the line of the directive it is about",
// for the errors whose subject the oracle knows by construction:
//   - an error of the version fixer is about a directive carrying a version the fixer rejects (with that kind
//     of rejection); when there are as many such errors as such directives, about pairwise different ones;
//   - "no module directive found, so retract cannot be used" is about a retract directive.
//
// Strict and lax parser, stub fixer. Nothing is said about which errors must be reported.
func c20OracleFix(g *Gen, f c20FixFile, tag string) {
	type pk struct {
		pos  modfile.Position
		kind string
	}
	var want []pk
	retractAt := map[modfile.Position]bool{}
	for _, d := range f.dirs {
		p, ok := c20LineStartOf(f.src, d.key)
		if !ok {
			g.Case("generator-skip:" + tag)
			return
		}
		if d.verb == "retract" {
			retractAt[p] = true
			if !f.hasModule {
				continue // the fixer is never asked
			}
		}
		if d.kind != "" {
			want = append(want, pk{p, d.kind})
		}
	}
	less := func(l []pk) func(i, j int) bool {
		return func(i, j int) bool {
			if l[i].pos.Byte != l[j].pos.Byte {
				return l[i].pos.Byte < l[j].pos.Byte
			}
			return l[i].kind < l[j].kind
		}
	}
	sort.Slice(want, less(want))
	h := hx(f.src)
	for _, mode := range []string{"parse", "parselax"} {
		op := "modfile." + mode + " stub " + h
		c20Guard(g, mode, []string{op}, func() {
			var err error
			if mode == "parse" {
				_, err = modfile.Parse(c20FileName, []byte(f.src), c20FixStub)
			} else {
				_, err = modfile.ParseLax(c20FileName, []byte(f.src), c20FixStub)
			}
			g.Case(tag)
			var got []pk
			for _, e := range c20ErrList(err) {
				switch k := c20ErrKind(e); k {
				case "fix-error", "fix-module-error":
					got = append(got, pk{e.Pos, k})
					g.Case(tag + ":fixer-error")
				case "retract-no-module":
					g.Case(tag + ":no-module-error")
					if !retractAt[e.Pos] {
						g.Fail("retract-without-module error not positioned at the start of a retract directive's line",
							fmt.Sprintf("%s: error at %s, input=%q", mode, c20Pos(e.Pos), f.src), op)
					}
				}
			}
			sort.Slice(got, less(got))
			for _, x := range got {
				found := false
				for _, w := range want {
					found = found || w == x
				}
				if !found {
					g.Fail("fixer error not positioned at the start of the line of a directive whose version the fixer rejects",
						fmt.Sprintf("%s: %s error at %s, rejected directives start at %v, input=%q", mode, x.kind, c20Pos(x.pos), want, f.src), op)
					return
				}
			}
			if len(got) == len(want) {
				if len(want) > 0 {
					g.Case(tag + ":one-error-per-rejected-directive")
				}
				for i := range got {
					if got[i] != want[i] {
						g.Fail("two fixer errors positioned at the same directive although different directives are rejected",
							fmt.Sprintf("%s: errors at %v, rejected directives start at %v, input=%q", mode, got, want, f.src), op)
						return
					}
				}
			}
		})
	}
	// and everything the generic clauses say about any input
	c20OracleInput(g, f.src, tag+":generic")
}

// c20GenFix: correspondence ops for one member — both directive-layer entry points with the stub fixer
// (errors are dumped as position:kind), every fourth member also without fixer.
func c20GenFix(g *Gen, f c20FixFile, tag string, i int) {
	h := hx(f.src)
	c20Emit(g, "modfile.parse stub "+h, true, tag)
	c20Emit(g, "modfile.parselax stub "+h, true, tag)
	if i%4 == 0 {
		c20Emit(g, "modfile.parse nofix "+h, true, tag)
	}
}

// ---- class 2: one very long physical line in front of, or being, the module directive
//
// Why it was missing: the quick tier's long lines are 3–8 kB (the thorough tier's up to 240 kB, but they
// are module lines whose path ends in '/', unterminated strings, comments WITHOUT a module directive behind
// them, or lines of a retract block: none is an accepted file with a module directive at or behind the long
// line, so the ModulePath clause never applied to one). Line-oriented readers have buffer limits at powers
// of two; 64 KiB is the default of the standard library's line scanner.
//
// The class: (what makes the line long: comment, blanks, a long path / value / suffix comment of another
// directive, the module directive's own path — quoted or bare —, its deprecation comment, the gap between
// its tokens, its indentation) × (length of the physical line without terminator: 65535, 65536, 70000,
// 200000) × (LF / CRLF), the module directive directly behind the long line or some statements later.

var c20LongSizes = []int{65535, 65536, 70000, 200000}

// shapes whose long line holds ONE long token that the directive layer unquotes / checks as a path
var c20LongTokenShapes = map[string]bool{"require-path-before": true, "module-quoted-path": true, "module-bare-path": true, "module-quoted-path-and-comment": true}

// c20NoMirrorParse: while set, modfile.parse ops are not repeated on the regenerated Lean code.
var c20NoMirrorParse = false

func init() {
	mirrorFilter["modfile.parse"] = func(string) bool { return !c20NoMirrorParse }
}

var c20LongShapes = []string{"comment-before", "blanks-before", "require-path-before", "godebug-value-before", "go-suffix-comment-before",
	"module-quoted-path", "module-bare-path", "module-deprecation-comment", "module-token-gap", "module-indented", "module-quoted-path-and-comment", "token-run-before"}

// c20LongFill returns exactly n bytes of filler; k selects ASCII / two-byte runes / words.
func c20LongFill(n, k int, words bool) string {
	if n <= 0 {
		return ""
	}
	switch {
	case words && k%3 == 1:
		s := strings.Repeat("é", n/2)
		return s + strings.Repeat("x", n-len(s))
	case words && k%3 == 2:
		s := strings.Repeat("ab cd ", n/6)
		return s + strings.Repeat("x", n-len(s))
	}
	return strings.Repeat("x", n)
}

// c20LongFile: one member; the long physical line has exactly n bytes (terminator not counted).
func c20LongFile(shape string, n int, crlf bool, k int) string {
	const mod = "module example.com/m\n"
	pad := func(pre, post string, words bool) string {
		return pre + c20LongFill(n-len(pre)-len(post), k, words) + post
	}
	between := []string{"", "\ngo 1.21\n\nrequire a.b/c v1.0.0\n\n", "// c\n"}[k%3]
	var s string
	switch shape {
	case "comment-before":
		s = pad("// ", "", true) + "\n" + between + mod
	case "blanks-before":
		s = strings.Repeat([]string{" ", "\t", " \t"}[k%3], n)[:n] + "\n" + between + mod
	case "require-path-before":
		s = pad("require example.com/", " v1.0.0", false) + "\n" + between + mod
	case "godebug-value-before":
		s = pad("godebug key=", "", false) + "\n" + between + mod
	case "go-suffix-comment-before":
		s = pad("go 1.21 // ", "", true) + "\n" + []string{"", "// c\n"}[k%2] + mod
	case "module-quoted-path":
		s = "// c\n" + pad("module \"example.com/", "\"", false) + "\ngo 1.21\n"
	case "module-bare-path":
		s = pad("module example.com/", "", false) + "\n\ngo 1.21\n"
	case "module-quoted-path-and-comment":
		s = pad("module \"example.com/", "\" // c", false) + "\n"
	case "module-deprecation-comment":
		s = "go 1.21\n" + pad("module example.com/m // Deprecated: ", "", true) + "\n"
	case "module-token-gap":
		s = "module" + strings.Repeat([]string{" ", "\t"}[k%2], n-len("moduleexample.com/m")) + "example.com/m\n" + "go 1.21\n"
	case "module-indented":
		s = "// c\n\n" + strings.Repeat(" ", n-len(mod)+1) + mod
	default: // token-run-before: not a valid file for the directive layer (totality and positions only)
		s = pad("x ", "", true)[:n-1] + "y\n" + mod
	}
	if k%5 == 4 {
		s = strings.TrimSuffix(s, "\n")
	}
	if crlf {
		// the terminator is not part of the counted length
		s = strings.ReplaceAll(s, "\n", "\r\n")
	}
	return s
}

// c20LongSweep: every shape × size × terminator.
func c20LongSweep(f func(s, shape string, n int)) {
	k := 0
	for _, shape := range c20LongShapes {
		for _, n := range c20LongSizes {
			for _, crlf := range []bool{false, true} {
				f(c20LongFile(shape, n, crlf, k), shape, n)
				k += 7
			}
		}
	}
}
