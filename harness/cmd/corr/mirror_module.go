package main

func init() {
	mirror("module.checkpath", "module.checkimportpath", "module.checkfilepath", "module.splitpathversion", "module.matchpathmajor",
		"module.checkpathmajor", "module.pathmajorprefix", "module.check", "module.escapepath", "module.escapeversion",
		"module.unescapepath", "module.unescapeversion", "module.matchprefixpatterns")
	mirror("pseudo.pseudoversion", "pseudo.zeropseudo", "pseudo.ispseudo", "pseudo.iszeropseudo", "pseudo.base", "pseudo.rev")
}
