package main

// C19 — sumdb/dirhash: the h1 hash is the documented formula over names and bytes only.
//
// Implementation side of the `dirhash.*` ops (real dirhash.Hash1 / DirFiles / HashDir / HashZip, real
// directories under /verif/work, real zips written by archive/zip and by golang.org/x/mod/zip.Create),
// the generator, and the implementation-only oracle transcribing C19.

import (
	archzip "archive/zip"
	"bytes"
	"compress/flate"
	"crypto/sha256"
	"encoding/base64"
	"encoding/hex"
	"errors"
	"fmt"
	"hash/crc32"
	"io"
	"io/fs"
	"os"
	"path"
	"path/filepath"
	"sort"
	"strconv"
	"strings"
	"sync"
	"sync/atomic"
	"time"

	"golang.org/x/mod/module"
	"golang.org/x/mod/sumdb/dirhash"
	modzip "golang.org/x/mod/zip"
)

var c19ErrOpen = errors.New("c19: open failed")

var c19Counter int64

// c19Scratch returns a fresh scratch directory under /verif/work; the caller removes it.
func c19Scratch() string {
	n := atomic.AddInt64(&c19Counter, 1)
	base := os.Getenv("VERIF_WORK")
	if base == "" {
		base = "/verif/work"
	}
	if abs, err := filepath.Abs(base); err == nil {
		base = abs
	}
	d := filepath.Join(base, fmt.Sprintf("c19-%d-%d", os.Getpid(), n))
	if err := os.MkdirAll(d, 0o755); err != nil {
		panic(err)
	}
	return d
}

// c19Spellings are spellings of the directory /S/c19root (S = the scratch directory); all but the first
// are not in filepath.Clean form.
var c19Spellings = []string{
	"/S/c19root",
	"/S/c19root/",
	"/S/c19root//",
	"/S//c19root",
	"/S/c19root/.",
	"/S/./c19root",
	"/S/c19root/../c19root",
	"/S/x/../c19root", // x need not exist: DirFiles and filepath.Join clean lexically
	"/S/.//c19root/./.",
	"/S/c19root/./",
}

// c19RelSpelling names /S/c19root relative to a working directory: `cwd` is a symbolic absolute path
// below /S, `dir` is what DirFiles/HashDir are called with after chdir(cwd).
//
// Input class added for the gap r3-C19-b: every directory was handed to DirFiles/HashDir as an absolute path
// (c19Spellings), so the `dir == "."` case of DirFiles (dir cleans to ".", Walk reports top-level entries
// without any directory part in front) and relative names with leading ".." were never executed; the trees
// now also have top-level names starting with "." (and their twins without the dot), for which stripping
// the directory part from the walked path is delicate exactly in that case.
type c19RelSpelling struct{ cwd, dir string }

var c19RelSpellings = []c19RelSpelling{
	{"/S/c19root", "."},
	{"/S/c19root", "./"},
	{"/S/c19root", "./."},
	{"/S/c19root", ".//"},
	{"/S/c19root", "../c19root"},
	{"/S/c19root", "../c19root/"},
	{"/S/c19root", ".././c19root/."},
	{"/S", "c19root"},
	{"/S", "./c19root"},
	{"/S", "c19root/"},
	{"/S", "c19root/."},
	{"/S", "c19root/../c19root"},
	{"/S", "x/../c19root"}, // x need not exist: cleaned lexically
}

// c19RelSpellingsFor adds the spellings that go through a directory d of the tree: d/.. from the root,
// .. from d.
func c19RelSpellingsFor(rels []string) []c19RelSpelling {
	out := append([]c19RelSpelling(nil), c19RelSpellings...)
	seen := map[string]bool{}
	for _, r := range rels {
		i := strings.IndexByte(r, '/')
		if i <= 0 || seen[r[:i]] || len(seen) >= 2 {
			continue
		}
		d := r[:i]
		seen[d] = true
		out = append(out, c19RelSpelling{"/S/c19root", d + "/.."}, c19RelSpelling{"/S/c19root/" + d, ".."},
			c19RelSpelling{"/S/c19root/" + d, "../."}, c19RelSpelling{"/S/c19root/" + d, "../" + d + "/.."})
	}
	return out
}

// c19Spell substitutes the real (clean, absolute) scratch directory for the symbolic /S.
func c19Spell(scratch, sp string) string {
	return scratch + strings.TrimPrefix(sp, "/S")
}

// c19Reader is an io.Reader that hands its data out in one of the ways the io.Reader contract allows:
// at most `chunk` bytes per call (0 = as many as fit: short reads that are NOT the end of the data),
// the last bytes together with io.EOF instead of a separate (0, io.EOF) call, and calls that return
// (0, nil) ("nothing happened", which a caller must not take for the end).  It deliberately has no
// WriteTo method, so that io.Copy and its replacements really go through Read.
//
// Input class added for the gap r3-C19-a: `open` used to return strings.Readers only, which deliver a whole
// file in one call (io.Copy even bypasses Read through WriterTo), so a Hash1 that stops at the first
// short read, or mishandles (n, io.EOF) / (0, nil), hashed every generated file set correctly.  C19 is
// stated over the bytes of the files, whatever reader `open` returns (zip entries, pipes, network bodies).
type c19Reader struct {
	data    string
	pos     int
	chunk   int
	eofData bool // the final bytes come with io.EOF in the same call
	stutter bool // every other call returns (0, nil)
	calls   int
}

func (r *c19Reader) Read(p []byte) (int, error) {
	r.calls++
	if len(p) == 0 {
		return 0, nil
	}
	if r.stutter && r.calls%2 == 1 {
		return 0, nil
	}
	if r.pos >= len(r.data) {
		return 0, io.EOF
	}
	n := len(p)
	if r.chunk > 0 && n > r.chunk {
		n = r.chunk
	}
	n = copy(p[:n], r.data[r.pos:])
	r.pos += n
	if r.eofData && r.pos == len(r.data) {
		return n, io.EOF
	}
	return n, nil
}

// c19Deliveries are the delivery patterns; pattern 0 is the plain strings.Reader.
const c19Deliveries = 10

// c19NewReader returns a reader of c with delivery pattern k (0 <= k < c19Deliveries).
func c19NewReader(c string, k int) io.Reader {
	switch k {
	case 1:
		return &c19Reader{data: c, chunk: 1}
	case 2:
		return &c19Reader{data: c, chunk: 3}
	case 3:
		return &c19Reader{data: c, chunk: 7}
	case 4:
		return &c19Reader{data: c, chunk: 64}
	case 5:
		return &c19Reader{data: c, chunk: 1000}
	case 6:
		return &c19Reader{data: c, eofData: true}
	case 7:
		return &c19Reader{data: c, chunk: 5, eofData: true}
	case 8:
		return &c19Reader{data: c, chunk: 4, stutter: true}
	case 9:
		return &c19Reader{data: c, chunk: 4096}
	}
	return strings.NewReader(c)
}

// c19Delivery picks the delivery pattern of a file from its name and length (FNV-1a), so that the same op
// line always reads its files the same way.
func c19Delivery(name string, n int) int {
	h := uint32(2166136261)
	for i := 0; i < len(name); i++ {
		h = (h ^ uint32(name[i])) * 16777619
	}
	h = (h ^ uint32(n)) * 16777619
	h ^= h >> 15
	return int(h % c19Deliveries)
}

// c19Open builds the in-memory `open` of a pair list: the first pair with the name; a name without a
// content (contents shorter than names) fails to open.  The readers deliver their content in a pattern
// that depends on the file (c19Delivery); c19OpenWhole delivers every file in one piece.
func c19Open(names, contents []string) func(string) (io.ReadCloser, error) {
	return c19OpenWith(names, contents, c19Delivery)
}

func c19OpenWhole(names, contents []string) func(string) (io.ReadCloser, error) {
	return c19OpenWith(names, contents, func(string, int) int { return 0 })
}

func c19OpenWith(names, contents []string, delivery func(string, int) int) func(string) (io.ReadCloser, error) {
	m := map[string]string{}
	for i, n := range names {
		if i >= len(contents) {
			break
		}
		if _, ok := m[n]; !ok {
			m[n] = contents[i]
		}
	}
	return func(name string) (io.ReadCloser, error) {
		c, ok := m[name]
		if !ok {
			return nil, c19ErrOpen
		}
		return io.NopCloser(c19NewReader(c, delivery(name, len(c)))), nil
	}
}

// c19CwdMu serialises changes of the process working directory.
var c19CwdMu sync.Mutex

// c19WithCwd runs f with the working directory cwd and restores the previous one; it reports false
// (f not run) when the directory cannot be entered.  Only C19 code runs in a C19 process and ops/oracle
// cases are evaluated one at a time, so nothing else observes the temporary working directory.
func c19WithCwd(cwd string, f func()) bool {
	c19CwdMu.Lock()
	defer c19CwdMu.Unlock()
	old, err := os.Getwd()
	if err != nil {
		return false
	}
	if err := os.Chdir(cwd); err != nil {
		return false
	}
	defer os.Chdir(old)
	f()
	return true
}

func c19Err(err error) string {
	var pe *os.PathError
	switch {
	case errors.Is(err, c19ErrOpen):
		return "err:open"
	case strings.Contains(err.Error(), "filenames with newlines"):
		return "err:newline"
	case strings.HasSuffix(err.Error(), "is not a directory") && !errors.As(err, &pe):
		return "err:notdir"
	case errors.As(err, &pe):
		if pe.Op == "lstat" {
			return "err:walk"
		}
		return "err:open" // open or read
	}
	return "err:other"
}

func c19Res(s string, err error) string {
	if err != nil {
		if s != "" {
			return "err:nonempty-result-with-error"
		}
		return c19Err(err)
	}
	return hx(s)
}

// c19DocSummary is the documented summary, computed without the dirhash package: one line per listed
// file, sorted bytewise by name: hex SHA-256 of the content, two spaces, the name, newline.
func c19DocSummary(names []string, content func(string) string) string {
	s := append([]string(nil), names...)
	sort.Slice(s, func(i, j int) bool { return bytes.Compare([]byte(s[i]), []byte(s[j])) < 0 })
	var b strings.Builder
	for _, n := range s {
		d := sha256.Sum256([]byte(content(n)))
		b.WriteString(hex.EncodeToString(d[:]))
		b.WriteString("  ")
		b.WriteString(n)
		b.WriteString("\n")
	}
	return b.String()
}

func c19DocHash(summary string) string {
	d := sha256.Sum256([]byte(summary))
	return "h1:" + base64.StdEncoding.EncodeToString(d[:])
}

// c19MakeTree creates root (kind "dir": with the files; "file": a regular file; "missing": nothing).
func c19MakeTree(root, kind string, rels, contents []string) error {
	switch kind {
	case "missing":
		return nil
	case "file":
		return os.WriteFile(root, []byte("x"), 0o644)
	}
	if err := os.MkdirAll(root, 0o755); err != nil {
		return err
	}
	for i, r := range rels {
		p := filepath.Join(root, filepath.FromSlash(r))
		if err := os.MkdirAll(filepath.Dir(p), 0o755); err != nil {
			return err
		}
		c := ""
		if i < len(contents) {
			c = contents[i]
		}
		if err := os.WriteFile(p, []byte(c), 0o644); err != nil {
			return err
		}
	}
	return nil
}

type c19File struct {
	name string
	data []byte
}

func (f c19File) Path() string                 { return f.name }
func (f c19File) Lstat() (os.FileInfo, error)  { return c19FileInfo{f}, nil }
func (f c19File) Open() (io.ReadCloser, error) { return io.NopCloser(bytes.NewReader(f.data)), nil }

type c19FileInfo struct{ f c19File }

func (fi c19FileInfo) Name() string       { return path.Base(fi.f.name) }
func (fi c19FileInfo) Size() int64        { return int64(len(fi.f.data)) }
func (fi c19FileInfo) Mode() os.FileMode  { return 0o644 }
func (fi c19FileInfo) ModTime() time.Time { return time.Time{} }
func (fi c19FileInfo) IsDir() bool        { return false }
func (fi c19FileInfo) Sys() interface{}   { return nil }

// c19CreateModZip writes the module zip for the files with zip.Create.
func c19CreateModZip(zipPath string, m module.Version, rels, contents []string) error {
	var files []modzip.File
	for i, r := range rels {
		files = append(files, c19File{r, []byte(contents[i])})
	}
	f, err := os.Create(zipPath)
	if err != nil {
		return err
	}
	if err := modzip.Create(f, m, files); err != nil {
		f.Close()
		return err
	}
	return f.Close()
}

// c19WriteRawZip writes an archive with exactly these entries, in order, with archive/zip.
func c19WriteRawZip(zipPath string, names, contents []string) error {
	f, err := os.Create(zipPath)
	if err != nil {
		return err
	}
	zw := archzip.NewWriter(f)
	for i, n := range names {
		w, err := zw.Create(n)
		if err != nil {
			f.Close()
			return err
		}
		if i < len(contents) && contents[i] != "" {
			if _, err := w.Write([]byte(contents[i])); err != nil {
				f.Close()
				return err
			}
		}
	}
	if err := zw.Close(); err != nil {
		f.Close()
		return err
	}
	return f.Close()
}

// ---- histories: a call that fails while READING a file, then another call (gap r5-C19-a)
//
// Input class added for the gap r5-C19-a: every op and every oracle case was a single call (or several
// successful ones), and the only failures were failures of `open` itself or of the newline test, which
// happen before a byte of the file is consumed. C19 says the h1 hash is a function of names and bytes
// ONLY, so it must not depend on what the process did before either: the class "a Hash1/HashZip call
// that fails in the middle of reading a file (a reader that returns an error after k bytes, with or
// without the last bytes in the same Read; a zip entry whose CRC does not match, which archive/zip
// reports only after all bytes were delivered), followed at once - same goroutine - by a Hash1 / HashZip /
// HashDir call" was missing. Any state the package keeps between calls (a reused hasher or buffer) is
// only observable through such a two-call history. The op `dirhash.after` carries the whole history in
// one line, so that it replays in one goroutine of one process.

var c19ErrRead = errors.New("c19: read failed")

// c19FailReader delivers data and then fails; together: the error comes in the same Read call as the
// last bytes (as io.Reader allows), otherwise in a call of its own.
type c19FailReader struct {
	data     string
	pos      int
	together bool
}

func (r *c19FailReader) Read(p []byte) (int, error) {
	if len(p) == 0 {
		return 0, nil
	}
	n := copy(p, r.data[r.pos:])
	r.pos += n
	if r.pos >= len(r.data) && (r.together || n == 0) {
		return n, c19ErrRead
	}
	return n, nil
}

// c19OpenFailing is c19Open, except that the reader of `bad` fails after at most k bytes.
func c19OpenFailing(names, contents []string, bad string, k int, together bool) func(string) (io.ReadCloser, error) {
	open := c19Open(names, contents)
	content := map[string]string{}
	for i := len(names) - 1; i >= 0; i-- {
		if i < len(contents) {
			content[names[i]] = contents[i]
		}
	}
	return func(name string) (io.ReadCloser, error) {
		c, ok := content[name]
		if name != bad || !ok {
			return open(name)
		}
		if k < len(c) {
			c = c[:k]
		}
		return io.NopCloser(&c19FailReader{data: c, together: together}), nil
	}
}

// c19WriteCrcZip writes the archive of c19WriteRawZip, except that every entry named `bad` is written
// (archive/zip CreateRaw; stored, or deflated when deflate is set) with a CRC-32 that does not match its
// data: reading such an entry delivers all its bytes and then fails with zip.ErrChecksum.
func c19WriteCrcZip(zipPath string, names, contents []string, bad string, deflate bool) error {
	f, err := os.Create(zipPath)
	if err != nil {
		return err
	}
	defer f.Close()
	zw := archzip.NewWriter(f)
	for i, n := range names {
		c := ""
		if i < len(contents) {
			c = contents[i]
		}
		if n == bad {
			data := []byte(c)
			crc := crc32.ChecksumIEEE(data) ^ 0x5a5a5a5a
			if crc == 0 { // 0 means "not set" to the reader
				crc = 1
			}
			fh := &archzip.FileHeader{Name: n, Method: archzip.Store, CRC32: crc, UncompressedSize64: uint64(len(data))}
			raw := data
			if deflate {
				var buf bytes.Buffer
				fw, err := flate.NewWriter(&buf, flate.DefaultCompression)
				if err != nil {
					return err
				}
				fw.Write(data)
				if err := fw.Close(); err != nil {
					return err
				}
				fh.Method = archzip.Deflate
				raw = buf.Bytes()
			}
			fh.CompressedSize64 = uint64(len(raw))
			w, err := zw.CreateRaw(fh)
			if err != nil {
				return err
			}
			if _, err := w.Write(raw); err != nil {
				return err
			}
			continue
		}
		w, err := zw.Create(n)
		if err != nil {
			return err
		}
		if c != "" {
			if _, err := w.Write([]byte(c)); err != nil {
				return err
			}
		}
	}
	return zw.Close()
}

// c19After is a two-call history: a first call that (usually) fails while reading the file `bad`, then
// a second call whose result C19 fixes.
//
//	k1 = read: Hash1(fnames, open) where the reader of `bad` fails after k bytes (together: see c19FailReader)
//	k1 = crc:  HashZip of the archive with the entries (fnames, fcontents) where the entries named `bad`
//	           have a wrong CRC-32 (k = 0: stored, otherwise deflated)
//	k2 = hash1 / hashzip / hashdir: Hash1(names, open) / HashZip of the raw archive with these entries /
//	           HashDir(directory with the files names, prefix)
type c19After struct {
	k1               string
	fnames, fcontent []string
	bad              string
	k                int
	together         bool
	k2, prefix       string
	names, contents  []string
}

func (o c19After) line() string {
	return "dirhash.after " + o.k1 + " " + hxList(o.fnames) + " " + hxList(o.fcontent) + " " + hx(o.bad) + " " + fmt.Sprint(o.k) + " " +
		showBool(o.together) + " " + o.k2 + " " + hx(o.prefix) + " " + hxList(o.names) + " " + hxList(o.contents)
}

// run prepares both fixtures first, so that the two calls follow each other directly in this goroutine.
func (o c19After) run() (h1 string, e1 error, h2 string, e2 error, ok bool) {
	h1, e1, h2, e2, _, _, ok = o.runBase(false)
	return
}

// runBase: with base, the second call is also made once BEFORE the first one (result h0, e0).
func (o c19After) runBase(base bool) (h1 string, e1 error, h2 string, e2 error, h0 string, e0 error, ok bool) {
	if strings.HasSuffix(o.bad, "/") && o.k1 == "crc" {
		return // a directory entry is never read: archive/zip does not check its CRC
	}
	scratch := c19Scratch()
	defer os.RemoveAll(scratch)
	var first, second func() (string, error)
	switch o.k1 {
	case "read":
		open := c19OpenFailing(o.fnames, o.fcontent, o.bad, o.k, o.together)
		first = func() (string, error) { return dirhash.Hash1(o.fnames, open) }
	case "crc":
		z := filepath.Join(scratch, "crc.zip")
		if c19WriteCrcZip(z, o.fnames, o.fcontent, o.bad, o.k != 0) != nil {
			return
		}
		first = func() (string, error) { return dirhash.HashZip(z, dirhash.Hash1) }
	default:
		return
	}
	switch o.k2 {
	case "hash1":
		open := c19Open(o.names, o.contents)
		second = func() (string, error) { return dirhash.Hash1(o.names, open) }
	case "hashzip":
		z := filepath.Join(scratch, "raw.zip")
		if c19WriteRawZip(z, o.names, o.contents) != nil {
			return
		}
		second = func() (string, error) { return dirhash.HashZip(z, dirhash.Hash1) }
	case "hashdir":
		root := filepath.Join(scratch, "c19root")
		if c19MakeTree(root, "dir", o.names, o.contents) != nil {
			return
		}
		second = func() (string, error) { return dirhash.HashDir(root, o.prefix, dirhash.Hash1) }
	default:
		return
	}
	if base {
		h0, e0 = second()
	}
	h1, e1 = first()
	h2, e2 = second()
	return h1, e1, h2, e2, h0, e0, true
}

// c19ResRead is c19Res for calls whose readers may fail: a read error (ours, or a zip checksum error) is
// the same error kind as an open error in the model.
func c19ResRead(s string, err error) string {
	if err != nil && s == "" && (errors.Is(err, c19ErrRead) || errors.Is(err, archzip.ErrChecksum)) {
		return "err:open"
	}
	return c19Res(s, err)
}

// ---- zips whose entry names are not canonical fs.FS paths (gap r5-C19-b)
//
// Input class added for the gap r5-C19-b: the h1 formula is defined for every newline-free name, and
// HashZip works "by entry name": the name listed is the raw name of the entry and the content is the
// content of that entry. archive/zip also offers a second, NORMALISED view of the same archive (fs.FS:
// clean slash-separated valid UTF-8 paths, backslashes turned into slashes, leading "/" and "../"
// stripped), and the two views coincide on exactly the names the zip package itself writes. The raw-zip
// ops had a few such names by accident of the name pool ("./a", "/a", "a/", "\xff"), but the ORACLE only
// hashed archives made by zip.Create / CreateFromDir, so the search never saw an archive on which the
// two views differ. The class: entry names with a leading "./", "/" or "../", an empty element ("//"),
// a "." or ".." element, a backslash, a trailing slash (explicit directory entry) or bytes that are not
// UTF-8 - applied to module-zip-like names (p@v1/go.mod) and to the pool names; for each such archive
// HashZip must be the documented formula over (entry name, entry content).

var c19ZipBases = []string{"p@v1/go.mod", "p@v1/a.go", "p@v1/sub/b.go", "example.com/m@v1.0.0/a.go", "example.com/m@v1.0.0/sub/a.go",
	"example.com/m@v1.0.0/go.mod", "a", "a/b", "a/b/c.go", "é/x.go"}

// c19NonCanon rewrites a name into a spelling that is not a canonical fs.FS path.
func c19NonCanon(r *Rand, n string) string {
	if !strings.Contains(n, "/") && r.Chance(60) {
		n = r.Pick([]string{"d", "p@v1", "a"}) + "/" + n
	}
	at := func(repl string) string { // replace one of the slashes
		var idx []int
		for i := 0; i < len(n); i++ {
			if n[i] == '/' {
				idx = append(idx, i)
			}
		}
		if len(idx) == 0 {
			return n + repl + "x"
		}
		i := idx[r.Intn(len(idx))]
		return n[:i] + repl + n[i+1:]
	}
	switch r.Intn(16) {
	case 0:
		return "./" + n
	case 1:
		return "/" + n
	case 2:
		return "../" + n
	case 3:
		return at("//")
	case 4:
		return at("/./")
	case 5:
		return at("/../")
	case 6:
		return at("\\")
	case 7:
		return strings.ReplaceAll(n, "/", "\\")
	case 8:
		return n + "/" // explicit directory entry
	case 9:
		return n + r.Pick([]string{"\xff", "\xe9", "\xc3", "\xed\xa0\x80"})
	case 10:
		return at("/caf\xe9/")
	case 11:
		return n + "/."
	case 12:
		return n + "/.."
	case 13:
		return "//" + n
	case 14:
		return r.Pick([]string{".", "..", "./", "../", "/", "\\", "./.", "a/..", "a/.", ".\\a"})
	}
	return "./" + at("//")
}

func c19IsCanonFS(n string) bool { return fs.ValidPath(n) && n != "." && !strings.Contains(n, "\\") }

// c19GenZipSet: the entries of a raw archive: pool names and module-zip-like names, a share of them in a
// non-canonical spelling; directory entries carry no data. dup: allow a repeated name.
func c19GenZipSet(r *Rand, dup bool) (names, contents []string, noncanon int) {
	names, contents = c19GenSet(r, dup)
	if len(names) == 0 && r.Chance(70) {
		names, contents = []string{"a"}, []string{c19GenContent(r)}
	}
	share := []int{0, 20, 50, 100}[r.Intn(4)]
	seen := map[string]bool{}
	for i := range names {
		if r.Chance(share) {
			base := names[i]
			if r.Chance(50) || strings.Contains(base, "\n") {
				base = r.Pick(c19ZipBases)
			}
			if n := c19NonCanon(r, base); dup || !seen[n] {
				names[i] = n
			}
		}
		seen[names[i]] = true
	}
	if !dup && !c19Distinct(names) { // a rewritten name met a pool name: drop the later ones
		var n2, c2 []string
		s2 := map[string]bool{}
		for i := range names {
			if !s2[names[i]] {
				s2[names[i]] = true
				n2, c2 = append(n2, names[i]), append(c2, contents[i])
			}
		}
		names, contents = n2, c2
	}
	for i := range names {
		if strings.HasSuffix(names[i], "/") {
			contents[i] = ""
		}
		if !c19IsCanonFS(names[i]) {
			noncanon++
		}
	}
	return
}

func init() {
	impls["dirhash.after"] = func(a []string) string {
		k, err := strconv.Atoi(a[4])
		if err != nil || len(a) != 10 {
			return "bad-op"
		}
		o := c19After{k1: a[0], fnames: unhxList(a[1]), fcontent: unhxList(a[2]), bad: unhx(a[3]), k: k, together: a[5] == "true",
			k2: a[6], prefix: unhx(a[7]), names: unhxList(a[8]), contents: unhxList(a[9])}
		h1, e1, h2, e2, ok := o.run()
		if !ok {
			return "err:setup"
		}
		return c19ResRead(h1, e1) + " " + c19ResRead(h2, e2)
	}
	impls["dirhash.sort"] = func(a []string) string {
		l := append([]string(nil), unhxList(a[0])...)
		sort.Strings(l)
		return hxList(l)
	}
	impls["dirhash.clean"] = func(a []string) string { return hx(filepath.Clean(unhx(a[0]))) }
	impls["dirhash.join"] = func(a []string) string { return hx(filepath.Join(unhx(a[0]), unhx(a[1]))) }
	impls["dirhash.sha256"] = func(a []string) string {
		d := sha256.Sum256([]byte(unhx(a[0])))
		return hx(string(d[:]))
	}
	impls["dirhash.hash1"] = func(a []string) string {
		names, contents := unhxList(a[0]), unhxList(a[1])
		return c19Res(dirhash.Hash1(names, c19Open(names, contents)))
	}
	// The summary is not observable on the real code; it is reported only when the real Hash1 confirms it
	// (Hash1 == "h1:" + base64(sha256(summary))), so the op localises a hash1 disagreement to the summary.
	impls["dirhash.summary"] = func(a []string) string {
		names, contents := unhxList(a[0]), unhxList(a[1])
		open := c19Open(names, contents)
		h, err := dirhash.Hash1(names, open)
		if err != nil {
			return c19Res(h, err)
		}
		s := c19DocSummary(names, func(n string) string {
			r, _ := open(n)
			b, _ := io.ReadAll(r)
			return string(b)
		})
		if c19DocHash(s) != h {
			return "summary-not-confirmed-by-Hash1"
		}
		return hx(s)
	}
	impls["dirhash.dirfiles"] = func(a []string) string {
		kind, prefix, rels := a[0], unhx(a[1]), unhxList(a[2])
		scratch := c19Scratch()
		defer os.RemoveAll(scratch)
		root := filepath.Join(scratch, "c19root")
		if err := c19MakeTree(root, kind, rels, nil); err != nil {
			return "err:setup"
		}
		files, err := dirhash.DirFiles(root, prefix)
		if err != nil {
			return c19Err(err)
		}
		return hxList(files)
	}
	impls["dirhash.hashdir"] = func(a []string) string {
		kind, prefix, rels, contents := a[0], unhx(a[1]), unhxList(a[2]), unhxList(a[3])
		scratch := c19Scratch()
		defer os.RemoveAll(scratch)
		root := filepath.Join(scratch, "c19root")
		if err := c19MakeTree(root, kind, rels, contents); err != nil {
			return "err:setup"
		}
		return c19Res(dirhash.HashDir(root, prefix, dirhash.Hash1))
	}
	// DirFiles / HashDir called with a (possibly unclean) spelling of the directory: the op carries the
	// spelling over the symbolic scratch directory /S, e.g. /S/c19root/, /S//c19root, /S/c19root/../c19root.
	impls["dirhash.dirfilesat"] = func(a []string) string {
		sp, kind, prefix, rels := unhx(a[0]), a[1], unhx(a[2]), unhxList(a[3])
		scratch := c19Scratch()
		defer os.RemoveAll(scratch)
		if err := c19MakeTree(filepath.Join(scratch, "c19root"), kind, rels, nil); err != nil {
			return "err:setup"
		}
		files, err := dirhash.DirFiles(c19Spell(scratch, sp), prefix)
		if err != nil {
			return c19Err(err)
		}
		return hxList(files)
	}
	impls["dirhash.hashdirat"] = func(a []string) string {
		sp, kind, prefix, rels, contents := unhx(a[0]), a[1], unhx(a[2]), unhxList(a[3]), unhxList(a[4])
		scratch := c19Scratch()
		defer os.RemoveAll(scratch)
		if err := c19MakeTree(filepath.Join(scratch, "c19root"), kind, rels, contents); err != nil {
			return "err:setup"
		}
		return c19Res(dirhash.HashDir(c19Spell(scratch, sp), prefix, dirhash.Hash1))
	}
	// DirFiles / HashDir called with a name of the directory relative to a working directory: the op carries
	// the working directory (symbolic, below /S) and the relative name, e.g. /S/c19root and ".", /S and
	// "c19root", /S/c19root/sub and "..".
	impls["dirhash.dirfilesrel"] = func(a []string) string {
		cwd, dir, kind, prefix, rels := unhx(a[0]), unhx(a[1]), a[2], unhx(a[3]), unhxList(a[4])
		scratch := c19Scratch()
		defer os.RemoveAll(scratch)
		if err := c19MakeTree(filepath.Join(scratch, "c19root"), kind, rels, nil); err != nil {
			return "err:setup"
		}
		var files []string
		var err error
		if !c19WithCwd(c19Spell(scratch, cwd), func() { files, err = dirhash.DirFiles(dir, prefix) }) {
			return "err:setup"
		}
		if err != nil {
			return c19Err(err)
		}
		return hxList(files)
	}
	impls["dirhash.hashdirrel"] = func(a []string) string {
		cwd, dir, kind, prefix, rels, contents := unhx(a[0]), unhx(a[1]), a[2], unhx(a[3]), unhxList(a[4]), unhxList(a[5])
		scratch := c19Scratch()
		defer os.RemoveAll(scratch)
		if err := c19MakeTree(filepath.Join(scratch, "c19root"), kind, rels, contents); err != nil {
			return "err:setup"
		}
		var h string
		var err error
		if !c19WithCwd(c19Spell(scratch, cwd), func() { h, err = dirhash.HashDir(dir, prefix, dirhash.Hash1) }) {
			return "err:setup"
		}
		return c19Res(h, err)
	}
	impls["dirhash.hashzip"] = func(a []string) string {
		names, contents := unhxList(a[0]), unhxList(a[1])
		scratch := c19Scratch()
		defer os.RemoveAll(scratch)
		z := filepath.Join(scratch, "raw.zip")
		if err := c19WriteRawZip(z, names, contents); err != nil {
			return "err:setup"
		}
		return c19Res(dirhash.HashZip(z, dirhash.Hash1))
	}
	impls["dirhash.hashmodzip"] = func(a []string) string {
		m := module.Version{Path: unhx(a[0]), Version: unhx(a[1])}
		rels, contents := unhxList(a[2]), unhxList(a[3])
		scratch := c19Scratch()
		defer os.RemoveAll(scratch)
		z := filepath.Join(scratch, "mod.zip")
		if err := c19CreateModZip(z, m, rels, contents); err != nil {
			return "err:create"
		}
		return c19Res(dirhash.HashZip(z, dirhash.Hash1))
	}
	impls["dirhash.hashunzip"] = func(a []string) string {
		m := module.Version{Path: unhx(a[0]), Version: unhx(a[1])}
		rels, contents := unhxList(a[2]), unhxList(a[3])
		scratch := c19Scratch()
		defer os.RemoveAll(scratch)
		z := filepath.Join(scratch, "mod.zip")
		if err := c19CreateModZip(z, m, rels, contents); err != nil {
			return "err:create"
		}
		dir := filepath.Join(scratch, "c19root")
		if err := modzip.Unzip(dir, m, z); err != nil {
			return "err:unzip"
		}
		return c19Res(dirhash.HashDir(dir, m.Path+"@"+m.Version, dirhash.Hash1))
	}
	register(&Prop{ID: "C19", Gen: genC19, Oracle: oracleC19,
		Rule: "file sets of 0-12 (name, content) pairs from pools (unicode, spaces, double spaces, prefixes of each other, case pairs, newline/NUL/0xff names, hex-looking names, empty and equal contents, SHA-256 block-boundary lengths) and their permutations; real directories (trees of depth <= 3, weird prefixes) and real zips (archive/zip with duplicates and directory entries; zip.Create module zips extracted by zip.Unzip); `open` readers that deliver in short reads / data with io.EOF / empty reads; one file of 32 KiB-70 KiB (flate window, io.Copy buffer, 64 KiB boundaries) in some zips and directories; directories named relative to a working directory (., ../c19root, c19root, sub/..) with top-level dot names; trees and module zips with regular files below specially named directories (.git, .hg, .svn, .bzr, vendor, testdata, _x, .x) at depth 1-4, HashDir/HashZip against the formula over the files actually present; directory trees hashed under prefix variants (empty prefix, one element, dotted, trailing slash) with top-level dot names and their twins without the dot (.env and env), DirFiles/HashDir against the formula over (listed name, content of that file); the same directory reached through a symbolic link in an ancestor component (link shorter / longer than / as long as its target, absolute and relative targets, chains, two links, relative names after chdir; trees written directly or extracted by zip.Unzip through the link), DirFiles/HashDir equal to those of the real path and to HashZip; raw archives whose entry names are not canonical fs.FS paths (leading ./ / ../, //, . and .. elements, backslash, trailing slash, non-UTF-8), HashZip against the formula over the entries; two-call histories in one goroutine (a Hash1 whose reader fails after k bytes, or a HashZip on a CRC-damaged entry, followed by Hash1/HashZip/HashDir that must still be the formula); non-trivial = at least two files or a refusal path; distinct by op line"})
}

// ---- generators

var c19Names = []string{
	"a", "b", "A", "B", "a.go", "b.go", "a/b.go", "a/b", "a-b", "a.b", "a0", "ab", "a b", "a  b", "  a", "a  ", " ", "  ",
	"é.go", "é.go", "日本/語.go", "Ünï.txt", "go.mod", "LICENSE", "sub/go.mod", "z", "Z", "_", "~", "a/", "/a", "./a", "../a",
	"a\tb", "a\rb", "a\x00b", "\xff", "\xc3", "a\xffb", "",
	"e3b0c44298fc1c149afbf4c8996fb92427ae41e4649b934ca495991b7852b855",
	"e3b0c44298fc1c149afbf4c8996fb92427ae41e4649b934ca495991b7852b855  a",
	"example.com/m@v1.0.0/a.go", "example.com/m@v1.0.0/b.go", "example.com/m@v1.0.0/sub/a.go",
}

var c19NewlineNames = []string{"\n", "a\nb", "a\n", "\na", "a.go\ne3b0c44298fc1c149afbf4c8996fb92427ae41e4649b934ca495991b7852b855  b.go", "x\r\ny"}

const c19Alphabet = "abAB./- \x00\xff0_é"

func c19GenContent(r *Rand) string {
	switch r.Intn(12) {
	case 0, 1:
		return ""
	case 2:
		return "hello"
	case 3:
		return "package a\n"
	case 4:
		return r.Pick([]string{"a", "b", "\n", " ", "  ", "\x00"})
	case 5: // SHA-256 padding boundaries
		n := []int{55, 56, 57, 63, 64, 65, 119, 120, 127, 128}[r.Intn(10)]
		return r.Bytes(n, "ab\n")
	case 6:
		n := 200 + r.Intn(400)
		if thorough && r.Chance(10) {
			n = 3000 + r.Intn(5000)
		}
		return r.Bytes(n, "abcdefgh \n\x00\xff")
	}
	return r.Bytes(1+r.Intn(24), "abc \n\x00\xff0123")
}

// c19BigSizes: file sizes around the places where a file stops arriving in one read: the 32 KiB window of
// compress/flate (a Deflate zip entry is handed out in pieces of at most 32768 bytes), the 32 KiB buffer
// of io.Copy, and 64 KiB.
//
// Input class added for the gap r3-C19-a: every generated content was at most a few hundred bytes (8000 in
// the thorough tier), so a zip entry or a file on disk always arrived in a single read and HashZip /
// HashDir never saw a short, non-final read from archive/zip or os.File.
var c19BigSizes = []int{32767, 32768, 32769, 33000, 40000, 65535, 65536, 65537, 70000}

// c19GenBigContent returns a content of one of the boundary sizes (a little more in the thorough tier).
func c19GenBigContent(r *Rand) string {
	n := c19BigSizes[r.Intn(len(c19BigSizes))]
	if r.Chance(30) {
		n += r.Intn(3000)
	}
	if thorough && r.Chance(10) {
		n += r.Intn(131072)
	}
	// a random part (hardly compressible: literal blocks) and a repetitive part (long matches)
	k := r.Intn(n + 1)
	if r.Chance(30) {
		k = n
	}
	head := r.Bytes(k, "abcdefgh \n\x00\xff0123456789ABCDEFGHIJKLMNOPQRSTUVWXYZ")
	unit := r.Pick([]string{"a", "ab\n", "package a\n", "\x00", "0123456789abcdef"})
	return head + strings.Repeat(unit, (n-k)/len(unit)+1)[:n-k]
}

// c19MakeOneBig replaces, with probability pct percent, one content (not that of go.mod, not a directory
// entry) by a big one.
func c19MakeOneBig(r *Rand, pct int, names, contents []string) bool {
	if thorough {
		pct = (pct + 2) / 3 // 20 times as many ops: keep the volume of the op file moderate
	}
	if len(contents) == 0 || !r.Chance(pct) {
		return false
	}
	i := r.Intn(len(contents))
	if i >= len(names) || names[i] == "go.mod" || strings.HasSuffix(names[i], "/") {
		return false
	}
	contents[i] = c19GenBigContent(r)
	return true
}

func c19GenName(r *Rand) string {
	switch r.Intn(20) {
	case 0:
		return r.Pick(c19NewlineNames)
	case 1, 2:
		return r.Bytes(r.Intn(8), c19Alphabet)
	case 3:
		return mutate(r, r.Pick(c19Names), c19Alphabet+"\n")
	}
	return r.Pick(c19Names)
}

// c19GenSet returns parallel name/content lists. dup: allow a repeated name.
func c19GenSet(r *Rand, dup bool) (names, contents []string) {
	k := r.Intn(8)
	if r.Chance(10) {
		k = 8 + r.Intn(5)
	}
	seen := map[string]bool{}
	shared := c19GenContent(r)
	for len(names) < k {
		n := c19GenName(r)
		if seen[n] && !(dup && r.Chance(50)) {
			if r.Chance(30) {
				k--
			}
			continue
		}
		seen[n] = true
		names = append(names, n)
		if r.Chance(25) {
			contents = append(contents, shared)
		} else {
			contents = append(contents, c19GenContent(r))
		}
	}
	return
}

func c19Shuffle(r *Rand, names, contents []string) ([]string, []string) {
	n2 := append([]string(nil), names...)
	c2 := append([]string(nil), contents...)
	for i := len(n2) - 1; i > 0; i-- {
		j := r.Intn(i + 1)
		n2[i], n2[j] = n2[j], n2[i]
		if i < len(c2) && j < len(c2) {
			c2[i], c2[j] = c2[j], c2[i]
		}
	}
	return n2, c2
}

// path elements usable on a Linux file system (no '/', no NUL, not "." or "..")
var c19FsElems = []string{"a", "b", "A", "a.go", "b.go", "a-b", "a.b", "a0", "ab", "a b", "a  b", "é", "日本", ".a", ".hidden", "a!", "sub", "x",
	"go.mod", "\xff", "a\\b", "c19root", "..a", "a..", "-", "~", "a\nb"}

// c19SpecialElems (gap r4-C19-b): path elements that OTHER packages and tools treat specially - the
// version-control directories zip.CreateFromDir leaves out (.git, .hg, .svn, .bzr), vendor and testdata
// (go command, zip.Create's vendored-package rule), names starting with '_' or '.' (ignored by go/build).
// dirhash treats none of them specially: DirFiles lists, HashDir and HashZip hash, every regular file, and
// module.CheckFilePath accepts all of them, so a module zip may contain files below such directories.
// Names drawn from the generic element pools never spell one of them as a DIRECTORY with a regular file
// below it, so the class "tree with a file below a specially named directory, at any depth" was missing
// from the dirfiles/hashdir ops, the module-zip ops and the zip/dir oracle. c19GenTree now inserts one of
// these names as a non-final element of a path (any position, so depth 2..4) in a share of the paths, and
// sometimes uses one as a file name.
var c19SpecialElems = []string{".git", ".hg", ".svn", ".bzr", "vendor", "testdata", "_x", ".x"}

// c19BelowSpecial reports the special directory names that have a file below them in rels.
func c19BelowSpecial(rels []string) []string {
	seen := map[string]bool{}
	var out []string
	for _, p := range rels {
		parts := strings.Split(p, "/")
		for _, e := range parts[:len(parts)-1] {
			for _, s := range c19SpecialElems {
				if e == s && !seen[s] {
					seen[s] = true
					out = append(out, s)
				}
			}
		}
	}
	sort.Strings(out)
	return out
}

// c19SpecialTags: evidence tags for trees with files below specially named directories.
func c19SpecialTags(rels []string, tags ...string) []string {
	for _, s := range c19BelowSpecial(rels) {
		tags = append(tags, "file-below:"+s)
	}
	return tags
}

// c19CreateOmits: zip.Create silently leaves out files of vendored packages (zip.isVendoredPackage; for
// a go.mod without go line also x/vendor/f, golang.org/issue/37397). That is a rule of the zip package,
// not of dirhash, and the model's hashModZip has every listed file in the archive (checks/C19.json,
// trusted base), so the hashmodzip/hashunzip OPS keep "vendor" only where Create keeps the file: as a file
// name, or as the top-level directory with the file directly in it. The oracle, which reads the archive
// back, uses all trees.
func c19CreateOmits(p string) bool {
	parts := strings.Split(p, "/")
	for i, e := range parts[:len(parts)-1] {
		if e == "vendor" && !(i == 0 && len(parts) == 2) {
			return true
		}
	}
	return false
}

// c19GenTree returns a consistent set of relative slash paths (no path is both file and directory).
func c19GenTree(r *Rand, elems []string, fold bool) []string {
	k := r.Intn(7)
	if r.Chance(10) {
		k = 7 + r.Intn(6)
	}
	var rels []string
	key := func(s string) string {
		if fold {
			return strings.ToLower(s)
		}
		return s
	}
	files := map[string]bool{}
	dirs := map[string]bool{}
	for tries := 0; len(rels) < k && tries < 100; tries++ {
		depth := 1
		switch r.Intn(6) {
		case 0, 1:
			depth = 2
		case 2:
			depth = 3
		}
		var parts []string
		if len(rels) > 0 && r.Chance(40) { // share a directory with an earlier path
			p := strings.Split(rels[r.Intn(len(rels))], "/")
			parts = append(parts, p[:r.Intn(len(p))]...)
		}
		for len(parts) < depth {
			parts = append(parts, r.Pick(elems))
		}
		switch sp := r.Intn(100); {
		case sp < 18: // a specially named directory somewhere above the file
			at := r.Intn(len(parts))
			parts = append(parts[:at:at], append([]string{r.Pick(c19SpecialElems)}, parts[at:]...)...)
		case sp < 22: // a file with a special name
			parts[len(parts)-1] = r.Pick(c19SpecialElems)
		}
		p := strings.Join(parts, "/")
		ok := !files[key(p)] && !dirs[key(p)]
		for i := 1; i < len(parts) && ok; i++ {
			if files[key(strings.Join(parts[:i], "/"))] {
				ok = false
			}
		}
		if !ok {
			continue
		}
		files[key(p)] = true
		for i := 1; i < len(parts); i++ {
			dirs[key(strings.Join(parts[:i], "/"))] = true
		}
		rels = append(rels, p)
	}
	return rels
}

var c19Prefixes = []string{"", ".", "..", "./a", "a/", "a//b", "a/../b", "/", "/abs", "a/.", "../x", "x/..", "a/./b", "//a", "a\nb", "é", "../a/..", "a", "b",
	"./", "a/b/../..", "mod@v1", ".a", "..a", "../..", "../../a", "/..", "/../a", "a/../../b", "x/."}

// c19GenSpelling: mostly an unclean spelling of /S/c19root, sometimes the clean one or a missing path.
func c19GenSpelling(r *Rand) string {
	switch r.Intn(12) {
	case 0:
		return c19Spellings[0]
	case 1:
		return r.Pick([]string{"/S/nope/", "/S/c19root/nope/..//nope"})
	}
	return c19Spellings[1+r.Intn(len(c19Spellings)-1)]
}

// c19GenRelSpelling picks a working directory that exists for this kind of root (c19root itself and the
// directories below it only when it is a directory) and a relative name: mostly one of /S/c19root,
// sometimes one that leads elsewhere (missing).
func c19GenRelSpelling(r *Rand, kind string, rels []string) c19RelSpelling {
	if r.Chance(8) {
		return c19RelSpelling{"/S", r.Pick([]string{"nope", "c19root/nope/..//nope", "..c19root", ".c19root"})}
	}
	all := c19RelSpellingsFor(rels)
	if kind != "dir" {
		var up []c19RelSpelling
		for _, rs := range all {
			if rs.cwd == "/S" {
				up = append(up, rs)
			}
		}
		all = up
	}
	return all[r.Intn(len(all))]
}

func c19RelTag(rs c19RelSpelling) string {
	switch {
	case filepath.Clean(rs.dir) == ".":
		return "rel:dot"
	case strings.HasPrefix(filepath.Clean(rs.dir), ".."):
		return "rel:dotdot"
	}
	return "rel:down"
}

func c19GenPrefix(r *Rand) string {
	switch r.Intn(11) {
	case 10: // the empty prefix, a legal argument (r7-C19-a)
		return ""
	case 0, 1, 2:
		return r.Pick(c19Prefixes)
	case 3:
		return "example.com/m@v1.0.0/"
	case 4:
		return r.Bytes(r.Intn(6), "ab./")
	}
	return "example.com/m@v1.0.0"
}

// elements valid in module zips (module.CheckFilePath), pairwise distinct under case folding
var c19ModElems = []string{"a.go", "b.go", "c d.go", "é.go", "日本.txt", "LICENSE", "x-y", "x.y", "x0", "x", "sub", "internal", ".hidden", "README.md",
	"~t", "_u", "a+b", "p(1)", "q,r", "Kelvin", "main_test.go",
	// names starting with a dot, and the same names without it (r3-C19-b: see c19RelSpelling)
	".gitignore", ".github", ".x", ".sub", "hidden", "..x"}

var c19Mods = []module.Version{
	{Path: "example.com/m", Version: "v1.0.0"},
	{Path: "example.com/m", Version: "v0.0.0-20200101000000-abcdefabcdef"},
	{Path: "example.com/m/v2", Version: "v2.1.0"},
	{Path: "gopkg.in/yaml.v2", Version: "v2.4.0"},
	{Path: "github.com/Azure/go-x", Version: "v1.2.3-pre.1"},
}

// c19GenModFiles: all = also the vendored-package paths that zip.Create leaves out (see c19CreateOmits).
func c19GenModFiles(r *Rand, all bool) (rels, contents []string) {
	rels = c19GenTree(r, c19ModElems, true)
	if !all {
		kept := rels[:0]
		for _, p := range rels {
			if !c19CreateOmits(p) {
				kept = append(kept, p)
			}
		}
		rels = kept
	}
	if r.Chance(60) {
		dup := false
		for _, p := range rels {
			if strings.EqualFold(p, "go.mod") || strings.HasPrefix(strings.ToLower(p), "go.mod/") {
				dup = true
			}
		}
		if !dup {
			rels = append(rels, "go.mod")
		}
	}
	for _, p := range rels {
		if p == "go.mod" {
			contents = append(contents, "module example.com/m\n")
		} else {
			contents = append(contents, c19GenContent(r))
		}
	}
	c19MakeOneBig(r, 15, rels, contents)
	return
}

func c19GenContents(r *Rand, k int) []string {
	out := make([]string, k)
	shared := c19GenContent(r)
	for i := range out {
		if r.Chance(25) {
			out[i] = shared
		} else {
			out[i] = c19GenContent(r)
		}
	}
	return out
}

func c19BigTag(contents []string, tags ...string) []string {
	for _, c := range contents {
		if len(c) > 32768 {
			return append(tags, "big-file")
		}
	}
	return tags
}

func c19TagSet(names []string) []string {
	tags := []string{"set"}
	for _, n := range names {
		if strings.Contains(n, "\n") {
			tags = append(tags, "has-newline-name")
			break
		}
	}
	if len(names) == 0 {
		tags = append(tags, "empty-set")
	}
	return tags
}

func genC19(g *Gen, n int) {
	// fixed boundary ops first
	g.Emit("dirhash.hash1 _ _", true, "boundary")
	g.Emit("dirhash.summary _ _", true, "boundary")
	g.Emit("dirhash.hash1 "+hxList([]string{""})+" "+hxList([]string{""}), true, "boundary")
	g.Emit("dirhash.hashzip _ _", true, "boundary")
	g.Emit("dirhash.hashdir dir - _ _", true, "boundary")
	for _, sp := range c19Spellings {
		g.Emit("dirhash.dirfilesat "+hx(sp)+" dir "+hx("m@v1.0.0")+" "+hxList([]string{"a.go", "sub/b.go"}), true, "boundary", "dirfilesat")
		g.Emit("dirhash.hashdirat "+hx(sp)+" dir "+hx("m@v1.0.0")+" "+hxList([]string{"a.go", "sub/b.go"})+" "+hxList([]string{"x", ""}), true, "boundary", "hashdirat")
	}
	for _, rs := range c19RelSpellingsFor([]string{"sub/b.go"}) {
		rels := []string{"a.go", "sub/b.go", ".gitignore", ".sub/b.go", ".a.go"}
		g.Emit("dirhash.dirfilesrel "+hx(rs.cwd)+" "+hx(rs.dir)+" dir "+hx("m@v1.0.0")+" "+hxList(rels), true, "boundary", "dirfilesrel")
		g.Emit("dirhash.hashdirrel "+hx(rs.cwd)+" "+hx(rs.dir)+" dir "+hx("m@v1.0.0")+" "+hxList(rels)+" "+hxList([]string{"x", "", "y", "z", "w"}), true, "boundary", "hashdirrel")
	}
	g.Emit("dirhash.dirfilesrel "+hx("/S/c19root")+" - dir "+hx("m@v1.0.0")+" "+hxList([]string{"a.go", ".a.go", ".sub/b.go"}), true, "boundary", "dirfilesrel")
	g.Emit("dirhash.sha256 -", true, "boundary")
	g.Emit("dirhash.sha256 "+hx("abc"), true, "boundary")
	for _, o := range c19AfterBoundary() {
		g.Emit(o.line(), true, "boundary", "after:"+o.k1+"->"+o.k2)
	}
	c19LinkBoundary(g) // gap r7-C19-b: every ancestor-link layout once
	// the random stream keeps at least n/3 ops of its own, however large the fixed lists above grow (today
	// they are about 190 of the quick tier's 3000 ops, so this changes nothing)
	if n < g.st.Ops+n/3 {
		n = g.st.Ops + n/3
	}
	for g.st.Ops < n {
		switch g.Intn(22) {
		case 20, 21: // a call that fails while reading a file, then another call (r5-C19-a)
			o := c19GenAfter(g.Rand, false)
			g.Emit(o.line(), true, "after:"+o.k1+"->"+o.k2)
		case 0, 1, 2, 3, 4, 5: // hash1 on a set and on a permutation of it
			names, contents := c19GenSet(g.Rand, g.Chance(15))
			tags := c19TagSet(names)
			if g.Chance(8) && len(contents) > 0 { // a name whose open fails
				contents = contents[:len(contents)-1]
				tags = append(tags, "open-fails")
			}
			g.Emit("dirhash.hash1 "+hxList(names)+" "+hxList(contents), len(names) >= 2, tags...)
			if len(contents) == len(names) && len(names) >= 2 {
				n2, c2 := c19Shuffle(g.Rand, names, contents)
				g.Emit("dirhash.hash1 "+hxList(n2)+" "+hxList(c2), true, "permutation")
			}
		case 6, 7:
			names, contents := c19GenSet(g.Rand, g.Chance(15))
			g.Emit("dirhash.summary "+hxList(names)+" "+hxList(contents), len(names) >= 2, c19TagSet(names)...)
		case 8, 9:
			names, _ := c19GenSet(g.Rand, true)
			g.Emit("dirhash.sort "+hxList(names), len(names) >= 2, "sort")
		case 10:
			var p string
			if g.Bool() {
				p = g.Pick(c19Prefixes)
			} else {
				p = g.Bytes(g.Intn(10), "ab../")
			}
			if g.Bool() {
				g.Emit("dirhash.clean "+hx(p), true, "clean")
			} else {
				rels := c19GenTree(g.Rand, c19FsElems, false)
				rel := "a"
				if len(rels) > 0 {
					rel = rels[0]
				}
				g.Emit("dirhash.join "+hx(p)+" "+hx(rel), true, "join")
			}
		case 11, 12:
			kind := "dir"
			if g.Chance(6) {
				kind = g.Pick([]string{"missing", "file"})
			}
			rels := c19GenTree(g.Rand, c19FsElems, false)
			pfx := c19GenPrefix(g.Rand)
			g.Emit("dirhash.dirfiles "+kind+" "+hx(pfx)+" "+hxList(rels), len(rels) >= 2 || kind != "dir", c19SpecialTags(rels, "dirfiles", "root-"+kind)...)
			if g.Chance(60) { // the same directory under another spelling of its path
				sp := c19GenSpelling(g.Rand)
				g.Emit("dirhash.dirfilesat "+hx(sp)+" "+kind+" "+hx(pfx)+" "+hxList(rels), len(rels) >= 1 || kind != "dir", "dirfilesat", "spelling:"+sp)
			}
			if g.Chance(50) { // the same directory named relative to a working directory
				rs := c19GenRelSpelling(g.Rand, kind, rels)
				if kind == "dir" && g.Chance(5) {
					// DirFiles cleans "" to "."; not used with HashDir, whose filepath.Join("", "/x") is the
					// absolute path /x ("" names no directory, os.Stat("") fails)
					rs = c19RelSpelling{"/S/c19root", ""}
				}
				g.Emit("dirhash.dirfilesrel "+hx(rs.cwd)+" "+hx(rs.dir)+" "+kind+" "+hx(pfx)+" "+hxList(rels), len(rels) >= 1 || kind != "dir", "dirfilesrel", c19RelTag(rs))
			}
			if g.Chance(30) { // the same directory reached through a symbolic link (r7-C19-b)
				c19EmitLinkOps(g, true, kind, pfx, rels, nil)
			}
		case 13, 14, 15:
			kind := "dir"
			if g.Chance(6) {
				kind = g.Pick([]string{"missing", "file"})
			}
			rels := c19GenTree(g.Rand, c19FsElems, false)
			pfx, contents := c19GenPrefix(g.Rand), c19GenContents(g.Rand, len(rels))
			hdTags := c19SpecialTags(rels, "hashdir", "root-"+kind)
			if g.Chance(20) { // top-level names that differ by a leading '.' (r7-C19-a)
				var tw int
				if rels, contents, tw = c19AddDotTwins(g.Rand, rels, contents); tw > 0 {
					hdTags = append(hdTags, "dot-twins")
				}
			}
			if pfx == "" {
				hdTags = append(hdTags, "empty-prefix")
			}
			if kind == "dir" && c19MakeOneBig(g.Rand, 6, rels, contents) {
				hdTags = append(hdTags, "big-file")
			}
			g.Emit("dirhash.hashdir "+kind+" "+hx(pfx)+" "+hxList(rels)+" "+hxList(contents),
				len(rels) >= 2 || kind != "dir", hdTags...)
			if g.Chance(60) {
				sp := c19GenSpelling(g.Rand)
				g.Emit("dirhash.hashdirat "+hx(sp)+" "+kind+" "+hx(pfx)+" "+hxList(rels)+" "+hxList(contents),
					len(rels) >= 1 || kind != "dir", "hashdirat", "spelling:"+sp)
			}
			if g.Chance(50) {
				rs := c19GenRelSpelling(g.Rand, kind, rels)
				g.Emit("dirhash.hashdirrel "+hx(rs.cwd)+" "+hx(rs.dir)+" "+kind+" "+hx(pfx)+" "+hxList(rels)+" "+hxList(contents),
					len(rels) >= 1 || kind != "dir", "hashdirrel", c19RelTag(rs))
			}
			if g.Chance(30) { // the same directory reached through a symbolic link (r7-C19-b)
				c19EmitLinkOps(g, false, kind, pfx, rels, contents)
			}
		case 16, 17: // raw archive: arbitrary entry names, duplicates, directory entries
			names, contents, nc := c19GenZipSet(g.Rand, g.Chance(30))
			tags := []string{"rawzip"}
			if nc > 0 { // entry names that are not canonical fs.FS paths (r5-C19-b)
				tags = append(tags, "rawzip-noncanonical-name")
			}
			for i := range names {
				if strings.HasSuffix(names[i], "/") { // a directory entry carries no data
					tags = append(tags, "dir-entry")
					break
				}
			}
			if c19MakeOneBig(g.Rand, 10, names, contents) { // a Deflate entry longer than the flate window
				tags = append(tags, "big-file")
			}
			g.Emit("dirhash.hashzip "+hxList(names)+" "+hxList(contents), len(names) >= 2, tags...)
		case 18:
			m := c19Mods[g.Intn(len(c19Mods))]
			rels, contents := c19GenModFiles(g.Rand, false)
			g.Emit("dirhash.hashmodzip "+hx(m.Path)+" "+hx(m.Version)+" "+hxList(rels)+" "+hxList(contents), len(rels) >= 2, c19SpecialTags(rels, c19BigTag(contents, "modzip")...)...)
		default:
			m := c19Mods[g.Intn(len(c19Mods))]
			rels, contents := c19GenModFiles(g.Rand, false)
			g.Emit("dirhash.hashunzip "+hx(m.Path)+" "+hx(m.Version)+" "+hxList(rels)+" "+hxList(contents), len(rels) >= 2, c19SpecialTags(rels, c19BigTag(contents, "unzip")...)...)
		}
	}
}

// ---- oracle: C19 stated on the implementation alone

func c19Hash1(names, contents []string) (string, error) {
	return dirhash.Hash1(names, c19Open(names, contents))
}

func c19HasNL(names []string) bool {
	for _, n := range names {
		if strings.Contains(n, "\n") {
			return true
		}
	}
	return false
}

func c19Distinct(names []string) bool {
	seen := map[string]bool{}
	for _, n := range names {
		if seen[n] {
			return false
		}
		seen[n] = true
	}
	return true
}

func c19SameSet(n1, c1, n2, c2 []string) bool {
	if len(n1) != len(n2) {
		return false
	}
	m := map[string]string{}
	for i := range n1 {
		m[n1[i]] = c1[i]
	}
	for i := range n2 {
		c, ok := m[n2[i]]
		if !ok || c != c2[i] {
			return false
		}
	}
	return true
}

func c19Op(names, contents []string) string {
	return "dirhash.hash1 " + hxList(names) + " " + hxList(contents)
}

func oracleC19(g *Gen, n int) {
	contentOf := func(names, contents []string) func(string) string {
		m := map[string]string{}
		for i := len(names) - 1; i >= 0; i-- {
			m[names[i]] = contents[i]
		}
		return func(s string) string { return m[s] }
	}
	// near-miss pair: two different sets of (name, content) pairs must have different documented
	// summaries and different h1 hashes; if one of them has a newline name it must be refused instead.
	checkPair := func(tag string, n1, c1, n2, c2 []string) {
		if !c19Distinct(n1) || !c19Distinct(n2) || c19SameSet(n1, c1, n2, c2) {
			return
		}
		g.Case(tag)
		h1, e1 := c19Hash1(n1, c1)
		h2, e2 := c19Hash1(n2, c2)
		if c19HasNL(n1) != (e1 != nil) || c19HasNL(n2) != (e2 != nil) {
			g.Fail("Hash1 refuses exactly the sets with a newline name: violated", tag, c19Op(n1, c1), c19Op(n2, c2))
			return
		}
		if e1 != nil || e2 != nil {
			return
		}
		if c19DocSummary(n1, contentOf(n1, c1)) == c19DocSummary(n2, contentOf(n2, c2)) {
			g.Fail("two different file sets have the same documented summary", tag, c19Op(n1, c1), c19Op(n2, c2))
		}
		if h1 == h2 {
			g.Fail("two different file sets have the same h1 hash", tag, c19Op(n1, c1), c19Op(n2, c2))
		}
	}
	for g.st.OracleCases < n {
		names, contents := c19GenSet(g.Rand, false)
		// (1) documented formula, (4) newline names refused
		g.Case("formula")
		h, err := dirhash.Hash1(names, c19OpenWhole(names, contents))
		if c19HasNL(names) {
			g.Case("newline-refused")
			if err == nil || h != "" {
				g.Fail("a name containing a newline is not refused", h, c19Op(names, contents))
			}
		} else if err != nil {
			g.Fail("Hash1 fails on a newline-free file set", err.Error(), c19Op(names, contents))
		} else if want := c19DocHash(c19DocSummary(names, contentOf(names, contents))); h != want {
			g.Fail("Hash1 differs from h1:base64(sha256(documented summary))", h+" want "+want, c19Op(names, contents))
		}
		// (1b) bytes only: the same files served by readers that deliver them in short reads, with io.EOF
		// attached to the last bytes, or with empty reads in between (c19Reader) hash the same
		{
			g.Case("formula-short-reads")
			hs, errs := c19Hash1(names, contents)
			if hs != h || (errs == nil) != (err == nil) {
				g.Fail("Hash1 depends on how the readers returned by open deliver the bytes (short reads, data together with io.EOF, empty reads)",
					fmt.Sprintf("one read per file: %q,%v; c19Delivery patterns: %q,%v", h, err, hs, errs), c19Op(names, contents))
			}
		}
		// (2) independence of the listing order
		if len(names) >= 2 {
			g.Case("permutation")
			n2, c2 := c19Shuffle(g.Rand, names, contents)
			h2, err2 := dirhash.Hash1(n2, c19OpenWhole(n2, c2))
			if h2 != h || (err2 == nil) != (err == nil) {
				g.Fail("Hash1 depends on the listing order", h+" vs "+h2, c19Op(names, contents), c19Op(n2, c2))
			}
		}
		// (3) different sets, different summaries: near-miss pairs
		if len(names) >= 1 {
			i := g.Intn(len(names))
			cp := func() ([]string, []string) {
				return append([]string(nil), names...), append([]string(nil), contents...)
			}
			{ // move a byte between name and content
				n2, c2 := cp()
				b := g.Pick([]string{"a", " ", "0", "\x00"})
				n2[i] = names[i] + b
				c2[i] = b + contents[i]
				checkPair("move-byte-content-to-name", names, contents, n2, c2)
				n3, c3 := cp()
				c3[i] = contents[i] + b
				checkPair("append-byte-to-content", names, contents, n3, c3)
			}
			{ // two spaces inside a name: split the name at a double space into "digest-looking" parts
				n2, c2 := cp()
				d := sha256.Sum256([]byte(contents[i]))
				n2[i] = hex.EncodeToString(d[:]) + "  " + names[i]
				checkPair("name-prefixed-by-digest-and-two-spaces", names, contents, n2, c2)
				n3, c3 := cp()
				n3[i] = names[i] + "  " + names[i]
				checkPair("name-with-two-spaces", names, contents, n3, c3)
			}
			if len(names) >= 2 { // swap contents between two names; merge two lines into one name
				j := (i + 1 + g.Intn(len(names)-1)) % len(names)
				n2, c2 := cp()
				c2[i], c2[j] = c2[j], c2[i]
				checkPair("swap-contents", names, contents, n2, c2)
				// the two files i, j replaced by one file whose name spells both summary lines: it
				// contains a newline and must be refused (this is why newlines are disallowed)
				if !c19HasNL(names) {
					a, b := i, j
					if names[b] < names[a] {
						a, b = b, a
					}
					db := sha256.Sum256([]byte(contents[b]))
					merged := names[a] + "\n" + hex.EncodeToString(db[:]) + "  " + names[b]
					var n3, c3 []string
					for k := range names {
						if k != a && k != b {
							n3 = append(n3, names[k])
							c3 = append(c3, contents[k])
						}
					}
					n3 = append(n3, merged)
					c3 = append(c3, contents[a])
					checkPair("two-lines-merged-into-one-name", names, contents, n3, c3)
				}
			}
			{ // drop a file; add an empty file / a file with the empty name
				n2 := append(append([]string(nil), names[:i]...), names[i+1:]...)
				c2 := append(append([]string(nil), contents[:i]...), contents[i+1:]...)
				checkPair("drop-file", names, contents, n2, c2)
				n3, c3 := cp()
				n3 = append(n3, g.Pick([]string{"", " ", "  ", "zz"}))
				c3 = append(c3, "")
				checkPair("add-empty-file", names, contents, n3, c3)
			}
		}
		// (5) zip / directory agreement for module zips produced by the zip package
		if g.Chance(40) {
			c19OracleZipDir(g)
		}
		// (6) directory trees against the formula, with files below specially named directories
		if g.Chance(35) {
			c19OracleDirFormula(g)
		}
		// (6b) the same directory reached through symbolic links (gap r7-C19-b, util_c19fs.go)
		if g.Chance(25) {
			c19OracleLinks(g)
		}
		// (7) raw archives, entry names that are not canonical fs.FS paths: HashZip against the formula
		if g.Chance(50) {
			c19OracleRawZip(g)
		}
		// (8) names and bytes ONLY: the formula also holds right after a call that failed while reading
		if g.Chance(50) {
			c19OracleAfter(g)
		}
	}
}

// c19Guard runs f, turning a panic into an error.
func c19Guard(f func() error) (err error) {
	defer func() {
		if r := recover(); r != nil {
			err = fmt.Errorf("panic: %v", r)
		}
	}()
	return f()
}

// c19OracleSpellings checks DirFiles/HashDir on every spelling of dir (= scratch/c19root) that the
// operating system confirms to denote the same directory. It reports false after a failure.
func c19OracleSpellings(g *Gen, scratch, dir, prefix, hz string, errz error, replayBase string, rels, contents []string) bool {
	ref, err := os.Stat(dir)
	if err != nil {
		return true
	}
	var want []string
	if e := c19Guard(func() (e error) { want, e = dirhash.DirFiles(dir, prefix); return }); e != nil {
		g.Fail("DirFiles fails on the directory a module zip was extracted to", e.Error(), replayBase)
		return false
	}
	for _, sp := range c19Spellings[1:] {
		spelled := c19Spell(scratch, sp)
		fi, err := os.Stat(spelled)
		if err != nil || !os.SameFile(ref, fi) {
			continue // not a spelling of the same directory on this system (e.g. /S/x/.. with x absent)
		}
		g.Case("zip-dir-agree-spelling")
		info := fmt.Sprintf("directory spelled %q (same file as %q)", sp, "/S/c19root")
		replayAt := "dirhash.hashdirat " + hx(sp) + " dir " + hx(prefix) + " " + hxList(rels) + " " + hxList(contents)
		replayFiles := "dirhash.dirfilesat " + hx(sp) + " dir " + hx(prefix) + " " + hxList(rels)
		var got []string
		if e := c19Guard(func() (e error) { got, e = dirhash.DirFiles(spelled, prefix); return }); e != nil {
			g.Fail("DirFiles fails or panics on an unclean spelling of the extraction directory", info+": "+e.Error(), replayFiles, replayAt)
			return false
		}
		if strings.Join(got, "\x00") != strings.Join(want, "\x00") {
			g.Fail("DirFiles lists different names for two spellings of the same directory", info, replayFiles, replayAt)
			return false
		}
		var hd string
		e := c19Guard(func() (e error) { hd, e = dirhash.HashDir(spelled, prefix, dirhash.Hash1); return })
		if e != nil || errz != nil || hd != hz {
			g.Fail("HashZip of a module zip differs from HashDir of the directory it extracts to (unclean spelling of the directory path)",
				fmt.Sprintf("%s: zip=%q,%v dir=%q,%v", info, hz, errz, hd, e), replayAt, replayBase)
			return false
		}
	}
	// the same for names of the directory relative to a working directory (".", "../c19root" from inside
	// it, "c19root" from its parent, "sub/.." ...): again only spellings that the operating system
	// confirms to denote the extraction directory
	// (counted as one oracle case per tree, so that the sweep does not use up the case budget of the run)
	ok := true
	counted := false
	for _, rs := range c19RelSpellingsFor(rels) {
		if !ok {
			break
		}
		c19WithCwd(c19Spell(scratch, rs.cwd), func() {
			fi, err := os.Stat(rs.dir)
			if err != nil || !os.SameFile(ref, fi) {
				return
			}
			if !counted {
				counted = true
				g.Case("zip-dir-agree-relative-dir")
			}
			info := fmt.Sprintf("directory named %q from the working directory %q (same file as %q)", rs.dir, rs.cwd, "/S/c19root")
			replayAt := "dirhash.hashdirrel " + hx(rs.cwd) + " " + hx(rs.dir) + " dir " + hx(prefix) + " " + hxList(rels) + " " + hxList(contents)
			replayFiles := "dirhash.dirfilesrel " + hx(rs.cwd) + " " + hx(rs.dir) + " dir " + hx(prefix) + " " + hxList(rels)
			var got []string
			if e := c19Guard(func() (e error) { got, e = dirhash.DirFiles(rs.dir, prefix); return }); e != nil {
				g.Fail("DirFiles fails or panics on a relative name of the extraction directory", info+": "+e.Error(), replayFiles, replayAt)
				ok = false
				return
			}
			if strings.Join(got, "\x00") != strings.Join(want, "\x00") {
				g.Fail("DirFiles lists different names for an absolute and a relative name of the same directory",
					fmt.Sprintf("%s: %q, by absolute path %q", info, got, want), replayFiles, replayAt)
				ok = false
				return
			}
			var hd string
			e := c19Guard(func() (e error) { hd, e = dirhash.HashDir(rs.dir, prefix, dirhash.Hash1); return })
			if e != nil || errz != nil || hd != hz {
				g.Fail("HashZip of a module zip differs from HashDir of the directory it extracts to (directory named relative to the working directory)",
					fmt.Sprintf("%s: zip=%q,%v dir=%q,%v", info, hz, errz, hd, e), replayAt, replayBase)
				ok = false
			}
		})
	}
	return ok
}

// c19OracleZipDir: HashZip(zip.Create(files)) == HashDir(zip.Unzip(...), prefix) for the prefix
// "path@version" (with and without the trailing slash), also for zip.CreateFromDir.
func c19OracleZipDir(g *Gen) {
	m := c19Mods[g.Intn(len(c19Mods))]
	rels, contents := c19GenModFiles(g.Rand, true)
	if below := c19BelowSpecial(rels); len(below) > 0 {
		g.Case("zip-dir-agree-file-below-special-dir")
	}
	replay := "dirhash.hashmodzip " + hx(m.Path) + " " + hx(m.Version) + " " + hxList(rels) + " " + hxList(contents)
	replay2 := "dirhash.hashunzip " + hx(m.Path) + " " + hx(m.Version) + " " + hxList(rels) + " " + hxList(contents)
	scratch := c19Scratch()
	defer os.RemoveAll(scratch)
	z := filepath.Join(scratch, "mod.zip")
	fromDir := g.Chance(35)
	if fromDir {
		src := filepath.Join(scratch, "src")
		if err := c19MakeTree(src, "dir", rels, contents); err != nil {
			return
		}
		f, err := os.Create(z)
		if err != nil {
			return
		}
		err = modzip.CreateFromDir(f, m, src)
		f.Close()
		if err != nil {
			return // not a module zip produced by the package
		}
		g.Case("zip-dir-agree-createfromdir")
	} else {
		if err := c19CreateModZip(z, m, rels, contents); err != nil {
			return
		}
		g.Case("zip-dir-agree-create")
	}
	hz, errz := dirhash.HashZip(z, dirhash.Hash1)
	dir := filepath.Join(scratch, "c19root")
	if err := modzip.Unzip(dir, m, z); err != nil {
		g.Fail("a zip produced by the zip package does not extract", err.Error(), replay2)
		return
	}
	prefix := m.Path + "@" + m.Version
	for _, p := range []string{prefix, prefix + "/"} {
		hd, errd := dirhash.HashDir(dir, p, dirhash.Hash1)
		if errz != nil || errd != nil || hz != hd {
			g.Fail("HashZip of a module zip differs from HashDir of the directory it extracts to", fmt.Sprintf("zip=%q,%v dir=%q,%v prefix=%q fromDir=%v", hz, errz, hd, errd, p, fromDir), replay, replay2)
			return
		}
	}
	// every spelling of the extraction directory denotes the same directory (os.SameFile), so DirFiles
	// must list the same names and HashDir must equal HashZip for each of them, without error or panic.
	if !c19OracleSpellings(g, scratch, dir, prefix, hz, errz, replay2, rels, contents) {
		return
	}
	// and both equal the documented formula over the files that are there: the entries of the archive as
	// archive/zip lists them, the regular files of the extraction directory as a walk of our own finds
	// them (gap r4-C19-b: neither side may leave out or add a file, whatever its directories are called)
	if zn, zc, err := c19ReadZip(z); err == nil && c19Distinct(zn) {
		g.Case("zip-formula-over-archive-entries")
		mm := map[string]string{}
		for i := range zn {
			mm[zn[i]] = zc[i]
		}
		if want := c19DocHash(c19DocSummary(zn, func(s string) string { return mm[s] })); hz != want {
			g.Fail("HashZip of a module zip differs from the documented formula over the entries of the archive", hz+" want "+want, replay)
			return
		}
	}
	if wr, wc, err := c19WalkTree(dir); err == nil {
		g.Case("dir-formula-over-walked-files")
		if !c19CheckDirFormula(g, dir, prefix, wr, wc, replay2) {
			return
		}
	}
	// for zip.Create without files it leaves out: the formula over the listed (prefix/rel, content) pairs
	omits := false
	for _, r := range rels {
		omits = omits || c19CreateOmits(r)
	}
	if !fromDir && !omits {
		var names []string
		for _, r := range rels {
			names = append(names, prefix+"/"+r)
		}
		mm := map[string]string{}
		for i := range names {
			mm[names[i]] = contents[i]
		}
		if want := c19DocHash(c19DocSummary(names, func(s string) string { return mm[s] })); hz != want {
			g.Fail("HashZip of a created module zip differs from the documented formula", hz+" want "+want, replay)
		}
	}
}

// c19ReadZip lists the entries of an archive with archive/zip (names and contents, in archive order).
func c19ReadZip(zipPath string) (names, contents []string, err error) {
	zr, err := archzip.OpenReader(zipPath)
	if err != nil {
		return nil, nil, err
	}
	defer zr.Close()
	for _, f := range zr.File {
		rc, err := f.Open()
		if err != nil {
			return nil, nil, err
		}
		b, err := io.ReadAll(rc)
		rc.Close()
		if err != nil {
			return nil, nil, err
		}
		names = append(names, f.Name)
		contents = append(contents, string(b))
	}
	return names, contents, nil
}

// c19WalkTree finds the regular files below root with os.ReadDir (no filepath.Walk, no skipping of any
// name): relative slash paths and contents. Anything that is not a directory or a regular file is an error
// (the trees of the oracle have none).
func c19WalkTree(root string) (rels, contents []string, err error) {
	var walk func(dir, rel string) error
	walk = func(dir, rel string) error {
		ents, err := os.ReadDir(dir)
		if err != nil {
			return err
		}
		for _, e := range ents {
			p, r := filepath.Join(dir, e.Name()), e.Name()
			if rel != "" {
				r = rel + "/" + e.Name()
			}
			switch {
			case e.IsDir():
				if err := walk(p, r); err != nil {
					return err
				}
			case e.Type().IsRegular():
				b, err := os.ReadFile(p)
				if err != nil {
					return err
				}
				rels = append(rels, r)
				contents = append(contents, string(b))
			default:
				return fmt.Errorf("irregular file %s", p)
			}
		}
		return nil
	}
	err = walk(root, "")
	return
}

// c19CheckDirFormula: for a clean relative prefix without "." and ".." elements (a module path@version),
// optionally with one trailing slash, and for the EMPTY prefix (gap r7-C19-a, see util_c19fs.go),
// DirFiles(dir, prefix) lists exactly prefix/rel (rel itself under the empty prefix) for every regular file
// rel below dir, and HashDir(dir, prefix) is the documented formula over the (listed name, content of that
// file) pairs - refused iff a name has a newline.
func c19CheckDirFormula(g *Gen, dir, prefix string, rels, contents []string, replay ...string) bool {
	names := make([]string, len(rels))
	mm := map[string]string{}
	for i, r := range rels {
		names[i] = c19PrefixName(prefix, r)
		mm[names[i]] = contents[i]
	}
	var got []string
	if e := c19Guard(func() (e error) { got, e = dirhash.DirFiles(dir, prefix); return }); e != nil {
		g.Fail("DirFiles fails on a directory of regular files", e.Error(), replay...)
		return false
	}
	a, b := append([]string(nil), got...), append([]string(nil), names...)
	sort.Strings(a)
	sort.Strings(b)
	if strings.Join(a, "\x00") != strings.Join(b, "\x00") {
		g.Fail("DirFiles does not list exactly prefix/rel for every regular file below the directory",
			fmt.Sprintf("listed %q, files %q", a, b), replay...)
		return false
	}
	var hd string
	e := c19Guard(func() (e error) { hd, e = dirhash.HashDir(dir, prefix, dirhash.Hash1); return })
	if c19HasNL(names) {
		if e == nil || hd != "" {
			g.Fail("HashDir does not refuse a directory with a newline in a file name", hd, replay...)
			return false
		}
		return true
	}
	if e != nil {
		g.Fail("HashDir fails on a directory of regular files with newline-free names", e.Error(), replay...)
		return false
	}
	if want := c19DocHash(c19DocSummary(names, func(s string) string { return mm[s] })); hd != want {
		g.Fail("HashDir differs from the documented formula over the regular files below the directory", hd+" want "+want, replay...)
		return false
	}
	return true
}

// c19OracleDirFormula (gap r4-C19-b): a plain directory tree (no zip involved) over the file-system element
// pool and the special-name dictionary, hashed under a module prefix: DirFiles and HashDir against the
// file set that was written.
func c19OracleDirFormula(g *Gen) {
	rels := c19GenTree(g.Rand, c19FsElems, false)
	contents := c19GenContents(g.Rand, len(rels))
	// gap r7-C19-a: prefix variants (empty, one element, dotted, trailing slash) and top-level names that
	// differ by a leading '.' (util_c19fs.go)
	twins := 0
	if g.Chance(50) {
		rels, contents, twins = c19AddDotTwins(g.Rand, rels, contents)
	}
	prefix := c19GenExactPrefix(g.Rand)
	scratch := c19Scratch()
	defer os.RemoveAll(scratch)
	dir := filepath.Join(scratch, "c19root")
	if err := c19MakeTree(dir, "dir", rels, contents); err != nil {
		return
	}
	g.Case("dir-formula")
	if len(c19BelowSpecial(rels)) > 0 {
		g.Case("dir-formula-file-below-special-dir")
	}
	switch {
	case prefix == "" && twins > 0:
		g.Case("dir-formula-empty-prefix-dot-twins")
	case prefix == "" && c19TopDot(rels):
		g.Case("dir-formula-empty-prefix-top-level-dot-name")
	case prefix == "":
		g.Case("dir-formula-empty-prefix")
	case !strings.Contains(prefix, "@") || strings.HasSuffix(prefix, "/"):
		g.Case("dir-formula-prefix-variant")
	}
	c19CheckDirFormula(g, dir, prefix, rels, contents,
		"dirhash.hashdir dir "+hx(prefix)+" "+hxList(rels)+" "+hxList(contents),
		"dirhash.dirfiles dir "+hx(prefix)+" "+hxList(rels))
}

// ---- r5-C19-a: histories (see c19After)

// c19AfterBoundary: the fixed histories emitted first.
func c19AfterBoundary() []c19After {
	fn, fc := []string{"broken", "go.mod"}, []string{"partial content and more", "module m\n"}
	n3, c3 := []string{"go.mod", "m.go", "sub/x.go"}, []string{"module m\n", "package m\n", "package x\n"}
	z3 := []string{"p@v1/go.mod", "p@v1/m.go", "p@v1/sub/x.go"}
	return []c19After{
		{k1: "read", fnames: fn, fcontent: fc, bad: "broken", k: 15, k2: "hash1", names: n3, contents: c3},
		{k1: "read", fnames: fn, fcontent: fc, bad: "broken", k: 15, together: true, k2: "hashzip", names: z3, contents: c3},
		{k1: "read", fnames: fn, fcontent: fc, bad: "broken", k: 0, k2: "hash1", names: n3, contents: c3},
		{k1: "read", fnames: fn, fcontent: fc, bad: "broken", k: 1000, k2: "hashdir", prefix: "p@v1", names: n3, contents: c3},
		{k1: "read", fnames: fn, fcontent: fc, bad: "absent", k: 3, k2: "hash1", names: fn, contents: fc},
		{k1: "crc", fnames: z3, fcontent: c3, bad: "p@v1/m.go", k: 0, k2: "hashzip", names: z3, contents: c3},
		{k1: "crc", fnames: z3, fcontent: c3, bad: "p@v1/m.go", k: 1, k2: "hashdir", prefix: "p@v1", names: n3, contents: c3},
		{k1: "crc", fnames: z3, fcontent: c3, bad: "p@v1/go.mod", k: 1, k2: "hash1", names: z3, contents: c3},
	}
}

// c19GenAfter generates a history. oracle: the second call is one whose result C19 fixes outright
// (distinct names, a module prefix for HashDir) and the first call always has a file to fail on.
func c19GenAfter(r *Rand, oracle bool) c19After {
	var o c19After
	nonEmpty := func() string {
		for i := 0; i < 8; i++ {
			if c := c19GenContent(r); c != "" {
				return c
			}
		}
		return "partial content"
	}
	if r.Chance(60) {
		o.k1 = "read"
		o.fnames, o.fcontent = c19GenSet(r, !oracle && r.Chance(10))
		if len(o.fnames) == 0 {
			o.fnames, o.fcontent = []string{"broken"}, []string{""}
		}
		i := r.Intn(len(o.fnames))
		o.bad = o.fnames[i]
		if o.fcontent[i] == "" && r.Chance(85) {
			o.fcontent[i] = nonEmpty()
		}
		if r.Chance(8) && !thorough {
			o.fcontent[i] = c19GenBigContent(r) // many Read calls before the failure
		}
		l := len(o.fcontent[i])
		o.k = []int{0, 1, 1, l / 2, l / 2, l - 1, l, l, l + 5}[r.Intn(9)]
		if o.k < 0 {
			o.k = 0
		}
		o.together = r.Bool()
		if !oracle && r.Chance(6) {
			o.bad = r.Pick([]string{"absent", "", "a"}) // mostly no failure at all
		}
		if !oracle && r.Chance(6) {
			o.fcontent = o.fcontent[:len(o.fcontent)-1] // an open failure as well
		}
	} else {
		o.k1 = "crc"
		if r.Bool() {
			o.fnames, o.fcontent, _ = c19GenZipSet(r, !oracle && r.Chance(10))
		} else {
			rels, contents := c19GenModFiles(r, true)
			for i := range rels {
				rels[i] = "example.com/m@v1.0.0/" + rels[i]
				if len(contents[i]) > 8000 {
					contents[i] = contents[i][:8000]
				}
			}
			o.fnames, o.fcontent = rels, contents
		}
		var files []int
		for i, n := range o.fnames {
			if !strings.HasSuffix(n, "/") {
				files = append(files, i)
			}
		}
		if len(files) == 0 {
			o.fnames, o.fcontent = append(o.fnames, "broken.go"), append(o.fcontent, "")
			files = []int{len(o.fnames) - 1}
		}
		i := files[r.Intn(len(files))]
		o.bad = o.fnames[i]
		if o.fcontent[i] == "" && r.Chance(85) {
			o.fcontent[i] = nonEmpty()
		}
		if r.Chance(8) && !thorough {
			o.fcontent[i] = c19GenBigContent(r) // a deflated entry that arrives in several pieces
		}
		o.k = r.Intn(2)
	}
	switch r.Intn(3) {
	case 0:
		o.k2 = "hash1"
		if o.k1 == "read" && len(o.fcontent) == len(o.fnames) && c19Distinct(o.fnames) && r.Chance(30) {
			o.names, o.contents = append([]string(nil), o.fnames...), append([]string(nil), o.fcontent...) // the same set again
		} else {
			o.names, o.contents = c19GenSet(r, false)
		}
	case 1:
		o.k2 = "hashzip"
		o.names, o.contents, _ = c19GenZipSet(r, false)
	default:
		o.k2 = "hashdir"
		o.names = c19GenTree(r, c19FsElems, false)
		o.contents = c19GenContents(r, len(o.names))
		if oracle {
			m := c19Mods[r.Intn(len(c19Mods))]
			o.prefix = m.Path + "@" + m.Version
		} else {
			o.prefix = c19GenPrefix(r)
		}
	}
	if len(o.names) == 0 && r.Chance(80) { // the empty set hashes no file
		if o.k2 == "hashzip" {
			o.names, o.contents = []string{"p@v1/go.mod"}, []string{"module p\n"}
		} else {
			o.names, o.contents = []string{"go.mod"}, []string{"module p\n"}
		}
	}
	return o
}

// c19OracleAfter: the result of a Hash1 / HashZip / HashDir call is the documented formula over the names
// and bytes of THAT call (or the refusal of a newline name), also when the call before it failed in the
// middle of reading a file.
func c19OracleAfter(g *Gen) {
	o := c19GenAfter(g.Rand, true)
	// the second call is also made once before the first one: when that result is already not what C19 says,
	// the input is one for the single-call checks (formula, raw zips, directories), not a matter of history
	h1, e1, h2, e2, h0, e0, ok := o.runBase(true)
	if !ok {
		return
	}
	g.Case("after-" + o.k1 + "-then-" + o.k2)
	if e1 != nil {
		g.Case("after-a-call-that-failed")
		if errors.Is(e1, c19ErrRead) || errors.Is(e1, archzip.ErrChecksum) {
			g.Case("after-a-call-that-failed-reading")
		}
	}
	names := o.names
	if o.k2 == "hashdir" {
		names = make([]string, len(o.names))
		for i, r := range o.names {
			names[i] = o.prefix + "/" + r
		}
	}
	mm := map[string]string{}
	for i := range names {
		mm[names[i]] = o.contents[i]
	}
	what := "Hash1"
	switch o.k2 {
	case "hashzip":
		what = "HashZip"
	case "hashdir":
		what = "HashDir"
	}
	first := "a Hash1 call whose reader failed in the middle of a file"
	if o.k1 == "crc" {
		first = "a HashZip call on an archive with a CRC-damaged entry"
	}
	info := fmt.Sprintf("first call: %s -> %q,%v; then %s -> %q,%v (the same call before the first one: %q,%v)", first, h1, e1, what, h2, e2, h0, e0)
	want := c19DocHash(c19DocSummary(names, func(s string) string { return mm[s] }))
	if c19HasNL(names) {
		if e0 == nil {
			return
		}
		if e2 == nil || h2 != "" {
			g.Fail("a name containing a newline is not refused by the call that follows a failed call", info, o.line())
		}
		return
	}
	if e0 != nil || h0 != want {
		return
	}
	if e2 != nil {
		g.Fail("the call that follows a call that failed while reading a file fails on a newline-free file set", info, o.line())
		return
	}
	if h2 != want {
		g.Fail("the h1 hash depends on the history of the process: right after a call that failed while reading a file, the result differs from the documented formula over names and bytes",
			info+" want "+want, o.line())
	}
}

// ---- r5-C19-b: raw archives against the formula (see c19NonCanon)

// c19OracleRawZip: HashZip of an archive with distinct entry names is the documented formula over the
// (entry name, entry content) pairs - refused iff a name contains a newline - whatever the names look like.
func c19OracleRawZip(g *Gen) {
	names, contents, nc := c19GenZipSet(g.Rand, false)
	if !c19Distinct(names) {
		return
	}
	scratch := c19Scratch()
	defer os.RemoveAll(scratch)
	z := filepath.Join(scratch, "raw.zip")
	if c19WriteRawZip(z, names, contents) != nil {
		return
	}
	// the archive really has these entries (archive/zip reads back what it wrote)
	if zn, zc, err := c19ReadZip(z); err != nil || strings.Join(zn, "\n\x00") != strings.Join(names, "\n\x00") || strings.Join(zc, "\n\x00") != strings.Join(contents, "\n\x00") {
		return
	}
	g.Case("rawzip-formula")
	if nc > 0 {
		g.Case("rawzip-formula-noncanonical-name")
	}
	replay := "dirhash.hashzip " + hxList(names) + " " + hxList(contents)
	var hz string
	e := c19Guard(func() (e error) { hz, e = dirhash.HashZip(z, dirhash.Hash1); return })
	if c19HasNL(names) {
		if e == nil || hz != "" {
			g.Fail("HashZip does not refuse an archive with a newline in an entry name", hz, replay)
		}
		return
	}
	var odd []string
	for _, n := range names {
		if !c19IsCanonFS(n) {
			odd = append(odd, n)
		}
	}
	if e != nil {
		g.Fail("HashZip fails on an archive with distinct newline-free entry names", fmt.Sprintf("%v; entry names that are not canonical fs.FS paths: %q", e, odd), replay)
		return
	}
	mm := map[string]string{}
	for i := range names {
		mm[names[i]] = contents[i]
	}
	if want := c19DocHash(c19DocSummary(names, func(s string) string { return mm[s] })); hz != want {
		g.Fail("HashZip differs from the documented formula over the entries (name, content) of the archive",
			fmt.Sprintf("%s want %s; entry names that are not canonical fs.FS paths: %q", hz, want, odd), replay)
	}
}
