package main

// C18 — pseudo-versions: construction, recognition, round trip, ordering.

import (
	"errors"
	"hash/fnv"
	"math/big"
	"strings"
	"time"

	"golang.org/x/mod/module"
	"golang.org/x/mod/semver"
)

const c18Layout = "20060102150405"

// seconds since the Unix epoch of 0001-01-01T00:00:00Z and 9999-12-31T23:59:59Z
const (
	c18MinSecs int64 = -62135596800
	c18MaxSecs int64 = 253402300799
)

// c18Time builds the time.Time for an instant given in Unix seconds.  Nanoseconds and the zone are
// derived from a hash of the op's arguments: they vary from op to op, replay exactly, and must not
// influence any output (the model never sees them).
func c18Time(secs int64, salt string) time.Time {
	h := fnv.New64a()
	h.Write([]byte(salt))
	x := h.Sum64()
	nanos := int64(x % 1000000000)
	off := int((x>>32)%100801) - 50400 // -14h .. +14h, to the second
	switch (x >> 20) % 4 {
	case 0:
		return time.Unix(secs, nanos).UTC()
	case 1:
		return time.Unix(secs, nanos) // time.Local
	}
	return time.Unix(secs, nanos).In(time.FixedZone("z", off))
}

func c18ErrKind(err error) string {
	var ive *module.InvalidVersionError
	if !errors.As(err, &ive) || !ive.Pseudo || ive.Err == nil {
		return "err:other"
	}
	m := ive.Err.Error()
	switch {
	case m == "syntax error":
		return "err:syntax"
	case strings.HasPrefix(m, "malformed time"):
		return "err:time"
	case strings.HasPrefix(m, "lacks base version"):
		return "err:build"
	case strings.HasPrefix(m, "version before"):
		return "err:negative"
	}
	return "err:other"
}

const c18FixedTail = "-0.19700101000000-r"

func init() {
	impls["pseudo.pseudoversion"] = func(a []string) string {
		t := c18Time(atoi64(a[2]), strings.Join(a, " "))
		return hx(module.PseudoVersion(unhx(a[0]), unhx(a[1]), t, unhx(a[3])))
	}
	impls["pseudo.format"] = func(a []string) string {
		return hx(c18Time(atoi64(a[0]), a[0]).UTC().Format(module.PseudoVersionTimestampFormat))
	}
	impls["pseudo.zeropseudo"] = func(a []string) string { return hx(module.ZeroPseudoVersion(unhx(a[0]))) }
	impls["pseudo.ispseudo"] = func(a []string) string { return showBool(module.IsPseudoVersion(unhx(a[0]))) }
	impls["pseudo.iszeropseudo"] = func(a []string) string { return showBool(module.IsZeroPseudoVersion(unhx(a[0]))) }
	impls["pseudo.base"] = func(a []string) string {
		b, err := module.PseudoVersionBase(unhx(a[0]))
		if err != nil {
			return c18ErrKind(err)
		}
		return hx(b)
	}
	impls["pseudo.rev"] = func(a []string) string {
		r, err := module.PseudoVersionRev(unhx(a[0]))
		if err != nil {
			return c18ErrKind(err)
		}
		return hx(r)
	}
	impls["pseudo.time"] = func(a []string) string {
		t, err := module.PseudoVersionTime(unhx(a[0]))
		if err != nil {
			return c18ErrKind(err)
		}
		if t.Location() != time.UTC {
			return "not-utc"
		}
		return hx(t.Format(c18Layout))
	}
	// incDecimal and decDecimal are unexported.  They are reached through the exported API on the
	// inputs that API can give them (valid patch numbers): PseudoVersion("v0","v0.0.<d>",…) calls
	// incDecimal(d), PseudoVersionBase("v0.0.<d>-0.<ts>-r") calls decDecimal(d).
	impls["pseudo.incdecimal"] = func(a []string) string {
		d := unhx(a[0])
		older := "v0.0." + d
		if !semver.IsValid(older) {
			return "unreachable-through-api"
		}
		pv := module.PseudoVersion("v0", older, time.Unix(0, 0), "r")
		if !strings.HasPrefix(pv, "v0.0.") || !strings.HasSuffix(pv, c18FixedTail) {
			return "unexpected:" + hx(pv)
		}
		return hx(strings.TrimSuffix(strings.TrimPrefix(pv, "v0.0."), c18FixedTail))
	}
	impls["pseudo.decdecimal"] = func(a []string) string {
		d := unhx(a[0])
		pv := "v0.0." + d + c18FixedTail
		if !module.IsPseudoVersion(pv) {
			return "unreachable-through-api"
		}
		b, err := module.PseudoVersionBase(pv)
		if err != nil {
			if c18ErrKind(err) == "err:negative" { // decDecimal returned ""
				return "-"
			}
			return c18ErrKind(err)
		}
		if !strings.HasPrefix(b, "v0.0.") {
			return "unexpected:" + hx(b)
		}
		return hx(strings.TrimPrefix(b, "v0.0."))
	}
	// pseudo.history k:<hex> k:<hex> …  — a call HISTORY: the calls are made one after the other in this process
	// (k = i IsPseudoVersion, b PseudoVersionBase, r PseudoVersionRev, t PseudoVersionTime), results as "[r1,r2,…]".
	// The model answers each call on its own (pure functions), so an answer that depends on the calls made before
	// it is a disagreement that reproduces when the one line is re-run alone.
	impls["pseudo.history"] = func(a []string) string {
		outs := make([]string, len(a))
		for i, tok := range a {
			j := strings.IndexByte(tok, ':')
			if j != 1 {
				return "bad-op"
			}
			op := map[byte]string{'i': "pseudo.ispseudo", 'b': "pseudo.base", 'r': "pseudo.rev", 't': "pseudo.time"}[tok[0]]
			if op == "" {
				return "bad-op"
			}
			outs[i] = impls[op]([]string{tok[2:]})
		}
		return "[" + strings.Join(outs, ",") + "]"
	}
	impls["pseudo.compare"] = func(a []string) string { return itoa(semver.Compare(unhx(a[0]), unhx(a[1]))) }
	register(&Prop{ID: "C18", Gen: c18Gen, Oracle: c18Oracle,
		Rule: "PseudoVersion on (major, base, instant, revision): bases from the semver grammar incl. prereleases, shortened forms, +incompatible and other build metadata (grammar-built build identifiers incl. digits-only ones with leading zeroes, where build and prerelease grammars differ), patch numbers of 1-40 digits with all-nines carries and 10…0 borrows; instants across years 1-9999 UTC incl. range boundaries, leap days, year ends, the 1970 epoch and negative Unix seconds (a few outside the range), the Go side in a hash-derived zone with hash-derived nanoseconds; revisions alnum 1-40; the parsers on generated pseudo-versions, grammar-built look-alikes (invalid dates, 13/15-digit stamps, build parts, nested -0. forms) and one-byte mutations; call HISTORIES (pseudo.history: Base/Time/Rev/IsPseudoVersion calls made one after the other on a family of pseudo-versions that differ only in the build suffix — none, +incompatible, grammar-built — interleaved with unrelated pseudo-versions, unparsable strings and one-byte mutations, in both orders); non-trivial = base valid or empty and revision alnum, or parser input is a pseudo-version or one mutation from one; distinct by op line"})
}

// ---- generators

const c18Alnum = "0123456789abcdefghijklmnopqrstuvwxyzABCDEFGHIJKLMNOPQRSTUVWXYZ"
const c18Hex = "0123456789abcdef"

func c18GenPatch(r *Rand) string {
	switch r.Intn(12) {
	case 0:
		return "0"
	case 1:
		return "9"
	case 2:
		return strings.Repeat("9", 1+r.Intn(40)) // carry out of the top digit
	case 3:
		return "1" + strings.Repeat("0", r.Intn(40)) // borrow down to all nines
	case 4:
		return string(digits[1+r.Intn(9)]) + r.Bytes(r.Intn(20), digits) + strings.Repeat("9", 1+r.Intn(20))
	case 5:
		return string(digits[1+r.Intn(9)]) + r.Bytes(r.Intn(20), digits) + strings.Repeat("0", 1+r.Intn(20))
	case 6:
		return string(digits[1+r.Intn(9)]) + r.Bytes(39, digits)
	case 7:
		return r.Pick([]string{"1", "8", "10", "19", "99", "100", "109", "199", "18446744073709551615", "18446744073709551616", "9223372036854775807"})
	}
	return genNum(r)
}

// c18GenBase returns a base version for PseudoVersion and whether it is valid-or-empty.
func c18GenBase(r *Rand) (string, bool) {
	v, _ := c18GenBase0(r)
	// the shared grammar generator occasionally yields a leading-zero numeric prerelease identifier.
	// Validity is decided by the documented grammar (c18ParseSpec), not by asking the implementation.
	_, ok := c18ParseSpec(v)
	return v, v == "" || ok
}

// c18GenBuildIdent: one identifier of the BUILD grammar, [0-9A-Za-z-]+ .  Input class added for the place
// where the build grammar and the prerelease grammar differ: a digits-only build identifier MAY have leading
// zeroes (v1.0.0+001, +build.007, +2024.01.05) whereas a prerelease one may not.  Identifiers drawn uniformly
// from [0-9A-Za-z-] are almost never digits-only, two or more long and zero-led, so the class was absent.
func c18GenBuildIdent(r *Rand) string {
	switch r.Intn(9) {
	case 0:
		return "0" + r.Bytes(1+r.Intn(5), digits) // numeric with a leading zero
	case 1:
		return strings.Repeat("0", 2+r.Intn(4)) // all zeroes, two or more
	case 2:
		return r.Pick([]string{"0", "00", "01", "001", "007", "010", "0123", "05", "09", "0-", "-0", "-01", "0a", "00a", "01-", "0-1",
			"incompatible", "sha", "build", "exp", "meta"})
	case 3:
		return genNum(r) // numeric without leading zero (1-40 digits)
	case 4:
		return r.Bytes(1+r.Intn(8), digits) // any digit string
	case 5:
		return r.Bytes(1+r.Intn(4), identAlpha)
	case 6:
		return r.Bytes(1+r.Intn(3), digits) + r.Bytes(1, "abc-") + r.Bytes(r.Intn(3), digits)
	}
	return r.Bytes(1+r.Intn(6), digits+identAlpha)
}

// c18GenBuild: "+" and 1-4 dot-separated build identifiers.
func c18GenBuild(r *Rand) string {
	ids := make([]string, 1+r.Intn(4))
	for i := range ids {
		ids[i] = c18GenBuildIdent(r)
	}
	return "+" + strings.Join(ids, ".")
}

// c18GenPreIdent: a prerelease identifier that is valid by construction (a digits-only one has no leading zero).
func c18GenPreIdent(r *Rand) string {
	for {
		id := genIdent(r)
		if !c18SpecBadNum(id) {
			return id
		}
	}
}

func c18GenBase0(r *Rand) (string, bool) {
	switch r.Intn(19) {
	case 13: // release base with grammar-built build metadata (incl. zero-led numeric identifiers)
		return "v" + genNum(r) + "." + genNum(r) + "." + c18GenPatch(r) + c18GenBuild(r), true
	case 14: // prerelease base with grammar-built build metadata
		v := "v" + genNum(r) + "." + genNum(r) + "." + c18GenPatch(r) + "-" + c18GenPreIdent(r)
		for k := r.Intn(3); k > 0; k-- {
			v += "." + c18GenPreIdent(r)
		}
		return v + c18GenBuild(r), true
	case 15:
		return r.Pick([]string{"v1.2.3+001", "v1.2.3+00", "v1.2.3+0", "v1.2.3+0a", "v1.2.9+2024.01.05", "v1.2.3+build.007", "v1.2.3-rc.1+00",
			"v1.0.0-pre+exp.sha.0123", "v0.0.0+00.00", "v1.2.3-0+0", "v1.2.3-0+00", "v1.2.3-a.0+0.00.000", "v2.0.0+01.incompatible",
			"v1.2.3+-", "v1.2.3+--.-", "v1.2.3---+--"}), true
	case 0, 1:
		return "", true
	case 2:
		v, _ := genVersion(r) // may be invalid: PseudoVersion then behaves as if there were no base
		return v, semver.IsValid(v)
	case 3:
		return "v" + genNum(r), true
	case 4:
		return "v" + genNum(r) + "." + genNum(r), true
	case 5, 6, 7:
		return "v" + genNum(r) + "." + genNum(r) + "." + c18GenPatch(r), true
	case 8:
		return "v" + genNum(r) + "." + genNum(r) + "." + c18GenPatch(r) + "+incompatible", true
	case 9:
		return "v" + genNum(r) + "." + genNum(r) + "." + c18GenPatch(r) + "-" + genIdent(r), true
	case 10:
		return "v" + genNum(r) + "." + genNum(r) + "." + c18GenPatch(r) + "-" + genIdent(r) + "." + genIdent(r) + "+incompatible", true
	case 11:
		// a pseudo-version as base
		b, _ := c18GenBase(r)
		return module.PseudoVersion(c18GenMajor(r, b), b, time.Unix(c18GenSecs(r), 0), c18GenRev(r)), true
	case 12:
		return r.Pick([]string{"v0.0.0", "v0", "v1", "v1.0.0-0", "v1.0.0-0.0", "v1.2.3-0", "v1.2.3--", "v1.2.3-pre.0", "v2.0.0+incompatible",
			"v1.2.3+a-b.c-d", "v1.2.3-a-b+c-d", "v1.2.9", "v1.9.9", "v9.9.9", "v1.2.3-0.0.0", "v1.2.3-rc.1+meta.1"}), true
	}
	return genValidVersion(r), true
}

func c18GenMajor(r *Rand, older string) string {
	switch r.Intn(10) {
	case 0:
		return ""
	case 1:
		return "v" + genNum(r)
	case 2:
		return r.Pick([]string{"v0", "v1", "v2", "v10", "v", "1", "v01", "x", "v1.2", "v1-", "v1+"})
	}
	if m := semver.Major(older); m != "" {
		return m
	}
	return r.Pick([]string{"v0", "v1", "v2", "v3", "v17"})
}

func c18GenRev(r *Rand) string {
	switch r.Intn(10) {
	case 0:
		return r.Bytes(1+r.Intn(40), c18Alnum)
	case 1:
		return r.Bytes(40, c18Hex)
	case 2:
		return r.Bytes(1, c18Alnum)
	case 3:
		return r.Bytes(1+r.Intn(14), digits) // all-digit revision
	case 4:
		return r.Pick([]string{"000000000000", "0", "a", "Z", "00000000000000"})
	}
	return r.Bytes(12, c18Hex)
}

// c18GenSecs: an instant in Unix seconds with years 1..9999 in UTC.
func c18GenSecs(r *Rand) int64 {
	span := uint64(c18MaxSecs - c18MinSecs + 1)
	date := func(y, mo, d, h, mi, s int) int64 { return time.Date(y, time.Month(mo), d, h, mi, s, 0, time.UTC).Unix() }
	jitter := func() int64 { return int64(r.Intn(5)) - 2 }
	clamp := func(x int64) int64 {
		if x < c18MinSecs {
			return c18MinSecs
		}
		if x > c18MaxSecs {
			return c18MaxSecs
		}
		return x
	}
	switch r.Intn(14) {
	case 0:
		return c18Pick64(r, []int64{c18MinSecs, c18MinSecs + 1, c18MinSecs + 86399, c18MinSecs + 86400, c18MaxSecs, c18MaxSecs - 1, c18MaxSecs - 86399, c18MaxSecs - 86400})
	case 1:
		return c18Pick64(r, []int64{0, 1, -1, 59, 60, 3599, 3600, 86399, 86400, -86400, -86401, 951782400, 1709164800, 2147483647, 2147483648, -2147483648, 4294967296})
	case 2: // leap-day neighbourhood of a random year (28 Feb 23:59:59 .. 1 Mar 00:00:01)
		y := 1 + r.Intn(9999)
		return clamp(date(y, 2, 28+r.Intn(2), 23, 59, 59) + jitter())
	case 3: // century and 400-year boundaries
		y := []int{100, 400, 1000, 1200, 1500, 1582, 1600, 1700, 1800, 1900, 2000, 2100, 2400, 4000, 8000, 9600, 9900}[r.Intn(17)]
		return clamp(date(y, 2+r.Intn(2), 1, 0, 0, 0) + jitter() - int64(r.Intn(2))*86400)
	case 4: // year ends
		y := 1 + r.Intn(9999)
		return clamp(date(y, 12, 31, 23, 59, 59) + jitter())
	case 5: // month ends
		y := 1 + r.Intn(9999)
		return clamp(date(y, 1+r.Intn(12), 1, 0, 0, 0) + jitter())
	case 6: // around the epoch, negative seconds
		return int64(r.Intn(4000000000)) - 2000000000
	case 7: // present day
		return 1000000000 + int64(r.Intn(1500000000))
	case 8: // minute / hour / day boundaries
		return clamp((c18MinSecs+int64(r.U64()%span))/86400*86400 + c18Pick64(r, []int64{0, 59, 60, 3599, 3600, 43199, 43200, 86399}))
	}
	return c18MinSecs + int64(r.U64()%span)
}

// c18GenSecsWide: sometimes outside years 1..9999 (beyond the property's range; both sides are still compared).
func c18GenSecsWide(r *Rand) (int64, bool) {
	if r.Chance(4) {
		switch r.Intn(4) {
		case 0:
			return c18MinSecs - 1 - int64(r.Intn(400*366*86400)), false // years -400 .. 0
		case 1:
			return c18MaxSecs + 1 + int64(r.Intn(400*366*86400)), false // years 10000 ..
		case 2:
			return c18Pick64(r, []int64{c18MinSecs - 1, c18MaxSecs + 1, -62167219200, -62167219201, -62198755200, 253402300800 + 86400*365}), false
		default:
			return int64(r.U64()%(1<<45)) - (1 << 44), false // about ±550,000 years
		}
	}
	return c18GenSecs(r), true
}

func c18Pick64(r *Rand, xs []int64) int64 { return xs[r.Intn(len(xs))] }

func c18IsAlnum(s string) bool {
	if s == "" {
		return false
	}
	for i := 0; i < len(s); i++ {
		c := s[i]
		if !('0' <= c && c <= '9' || 'a' <= c && c <= 'z' || 'A' <= c && c <= 'Z') {
			return false
		}
	}
	return true
}

// c18GenStamp: a 14-digit stamp, mostly a valid time, sometimes an invalid one or of the wrong length.
func c18GenStamp(r *Rand) string {
	switch r.Intn(12) {
	case 0:
		return r.Pick([]string{"00000000000000", "00000101000000", "20060100150405", "20060001150405", "20061301150405", "20060132150405",
			"20060230150405", "20060229150405", "20040229150405", "19000229000000", "20000229000000", "21000229000000", "00000229000000",
			"20060431000000", "20060631000000", "20060931000000", "20061131000000", "20061231000000",
			"20060102240000", "20060102236000", "20060102235960", "20060102235959", "99991231235959", "00010101000000"})
	case 1:
		return r.Bytes(14, digits)
	case 2:
		return r.Bytes(13, digits)
	case 3:
		return r.Bytes(15, digits)
	case 4:
		return mutate(r, time.Unix(c18GenSecs(r), 0).UTC().Format(c18Layout), "0123456789-.a")
	}
	return time.Unix(c18GenSecs(r), 0).UTC().Format(c18Layout)
}

// c18GenLookalike builds a string from the shape of pseudoVersionRE (not through PseudoVersion).
func c18GenLookalike(r *Rand) string {
	v := "v" + genNum(r) + "."
	switch r.Intn(8) {
	case 0, 1:
		v += "0.0-"
	case 2:
		v += genNum(r) + "." + c18GenPatch(r) + "-0."
	case 3:
		v += "0.0-0." // vX.0.0-0.<ts>: negative patch
	case 4:
		v += genNum(r) + "." + genNum(r) + "-" + genIdent(r) + ".0."
	case 5:
		v += genNum(r) + "." + genNum(r) + "-" + genIdent(r) + "." + genIdent(r) + ".0."
	case 6:
		v += genNum(r) + "." + genNum(r) + "-" + r.Pick([]string{"0", "0.0", "-", "a-b", "0-0", "00a", "0.0.0", "x.0"}) + ".0."
	default:
		v += genNum(r) + "." + genNum(r) + "-" + genIdent(r) + "." // missing the 0. segment
	}
	v += c18GenStamp(r) + "-" + c18GenRev(r)
	switch r.Intn(8) {
	case 0:
		v += "+incompatible"
	case 1:
		v += "+" + r.Bytes(1+r.Intn(4), digits+identAlpha)
	case 2:
		v += "+a-b.c-d"
	case 3:
		v += r.Pick([]string{"+", "+a..b", "+a+b", "+é", "\n", "+a\n", "-", "."})
	case 4:
		v += c18GenBuild(r) // build grammar incl. zero-led numeric identifiers
	}
	return v
}

var c18Tricky = []string{
	"v1.0.0-0.0.20060102150405-abc", "v1.2.3-0.20060102150405-abc.0.20060102150405-abc",
	"v0.0.0-20060102150405-abc+incompatible", "v1.0.0-0.20060102150405-abc", "v1.2.3-pre.0.20060102150405-abc+a-b",
	"v1.2.3-20060102150405-abc", "v1.0.0-20060102150405-abc", "v1.0.0-20060102150405", "v1.0.0-20060102150405-",
	"v1.0.0-20060102150405-a_b", "v1.0.0-20060102150405-abc-def", "v1.0.0--20060102150405-abc", "v1.0.0-2006010215040-abc",
	"v1.0.0-200601021504050-abc", "v1.0.0-0.20060102150405-abc", "v1.0.1-0.20060102150405-abc", "v1.0.10-0.20060102150405-abc",
	"v1.0.100-0.20060102150405-abc", "v1.0-20060102150405-abc", "v1-20060102150405-abc", "v1.0.0-x.20060102150405-abc",
	"v1.2.3-x.0.20060102150405-abc", "v1.2.3-x.00.20060102150405-abc", "v1.2.3-x.0.0.20060102150405-abc", "v1.2.3-0.0.20060102150405-abc",
	"v1.2.3-.0.20060102150405-abc", "v1.2.3-x-0.20060102150405-abc", "v1.2.3-x-.0.20060102150405-abc", "v1.2.3--.0.20060102150405-abc",
	"v01.0.0-20060102150405-abc", "v1.00.0-20060102150405-abc", "v1.0.0-20060102150405-abc+", "v1.0.0-20060102150405-abc+a-20060102150405-b",
	"v1.0.0+a-20060102150405-abc", "v1.0.0+20060102150405-abc-d", "v1.2.3-0.20060102150405-abc\n", "\nv1.2.3-0.20060102150405-abc",
	"v1.2.3-0.20060102150405-ab\xffc", "v1.2.3-\xff.0.20060102150405-abc", "v1.2.3-é.0.20060102150405-abc", "v1.2.3-+.0.20060102150405-abc",
	"v1.2.3-0.99999999999999-abc", "v1.2.3-0.00000000000000-abc", "v1.2.3-0.20060230150405-abc", "v0.0.0-00010101000000-000000000000",
	"v1.0.0-00010101000000-000000000000", "v0.0.0-00010101000000-000000000000+incompatible", "v0.0.0-00010101000000-00000000000",
	"v0.0.1-0.00010101000000-000000000000", "v00.0.0-00010101000000-000000000000", "", "v", "v0", "v0.0.0",
	"v1.2.3-0.20060102150405-abc+incompatible", "v1.2.0-0.20060102150405-abc+incompatible", "v1.2.3-pre.0.20060102150405-abc+incompatible",
	"v1.2.3-pre.1.20060102150405-abc", "v1.2.3-pre.0.20060102150405-abc.0", "v1.2.3-0.20060102150405-abc.1",
	"v2.0.0-20060102150405-abc", "v2.0.0-0.20060102150405-abc", "v2.1.0-0.20060102150405-abc", "v2.0.1-0.20060102150405-abc",
	"v1.2.99999999999999999999999999999999999999990-0.20060102150405-abc", "v1.2.100000000000000000000000000000000000000-0.20060102150405-abc",
	// build suffix with zero-led numeric identifiers (allowed in build metadata, not in a prerelease) on each of the three forms
	"v0.0.0-20060102150405-abc+00", "v1.2.4-0.20060102150405-abc+001", "v1.2.3-pre.0.20060102150405-abc+build.007",
	"v1.2.10-0.20060102150405-abc+2024.01.05", "v1.2.4-0.20060102150405-abc+0", "v1.2.4-0.20060102150405-abc+0a",
	"v1.2.4-00.20060102150405-abc+1", "v1.2.3-pre.00.20060102150405-abc",
}

func c18EmitParsers(g *Gen, v string, nt bool, tag string) {
	switch g.Intn(6) {
	case 0:
		g.Emit("pseudo.ispseudo "+hx(v), nt, tag)
	case 1:
		g.Emit("pseudo.base "+hx(v), nt, tag)
	case 2:
		g.Emit("pseudo.rev "+hx(v), nt, tag)
	case 3:
		g.Emit("pseudo.time "+hx(v), nt, tag)
	case 4:
		g.Emit("pseudo.iszeropseudo "+hx(v), nt, tag)
	default:
		g.Emit("pseudo.ispseudo "+hx(v), nt, tag)
		g.Emit("pseudo.base "+hx(v), nt, tag)
		g.Emit("pseudo.rev "+hx(v), nt, tag)
		g.Emit("pseudo.time "+hx(v), nt, tag)
	}
}

const c18MutAlphabet = "v0123456789.-+abzAZ_ \n\x00\xff"

func c18Gen(g *Gen, n int) {
	// fixed lists first
	for _, v := range c18Tricky {
		for _, op := range []string{"ispseudo", "base", "rev", "time", "iszeropseudo"} {
			g.Emit("pseudo."+op+" "+hx(v), true, "tricky")
		}
	}
	for _, m := range []string{"", "v0", "v1", "v2", "v10", "v", "x", "v1.2", "v01"} {
		g.Emit("pseudo.zeropseudo "+hx(m), true, "zero")
		g.Emit("pseudo.iszeropseudo "+hx(module.ZeroPseudoVersion(m)), true, "zero")
	}
	for _, s := range []int64{c18MinSecs, c18MaxSecs, 0, -1, 951782400, c18MinSecs - 1, c18MaxSecs + 1} {
		g.Emit("pseudo.format "+i64toa(s), true, "format-boundary")
	}
	// the random stream keeps at least n/3 ops of its own, however large the fixed lists above grow (today
	// they are 709 of the quick tier's 20000 ops, so this changes nothing)
	if n < g.st.Ops+n/3 {
		n = g.st.Ops + n/3
	}
	for g.st.Ops < n {
		switch g.Intn(22) {
		case 20, 21: // call histories on build-suffix twins (see c18GenFamily)
			f := c18GenFamily(g.Rand)
			calls := c18GenHistory(g.Rand, f)
			toks := make([]string, len(calls))
			for i, c := range calls {
				toks[i] = c18HistTok(c, f)
			}
			g.Emit("pseudo.history "+strings.Join(toks, " "), true, "history", "history:"+f.kind)
			if g.Chance(30) { // the same history as consecutive single ops
				for _, c := range calls {
					g.Emit(c18HistOp(c, f), true, "history:single-ops")
				}
			}
		case 0, 1, 2, 3, 4, 5, 6: // construct, then parse the result and a mutation of it
			older, okBase := c18GenBase(g.Rand)
			major := c18GenMajor(g.Rand, older)
			secs, inRange := c18GenSecsWide(g.Rand)
			rev := c18GenRev(g.Rand)
			if g.Chance(4) {
				rev = g.Pick([]string{"", "a-b", "a.b", "a+b", "é", "a b", "\xff"})
			}
			nt := okBase && inRange && c18IsAlnum(rev)
			tag := "construct:nobase"
			if c := semver.Canonical(older); c != "" {
				tag = "construct:release"
				if semver.Prerelease(c) != "" {
					tag = "construct:prerelease"
				}
			}
			if !inRange {
				tag = "construct:year-out-of-range"
			}
			out := g.Emit("pseudo.pseudoversion "+hx(major)+" "+hx(older)+" "+i64toa(secs)+" "+hx(rev), nt, tag)
			if out == "panic" || out == "hang" {
				continue
			}
			pv := unhx(out)
			if g.Chance(70) {
				c18EmitParsers(g, pv, nt, "parse:generated")
			}
			if g.Chance(35) {
				c18EmitParsers(g, mutate(g.Rand, pv, c18MutAlphabet), nt, "parse:mutated")
			}
		case 7, 8, 9:
			c18EmitParsers(g, c18GenLookalike(g.Rand), true, "parse:lookalike")
		case 10:
			c18EmitParsers(g, mutate(g.Rand, c18GenLookalike(g.Rand), c18MutAlphabet), true, "parse:lookalike-mutated")
		case 11:
			c18EmitParsers(g, mutate(g.Rand, g.Pick(c18Tricky), c18MutAlphabet), true, "parse:tricky-mutated")
		case 12: // plain versions and garbage
			v, nt := genVersion(g.Rand)
			c18EmitParsers(g, v, nt, "parse:plain-version")
		case 13:
			c18EmitParsers(g, g.Bytes(g.Intn(40), c18MutAlphabet), false, "parse:random")
		case 14:
			g.Emit("pseudo.incdecimal "+hx(c18GenPatch(g.Rand)), true, "incdec")
		case 15:
			g.Emit("pseudo.decdecimal "+hx(c18GenPatch(g.Rand)), true, "incdec")
		case 16:
			secs, inRange := c18GenSecsWide(g.Rand)
			g.Emit("pseudo.format "+i64toa(secs), inRange, "format")
		case 17:
			m := c18GenMajor(g.Rand, "")
			g.Emit("pseudo.zeropseudo "+hx(m), true, "zero")
			z := module.ZeroPseudoVersion(m)
			if g.Bool() {
				z = mutate(g.Rand, z, c18MutAlphabet)
			}
			g.Emit("pseudo.iszeropseudo "+hx(z), true, "zero")
		default: // two instants, same base: the inputs of the monotonicity clause
			older, okBase := c18GenBase(g.Rand)
			major := c18GenMajor(g.Rand, older)
			s1 := c18GenSecs(g.Rand)
			s2 := s1 + c18Pick64(g.Rand, []int64{1, 1, 2, 59, 60, 3600, 86400, 86400 * 365})
			if s2 > c18MaxSecs {
				s1, s2 = s1-(s2-c18MaxSecs), c18MaxSecs
			}
			a := g.Emit("pseudo.pseudoversion "+hx(major)+" "+hx(older)+" "+i64toa(s1)+" "+hx(c18GenRev(g.Rand)), okBase, "construct:pair")
			b := g.Emit("pseudo.pseudoversion "+hx(major)+" "+hx(older)+" "+i64toa(s2)+" "+hx(c18GenRev(g.Rand)), okBase, "construct:pair")
			if a != "panic" && b != "panic" && a != "hang" && b != "hang" {
				g.Emit("pseudo.compare "+a+" "+b, okBase, "construct:pair")
			}
		}
	}
}

// ---- call histories
//
// Input class added: SEQUENCES of parser calls on RELATED strings.  Every other stream feeds the parsers independent
// inputs (one string, all its accessors, then an unrelated string), which is blind to any state kept between calls
// (a memo of the last parse, a cache keyed by a derived string): such state only shows when a call on X+build is
// directly followed by a call on X — the same pseudo-version without its build suffix — or the other way round.
// A family is one (base core, instant, revision) with several build suffixes (none, +incompatible, grammar-built),
// plus bystanders: the same base at another revision / instant, an unrelated pseudo-version, a string that no
// accessor can parse (a failed call in between must not matter either), and one-byte mutations of a member.

type c18Member struct {
	v      string
	domain bool   // v = PseudoVersion(major, older, t, rev) for a valid-or-empty base: the property fixes every answer
	base   string // expected PseudoVersionBase
	secs   int64  // expected PseudoVersionTime
	rev    string // expected PseudoVersionRev
	ops    []string
}

type c18Family struct {
	kind    string // nobase | release | prerelease
	members []c18Member
	twins   int // members[0:twins] differ only in the build suffix; members[0] has none
}

type c18Call struct {
	fn  byte // i b r t
	idx int
}

func c18MkMember(major, older string, secs int64, rev string) c18Member {
	m := c18Member{domain: true, secs: secs, rev: rev}
	if older != "" {
		sp, ok := c18ParseSpec(older)
		if !ok {
			panic("c18MkMember: base outside the grammar: " + older)
		}
		m.base = sp.canon + sp.build
	}
	op := "pseudo.pseudoversion " + hx(major) + " " + hx(older) + " " + i64toa(secs) + " " + hx(rev)
	m.v = module.PseudoVersion(major, older, c18Time(secs, op), rev)
	m.ops = []string{op}
	return m
}

// c18GenCore: a valid base WITHOUT build metadata in canonical form (so that a build suffix can be appended), or "".
func c18GenCore(r *Rand) (core string, sp c18Spec) {
	if r.Chance(15) {
		return "", sp
	}
	for {
		v, _ := c18GenBase(r)
		if s, ok := c18ParseSpec(v); ok {
			return s.canon, s
		}
	}
}

func c18GenFamily(r *Rand) c18Family {
	var f c18Family
	core, sp := c18GenCore(r)
	secs := c18GenSecs(r)
	rev := c18GenRev(r)
	major := sp.major
	if core == "" {
		major = r.Pick([]string{"", "v0", "v1", "v2", "v3", "v" + genNum(r)})
	}
	builds := []string{"+incompatible"}
	for k := r.Intn(3); k > 0; k-- {
		builds = append(builds, c18GenBuild(r))
	}
	if r.Chance(20) {
		builds = append(builds, r.Pick([]string{"+meta.7", "+a-b.c-d", "+0", "+00", "+incompatible.1", "+-"}))
	}
	plain := c18MkMember(major, core, secs, rev)
	f.members = append(f.members, plain)
	switch {
	case core == "":
		f.kind = "nobase"
		// vX.0.0-<ts>-<rev>+build is recognised but has no base to carry the build: outside the property's domain
		// (the accessors are called on it, their answers are not judged); the plain twin stays inside.
		for _, b := range builds {
			f.members = append(f.members, c18Member{v: plain.v + b})
		}
	default:
		f.kind = "release"
		if sp.pre {
			f.kind = "prerelease"
		}
		for _, b := range builds {
			f.members = append(f.members, c18MkMember(major, core+b, secs, rev))
		}
	}
	f.twins = len(f.members)
	// bystanders
	for k := r.Intn(3); k > 0; k-- {
		switch r.Intn(6) {
		case 0: // same base and instant, another revision
			f.members = append(f.members, c18MkMember(major, core, secs, c18GenRev(r)))
		case 1: // same base and revision, another instant
			f.members = append(f.members, c18MkMember(major, core, c18GenSecs(r), rev))
		case 2: // unrelated pseudo-version
			c2, sp2 := c18GenCore(r)
			m2 := sp2.major
			if c2 == "" {
				m2 = "v1"
			} else if r.Bool() {
				c2 += r.Pick(builds)
			}
			f.members = append(f.members, c18MkMember(m2, c2, c18GenSecs(r), c18GenRev(r)))
		case 3: // not parsable by any accessor
			f.members = append(f.members, c18Member{v: r.Pick([]string{"", "v1.2.3", core, plain.v + "+", "v1.0.0-20060102150405", plain.v[:strings.LastIndex(plain.v, "-")+1], "v0.0.0-00000000000000-0+a+b"})})
		case 4: // one byte away from a twin
			f.members = append(f.members, c18Member{v: mutate(r, f.members[r.Intn(f.twins)].v, c18MutAlphabet)})
		default: // a look-alike
			f.members = append(f.members, c18Member{v: c18GenLookalike(r)})
		}
	}
	return f
}

const c18HistFns = "btrbtrbi" // Base, Time, Rev mostly

// c18GenHistory: 2-8 calls on the members of f.  Templates put a call on a twin WITH build suffix directly (or with
// one bystander call in between) before PseudoVersionBase of another twin, in both orders; the rest is random.
func c18GenHistory(r *Rand, f c18Family) []c18Call {
	fn := func() byte { return c18HistFns[r.Intn(len(c18HistFns))] }
	withBuild := func() int { return 1 + r.Intn(f.twins-1) }
	other := func(not int) int {
		for {
			if k := r.Intn(f.twins); k != not {
				return k
			}
		}
	}
	by := func() int {
		if len(f.members) > f.twins {
			return f.twins + r.Intn(len(f.members)-f.twins)
		}
		return r.Intn(len(f.members))
	}
	var cs []c18Call
	xb := withBuild()
	switch r.Intn(8) {
	case 0, 1: // build first, then the base of the plain twin
		cs = []c18Call{{fn(), xb}, {'b', 0}}
	case 2: // plain first, then build, then both again
		cs = []c18Call{{fn(), 0}, {fn(), xb}, {'b', xb}, {'b', 0}}
	case 3: // a bystander in between
		cs = []c18Call{{fn(), xb}, {fn(), by()}, {'b', 0}, {'b', xb}}
	case 4: // two different build suffixes
		cs = []c18Call{{fn(), xb}, {'b', other(xb)}, {'b', xb}}
	case 5: // all three accessors on one twin, then all three on another
		o := other(xb)
		cs = []c18Call{{'b', xb}, {'t', xb}, {'r', xb}, {'b', o}, {'t', o}, {'r', o}}
	}
	for k := 2 + r.Intn(5); len(cs) < 8 && k > 0; k-- {
		cs = append(cs, c18Call{fn(), r.Intn(len(f.members))})
	}
	return cs
}

func c18HistTok(c c18Call, f c18Family) string { return string(c.fn) + ":" + hx(f.members[c.idx].v) }

func c18HistOp(c c18Call, f c18Family) string {
	return map[byte]string{'i': "pseudo.ispseudo ", 'b': "pseudo.base ", 'r': "pseudo.rev ", 't': "pseudo.time "}[c.fn] + hx(f.members[c.idx].v)
}

// c18OracleHistory: the round-trip clause holds for EVERY generated pseudo-version, whatever was asked before:
// each call of a history on a member inside the property's domain is compared with the spec (canonical base with
// build suffix, instant in UTC seconds, revision, recognised).  Calls on members outside the domain (bystander
// strings, vX.0.0-…+build) are made and not judged.
func c18OracleHistory(g *Gen) {
	f := c18GenFamily(g.Rand)
	calls := c18GenHistory(g.Rand, f)
	g.Case("history")
	g.Case("history:" + f.kind)
	toks := make([]string, 0, len(calls))
	for n, c := range calls {
		m := f.members[c.idx]
		toks = append(toks, c18HistTok(c, f))
		what, got := "", ""
		switch c.fn {
		case 'i':
			ok := module.IsPseudoVersion(m.v)
			if m.domain && !ok {
				what = "pseudo-version is not recognised by IsPseudoVersion"
			}
		case 'b':
			b, err := module.PseudoVersionBase(m.v)
			if m.domain && (err != nil || b != m.base) {
				what, got = "PseudoVersionBase does not recover the canonical base with build suffix", b
			}
		case 't':
			tm, err := module.PseudoVersionTime(m.v)
			if m.domain && (err != nil || !tm.Equal(time.Unix(m.secs, 0)) || tm.Location() != time.UTC || tm.Nanosecond() != 0) {
				what = "PseudoVersionTime does not recover the time truncated to seconds in UTC"
			}
		case 'r':
			rv, err := module.PseudoVersionRev(m.v)
			if m.domain && (err != nil || rv != m.rev) {
				what, got = "PseudoVersionRev does not recover the revision", rv
			}
		}
		if !m.domain {
			continue
		}
		g.Case("history:judged-call")
		if n > 0 && f.members[calls[n-1].idx].v != m.v && c.idx < f.twins && calls[n-1].idx < f.twins {
			g.Case("history:call-directly-after-build-twin")
		}
		if what != "" {
			// replay: how each member was made, then the history up to the failing call (one line, same process)
			var ops []string
			seen := map[int]bool{}
			for _, c2 := range calls[:n+1] {
				if !seen[c2.idx] {
					seen[c2.idx] = true
					ops = append(ops, f.members[c2.idx].ops...)
				}
			}
			ops = append(ops, "pseudo.history "+strings.Join(toks, " "))
			prev := make([]string, 0, n)
			for _, c2 := range calls[:n] {
				prev = append(prev, string(c2.fn)+"("+f.members[c2.idx].v+")")
			}
			if n > 0 { // n == 0: nothing was asked before, the plain signature applies.  Otherwise the failure may or may not
				// depend on the earlier calls (no way to tell inside one process): the replay line carries them.
				what += " (within a call history)"
			}
			g.Fail(what,
				"call "+string(c.fn)+"("+m.v+") got="+got+" want base="+m.base+" rev="+m.rev+" secs="+i64toa(m.secs)+" after: "+strings.Join(prev, " "), ops...)
			return
		}
	}
}

// ---- oracle: the property, on the implementation alone

// The base-version grammar, written out from the documentation of package semver
// (vMAJOR[.MINOR[.PATCH[-PRERELEASE][+BUILD]]]) and Semantic Versioning 2.0.0 §2, §9, §10, independently of
// semver.go: numeric fields are "0" or digits without leading zero; prerelease and build are dot-separated
// non-empty identifiers over [0-9A-Za-z-]; a digits-only PRERELEASE identifier has no leading zero, a BUILD
// identifier has no such restriction; the shortened forms vX and vX.Y carry neither prerelease nor build.
// The oracle takes its domain ("for all valid base versions") and its expectations (canonical base, build
// suffix, next release) from here.  It used to take them from the implementation's own
// semver.IsValid/Canonical/Build, so a base the code wrongly refuses silently dropped out of the domain.
type c18Spec struct {
	major string // "vX"
	canon string // vX.Y.Z[-PRERELEASE]
	build string // "" or +BUILD
	next  string // release base: vX.Y.(Z+1); prerelease base: vX.Y.Z (pseudo.go forms (2)-(5)); math/big, not incDecimal
	pre   bool
}

func c18SpecNum(s string) bool {
	if s == "" || (len(s) > 1 && s[0] == '0') {
		return false
	}
	for i := 0; i < len(s); i++ {
		if s[i] < '0' || s[i] > '9' {
			return false
		}
	}
	return true
}

// c18SpecBadNum: digits only, two or more, leading zero.
func c18SpecBadNum(s string) bool {
	if len(s) < 2 || s[0] != '0' {
		return false
	}
	for i := 0; i < len(s); i++ {
		if s[i] < '0' || s[i] > '9' {
			return false
		}
	}
	return true
}

func c18SpecIdents(s string, prerelease bool) bool {
	for _, id := range strings.Split(s, ".") {
		if id == "" || (prerelease && c18SpecBadNum(id)) {
			return false
		}
		for i := 0; i < len(id); i++ {
			c := id[i]
			if !('0' <= c && c <= '9' || 'a' <= c && c <= 'z' || 'A' <= c && c <= 'Z' || c == '-') {
				return false
			}
		}
	}
	return true
}

func c18ParseSpec(v string) (c18Spec, bool) {
	var sp c18Spec
	if len(v) < 2 || v[0] != 'v' {
		return sp, false
	}
	core, pre, build := v[1:], "", ""
	if i := strings.IndexByte(core, '+'); i >= 0 {
		core, build = core[:i], core[i:]
		if !c18SpecIdents(build[1:], false) {
			return sp, false
		}
	}
	if i := strings.IndexByte(core, '-'); i >= 0 {
		core, pre = core[:i], core[i:]
		if !c18SpecIdents(pre[1:], true) {
			return sp, false
		}
	}
	f := strings.Split(core, ".")
	if len(f) > 3 || (len(f) < 3 && (pre != "" || build != "")) {
		return sp, false
	}
	for _, x := range f {
		if !c18SpecNum(x) {
			return sp, false
		}
	}
	for len(f) < 3 {
		f = append(f, "0")
	}
	sp.major = "v" + f[0]
	rel := "v" + f[0] + "." + f[1] + "."
	sp.canon = rel + f[2] + pre
	sp.build = build
	sp.pre = pre != ""
	if sp.pre {
		sp.next = rel + f[2]
	} else {
		z, _ := new(big.Int).SetString(f[2], 10)
		sp.next = rel + z.Add(z, big.NewInt(1)).String()
	}
	return sp, true
}

func c18Oracle(g *Gen, n int) {
	for i := 0; i < n; i++ {
		if i%2 == 1 { // one history case for every two single-version cases, on top of them
			c18OracleHistory(g)
		}
		older, _ := c18GenBase(g.Rand)
		spec, specOK := c18ParseSpec(older)
		for older != "" && !specOK { // the domain is decided by the grammar, never by the implementation
			older = genValidVersion(g.Rand)
			spec, specOK = c18ParseSpec(older)
		}
		major := ""
		if older != "" {
			major = spec.major
			if g.Chance(10) {
				major = "v" + genNum(g.Rand) // ignored when there is a base
			}
		} else if g.Chance(85) {
			major = "v" + genNum(g.Rand)
		}
		secs := c18GenSecs(g.Rand)
		rev := c18GenRev(g.Rand)
		salt := i64toa(int64(g.U64() >> 1))
		t := c18Time(secs, salt)
		op := "pseudo.pseudoversion " + hx(major) + " " + hx(older) + " " + i64toa(secs) + " " + hx(rev)
		info := "major=" + major + " older=" + older + " t=" + t.Format(time.RFC3339Nano) + " rev=" + rev
		pv := module.PseudoVersion(major, older, t, rev)
		switch {
		case older == "":
			g.Case("nobase")
		case spec.pre:
			g.Case("prerelease-base")
		default:
			g.Case("release-base")
		}
		if spec.build != "" {
			g.Case("base-with-build")
			for _, id := range strings.Split(spec.build[1:], ".") {
				if c18SpecBadNum(id) {
					g.Case("base-with-build:zero-led-numeric-identifier")
					break
				}
			}
		}
		// valid version, recognised as a pseudo-version
		if !semver.IsValid(pv) {
			g.Fail("pseudo-version is not a valid version", info+" pv="+pv, op, "pseudo.ispseudo "+hx(pv))
		}
		if !module.IsPseudoVersion(pv) {
			g.Fail("pseudo-version is not recognised by IsPseudoVersion", info+" pv="+pv, op, "pseudo.ispseudo "+hx(pv))
		}
		// round trip: canonical base with build suffix, time truncated to seconds in UTC, revision
		wantBase := ""
		if older != "" {
			wantBase = spec.canon + spec.build
		}
		if b, err := module.PseudoVersionBase(pv); err != nil || b != wantBase {
			g.Fail("PseudoVersionBase does not recover the canonical base with build suffix", info+" pv="+pv+" got="+b, op, "pseudo.base "+hx(pv))
		}
		if tm, err := module.PseudoVersionTime(pv); err != nil || !tm.Equal(time.Unix(secs, 0)) || tm.Location() != time.UTC || tm.Nanosecond() != 0 {
			g.Fail("PseudoVersionTime does not recover the time truncated to seconds in UTC", info+" pv="+pv, op, "pseudo.time "+hx(pv))
		}
		if r, err := module.PseudoVersionRev(pv); err != nil || r != rev {
			g.Fail("PseudoVersionRev does not recover the revision", info+" pv="+pv, op, "pseudo.rev "+hx(pv))
		}
		// ordering
		if older != "" {
			if semver.Compare(older, pv) >= 0 {
				g.Fail("pseudo-version does not sort strictly after its base", info+" pv="+pv, op, "pseudo.compare "+hx(older)+" "+hx(pv))
			}
			next := spec.next
			if !semver.IsValid(next) || semver.Compare(pv, next) >= 0 {
				g.Fail("pseudo-version does not sort strictly before the next release", info+" pv="+pv+" next="+next, op, "pseudo.compare "+hx(pv)+" "+hx(next))
			}
			if !spec.pre && semver.Compare(older, next) >= 0 {
				g.Fail("oracle self-check: base not below its next release", info+" next="+next)
			}
		} else {
			m := major
			if m == "" {
				m = "v0"
			}
			if semver.Compare(pv, m+".0.0") >= 0 {
				g.Fail("pseudo-version with no base does not sort below vX.0.0", info+" pv="+pv, op, "pseudo.compare "+hx(pv)+" "+hx(m+".0.0"))
			}
		}
		// same base, later time => higher, regardless of revision; same second => same string
		// regardless of zone and nanoseconds
		secs2 := secs + c18Pick64(g.Rand, []int64{1, 1, 1, 2, 60, 3600, 86400, 31536000}) + int64(g.Intn(3))*int64(g.Intn(100000))
		if secs2 > c18MaxSecs {
			secs2 = c18MaxSecs
		}
		if secs2 > secs {
			g.Case("later-time")
			rev2 := c18GenRev(g.Rand)
			if g.Chance(30) {
				rev2 = g.Pick([]string{"0", "000000000000", "A", "a"}) // a revision that sorts low
			}
			t2 := c18Time(secs2, salt+"b")
			pv2 := module.PseudoVersion(major, older, t2, rev2)
			if semver.Compare(pv, pv2) >= 0 || semver.Compare(pv2, pv) <= 0 {
				g.Fail("later time does not give a higher pseudo-version", info+" pv="+pv+" t2="+t2.Format(time.RFC3339Nano)+" rev2="+rev2+" pv2="+pv2,
					op, "pseudo.pseudoversion "+hx(major)+" "+hx(older)+" "+i64toa(secs2)+" "+hx(rev2), "pseudo.compare "+hx(pv)+" "+hx(pv2))
			}
		}
		g.Case("same-instant")
		if pv3 := module.PseudoVersion(major, older, c18Time(secs, salt+"c"), rev); pv3 != pv {
			g.Fail("pseudo-version depends on zone or sub-second part of the time", info+" pv="+pv+" pv3="+pv3, op)
		}
	}
}
