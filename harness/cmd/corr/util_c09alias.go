package main

// C09 — call HISTORIES on one hash store, read through a HashReader whose results ALIAS its storage.
//
// Input class added here (it was missing: every HashReader of this harness — tlogStore.ReadHashes, the tile readers —
// builds a fresh result slice for every call and every check of c09.go looks at ONE call on a freshly built store, so
// nothing that a query does to the memory it was handed can ever be observed): a sequence of appends and queries
// (StoredHashes, TreeHash, ProveRecord, ProveTree, plain ReadHashes) made against ONE store through a reader that
// hands out its own memory. The HashReader contract says nothing about who owns the returned slice, and the clauses
// "each stored hash equals the RFC 6962 hash of its complete subtree" / "the tree hash for any m <= n is the RFC 6962
// hash of the first m records" are about every log HISTORY: they have to hold after any number of earlier queries.
// Two aliasing readers (both satisfy the contract; both occur in practice):
//
//	z  zero-copy: a request for a run of consecutive indexes is answered with the sub-slice store[a:b] of the backing
//	   array (an in-memory or mmap store); any other request is copied
//	m  memoising: the result slice of a request is kept and handed out again for the same request
//	c  copying (control; behaves like tlogStore)
//
// After EVERY step the store (and every memoised result) is compared with StoredHashes recomputed from the records
// through a copying reader, and the value of every TreeHash step / plain read is compared with the RFC 6962 value.
//
// op:  tlog.aliashistory <mode> <records> <step> <step> ...
//	A<n>       append records until the log has n records (StoredHashes reads through the same reader)
//	t<m>       TreeHash(m)
//	r<t>.<n>   ProveRecord(t, n)
//	p<t>.<n>   ProveTree(t, n)
//	h<i>.<j>…  ReadHashes([i, j, …]) by the caller
// out: <result of step 1>;store=<ok | changed:<positions>> | <result of step 2>;store=… | …
// The op is implementation-only (replay of oracle findings: `corr impl -ops FILE`); the generator does not emit it.

import (
	"fmt"
	"strconv"
	"strings"

	"golang.org/x/mod/sumdb/tlog"
)

type c09AliasStore struct {
	mode    byte
	h       []tlog.Hash
	memo    map[string][]tlog.Hash
	memoIdx map[string][]int64
}

func (s *c09AliasStore) ReadHashes(idx []int64) ([]tlog.Hash, error) {
	run := len(idx) > 0
	for i, x := range idx {
		if x < 0 || x >= int64(len(s.h)) {
			return nil, errTlogReader
		}
		if i > 0 && x != idx[i-1]+1 {
			run = false
		}
	}
	switch s.mode {
	case 'z':
		if run {
			return s.h[idx[0] : idx[0]+int64(len(idx))], nil
		}
	case 'm':
		key := fmt.Sprint(idx)
		if out, ok := s.memo[key]; ok {
			return out, nil
		}
		out := make([]tlog.Hash, len(idx))
		for i, x := range idx {
			out[i] = s.h[x]
		}
		if s.memo == nil {
			s.memo, s.memoIdx = map[string][]tlog.Hash{}, map[string][]int64{}
		}
		s.memo[key], s.memoIdx[key] = out, append([]int64(nil), idx...)
		return out, nil
	}
	out := make([]tlog.Hash, len(idx))
	for i, x := range idx {
		out[i] = s.h[x]
	}
	return out, nil
}

// changed lists the positions whose stored hash (in the backing array or in a memoised result) differs from want.
func (s *c09AliasStore) changed(want tlogStore) []int64 {
	var out []int64
	bad := map[int64]bool{}
	for p := range s.h {
		if p >= len(want) || s.h[p] != want[p] {
			bad[int64(p)] = true
		}
	}
	for key, hs := range s.memo {
		for i, x := range s.memoIdx[key] {
			if x >= int64(len(want)) || hs[i] != want[x] {
				bad[x] = true
			}
		}
	}
	for p := int64(0); p < int64(len(s.h)); p++ {
		if bad[p] {
			out = append(out, p)
		}
	}
	return out
}

// c09Step is one step of a history.
type c09Step struct {
	Kind byte // 'A', 't', 'r', 'p', 'h'
	A, B int64
	Idx  []int64
}

func (s c09Step) String() string {
	switch s.Kind {
	case 'A', 't':
		return fmt.Sprintf("%c%d", s.Kind, s.A)
	case 'r', 'p':
		return fmt.Sprintf("%c%d.%d", s.Kind, s.A, s.B)
	}
	parts := make([]string, len(s.Idx))
	for i, x := range s.Idx {
		parts[i] = i64toa(x)
	}
	return "h" + strings.Join(parts, ".")
}

func c09ParseStep(tok string) c09Step {
	st := c09Step{Kind: tok[0]}
	var nums []int64
	if len(tok) > 1 {
		for _, p := range strings.Split(tok[1:], ".") {
			v, err := strconv.ParseInt(p, 10, 64)
			if err != nil {
				panic("bad history step " + tok)
			}
			nums = append(nums, v)
		}
	}
	switch st.Kind {
	case 'A', 't':
		st.A = nums[0]
	case 'r', 'p':
		st.A, st.B = nums[0], nums[1]
	case 'h':
		st.Idx = nums
	default:
		panic("bad history step " + tok)
	}
	return st
}

func c09HistoryOp(mode byte, recTok string, steps []c09Step) string {
	var b strings.Builder
	fmt.Fprintf(&b, "tlog.aliashistory %c %s", mode, recTok)
	for _, s := range steps {
		b.WriteString(" " + s.String())
	}
	return b.String()
}

// c09StepOut: the outcome of one step. Size is the number of records in the log after the step.
type c09StepOut struct {
	Res     string // "ok" or err:<kind> or "panic"
	Hash    tlog.Hash
	Hashes  []tlog.Hash
	Size    int
	Changed []int64
}

// c09RunHistory runs the steps against ONE store; want is the store built from recs through a copying reader.
func c09RunHistory(mode byte, recs []string, want tlogStore, steps []c09Step) []c09StepOut {
	s := &c09AliasStore{mode: mode}
	cur := 0
	outs := make([]c09StepOut, len(steps))
	for i, st := range steps {
		o := c09StepOut{Res: "ok"}
		func() {
			defer func() {
				if e := recover(); e != nil {
					o.Res = "panic"
				}
			}()
			var err error
			switch st.Kind {
			case 'A':
				for cur < int(st.A) && cur < len(recs) && err == nil {
					var hs []tlog.Hash
					if hs, err = tlog.StoredHashes(int64(cur), []byte(recs[cur]), s); err == nil {
						s.h = append(s.h, hs...)
						cur++
					}
				}
			case 't':
				o.Hash, err = tlog.TreeHash(st.A, s)
			case 'r':
				var p tlog.RecordProof
				p, err = tlog.ProveRecord(st.A, st.B, s)
				o.Hashes = append([]tlog.Hash(nil), p...)
			case 'p':
				var p tlog.TreeProof
				p, err = tlog.ProveTree(st.A, st.B, s)
				o.Hashes = append([]tlog.Hash(nil), p...)
			case 'h':
				var hs []tlog.Hash
				hs, err = s.ReadHashes(st.Idx)
				o.Hashes = append([]tlog.Hash(nil), hs...)
			}
			if err != nil {
				o.Res = tlogErr(err)
			}
		}()
		o.Size = cur
		o.Changed = s.changed(want[:min(len(want), int(tlog.StoredHashCount(int64(cur))))])
		outs[i] = o
	}
	return outs
}

func init() {
	impls["tlog.aliashistory"] = func(a []string) string {
		recs := tlogRecords(a[1])
		want, err := tlogBuild(recs)
		if err != nil {
			return tlogErr(err)
		}
		steps := make([]c09Step, len(a)-2)
		for i, tok := range a[2:] {
			steps[i] = c09ParseStep(tok)
		}
		outs := c09RunHistory(a[0][0], recs, want, steps)
		parts := make([]string, len(outs))
		for i, o := range outs {
			res := o.Res
			if res == "ok" {
				switch steps[i].Kind {
				case 't':
					res = tlogHashHex(o.Hash)
				case 'r', 'p', 'h':
					res = tlogHashesHex(o.Hashes)
				}
			}
			store := "ok"
			if len(o.Changed) > 0 {
				ps := make([]string, len(o.Changed))
				for j, p := range o.Changed {
					ps[j] = i64toa(p)
				}
				store = "changed:" + strings.Join(ps, ".")
			}
			parts[i] = res + ";store=" + store
		}
		return strings.Join(parts, " | ")
	}
}

// ---- the property on a history

const (
	c09SigStore  = "a query through an aliasing HashReader changed the store: a stored hash is no longer the RFC 6962 hash of its complete subtree"
	c09SigTree   = "TreeHash(m) after earlier queries on the same store is not the RFC 6962 Merkle tree hash of the first m records"
	c09SigRead   = "a stored hash read back after earlier queries on the same store is not the RFC 6962 hash of its complete subtree"
	c09SigAppend = "appending a record after earlier queries on the same store fails or stores hashes that are not RFC 6962"
)

// c09Hist is a log with its verified store and the RFC 6962 tree hashes (computed on demand by this harness's own
// recursion).
type c09Hist struct {
	recTok string
	recs   []string
	want   tlogStore
	mth    map[int]tlog.Hash
}

func c09NewHist(recTok string, recs []string, want tlogStore) *c09Hist {
	return &c09Hist{recTok: recTok, recs: recs, want: want, mth: map[int]tlog.Hash{}}
}

func (h *c09Hist) rfc(m int) tlog.Hash {
	v, ok := h.mth[m]
	if !ok {
		v = rfcMTH(h.recs[:m])
		h.mth[m] = v
	}
	return v
}

// c09HistoryVerdict returns the first violated clause of a history (ok=false if none), the step at which it shows and
// a description. With only != "" the other clauses are ignored. Only steps that the property speaks about are
// judged: appends, TreeHash(m) with m <= n, reads of stored positions below the count. Proof VALUES belong to C03 and
// are not judged here; what is judged after a proof step is that the store is unchanged.
func c09HistoryVerdict(h *c09Hist, mode byte, steps []c09Step, only string) (sig string, at int, info string, bad bool) {
	want := func(s string) bool { return only == "" || only == s }
	outs := c09RunHistory(mode, h.recs, h.want, steps)
	for i, o := range outs {
		st := steps[i]
		switch {
		case st.Kind == 'A' && want(c09SigAppend):
			if n := min(int(st.A), len(h.recs)); o.Res != "ok" || o.Size != n {
				return c09SigAppend, i, fmt.Sprintf("step %d (%s): %s, log has %d records", i+1, st, o.Res, o.Size), true
			}
		case st.Kind == 't' && want(c09SigTree):
			if int(st.A) <= o.Size && (o.Res != "ok" || o.Hash != h.rfc(int(st.A))) {
				return c09SigTree, i, fmt.Sprintf("step %d (%s) on a log of %d records: %s", i+1, st, o.Size, o.Res), true
			}
		case st.Kind == 'h' && want(c09SigRead) && o.Res == "ok":
			for j, x := range st.Idx {
				if o.Hashes[j] != h.want[x] {
					return c09SigRead, i, fmt.Sprintf("step %d (%s) on a log of %d records: position %d", i+1, st, o.Size, x), true
				}
			}
		}
		if len(o.Changed) > 0 && want(c09SigStore) {
			l, off := tlog.SplitStoredHashIndex(o.Changed[0])
			return c09SigStore, i, fmt.Sprintf("after step %d (%s) on a log of %d records: position %d = (level %d, offset %d) of %d changed positions",
				i+1, st, o.Size, o.Changed[0], l, off, len(o.Changed)), true
		}
	}
	return "", -1, "", false
}

// c09CheckHistory judges one history; a failing history is shrunk (steps dropped while the same clause stays
// violated) and reported with its replay line. When the store check fires it also looks for the first wrong TreeHash
// value / wrong read further on in the history, because those are the clauses a caller observes.
func c09CheckHistory(g *Gen, h *c09Hist, mode byte, steps []c09Step) bool {
	sig, at, _, bad := c09HistoryVerdict(h, mode, steps, "")
	if !bad {
		return true
	}
	report := func(sig string, steps []c09Step) {
		steps = c09Shrink(steps, func(s []c09Step) bool { _, _, _, b := c09HistoryVerdict(h, mode, s, sig); return b })
		_, _, info, _ := c09HistoryVerdict(h, mode, steps, sig)
		g.Fail(sig, fmt.Sprintf("reader mode %c; %s", mode, info), c09HistoryOp(mode, h.recTok, steps))
	}
	report(sig, steps[:at+1])
	if sig == c09SigStore {
		for _, later := range []string{c09SigTree, c09SigRead} {
			if _, j, _, b := c09HistoryVerdict(h, mode, steps, later); b {
				report(later, steps[:j+1])
			}
		}
	}
	return false
}

// c09Shrink drops steps one at a time (last to first) while the history keeps failing, then lowers the size of the
// first append as far as possible.
func c09Shrink(steps []c09Step, fails func([]c09Step) bool) []c09Step {
	steps = append([]c09Step(nil), steps...)
	for i := len(steps) - 1; i >= 0; i-- {
		cand := append(append([]c09Step(nil), steps[:i]...), steps[i+1:]...)
		if len(cand) > 0 && fails(cand) {
			steps = cand
		}
	}
	if len(steps) > 0 && steps[0].Kind == 'A' {
		for n := int64(0); n < steps[0].A; n++ {
			cand := append([]c09Step(nil), steps...)
			cand[0].A = n
			if fails(cand) {
				steps = cand
				break
			}
		}
	}
	return steps
}

// ---- generators of histories

// c09HistSize: a tree size in [lo, cur], biased to the sizes whose subtree list is short and adjacent in the store
// (2^j+1: two adjacent positions), to powers of two and their neighbours, and to the current size.
func c09HistSize(r *Rand, lo, cur int) int {
	if cur <= lo {
		return cur
	}
	m := lo + r.Intn(cur-lo+1)
	switch r.Intn(8) {
	case 0, 1, 2:
		m = 1<<uint(r.Intn(11)) + 1
	case 3:
		m = 1<<uint(r.Intn(11)) - r.Intn(2)
	case 4:
		m = cur - r.Intn(2)
	}
	if m < lo || m > cur {
		m = lo + r.Intn(cur-lo+1)
	}
	return m
}

// c09GenHistory: appends interleaved with queries on a log that grows to k records, then a TreeHash of every size
// (k <= 40) or of sampled sizes.
func c09GenHistory(r *Rand, k int) []c09Step {
	var steps []c09Step
	cur := 0
	if r.Chance(60) {
		cur = k
	} else {
		cur = r.Intn(k + 1)
	}
	steps = append(steps, c09Step{Kind: 'A', A: int64(cur)})
	for q := 6 + r.Intn(20); q > 0; q-- {
		switch c := r.Intn(10); {
		case c < 4:
			m := c09HistSize(r, 0, cur)
			steps = append(steps, c09Step{Kind: 't', A: int64(m)})
			if r.Chance(40) { // the same request again (a memoising reader answers it from its cache)
				steps = append(steps, c09Step{Kind: 't', A: int64(m)})
			}
		case c < 6 && cur >= 1:
			t := c09HistSize(r, 1, cur)
			steps = append(steps, c09Step{Kind: 'r', A: int64(t), B: int64(r.Intn(t))})
		case c < 8 && cur >= 1:
			t := c09HistSize(r, 1, cur)
			steps = append(steps, c09Step{Kind: 'p', A: int64(t), B: int64(c09HistSize(r, 1, t))})
		case c == 8:
			cnt := int(tlog.StoredHashCount(int64(cur)))
			if cnt == 0 {
				continue
			}
			var idx []int64
			if r.Bool() { // a run of consecutive positions
				a := r.Intn(cnt)
				for j := 0; j < 1+r.Intn(4) && a+j < cnt; j++ {
					idx = append(idx, int64(a+j))
				}
			} else {
				for j := 1 + r.Intn(4); j > 0; j-- {
					idx = append(idx, int64(r.Intn(cnt)))
				}
			}
			steps = append(steps, c09Step{Kind: 'h', Idx: idx})
		case cur < k:
			cur += 1 + r.Intn(min(4, k-cur))
			steps = append(steps, c09Step{Kind: 'A', A: int64(cur)})
		}
	}
	if cur < k {
		cur = k
		steps = append(steps, c09Step{Kind: 'A', A: int64(cur)})
	}
	if cur <= 40 {
		for m := 0; m <= cur; m++ {
			steps = append(steps, c09Step{Kind: 't', A: int64(m)})
		}
	} else {
		for j := 0; j < 24; j++ {
			steps = append(steps, c09Step{Kind: 't', A: int64(c09HistSize(r, 0, cur))})
		}
	}
	return steps
}

// c09SmallScopeHistories: exhaustive on a synthetic log of N records, for both aliasing readers:
//   - for every m <= N: TreeHash(m) (twice), then TreeHash of every size;
//   - for every t <= N: ProveRecord(t, n) for every n < t, then TreeHash of every size; likewise ProveTree(t, n), 1 <= n <= t;
//   - appends one at a time with TreeHash(current size) and TreeHash(previous sizes 2^j+1) in between.
//
// Returns the number of histories run.
func c09SmallScopeHistories(g *Gen, seed, N int) int {
	recTok := fmt.Sprintf("@%d:%d", seed, N)
	recs := tlogSynth(seed, N)
	want, err := tlogBuild(recs)
	if err != nil {
		g.Fail("StoredHashes failed on a dense store", err.Error(), "tlog.storedhashes "+recTok)
		return 0
	}
	h := c09NewHist(recTok, recs, want)
	all := func(steps []c09Step) []c09Step {
		for m := 0; m <= N; m++ {
			steps = append(steps, c09Step{Kind: 't', A: int64(m)})
		}
		return steps
	}
	total := 0
	run := func(mode byte, steps []c09Step) bool {
		g.Case("history-small-scope")
		total++
		return c09CheckHistory(g, h, mode, steps)
	}
	for _, mode := range []byte{'z', 'm'} {
		ok := true
		for m := 0; m <= N && ok; m++ {
			ok = run(mode, all([]c09Step{{Kind: 'A', A: int64(N)}, {Kind: 't', A: int64(m)}, {Kind: 't', A: int64(m)}}))
		}
		for t := 1; t <= N && ok; t++ {
			rs := []c09Step{{Kind: 'A', A: int64(N)}}
			ps := []c09Step{{Kind: 'A', A: int64(N)}}
			for n := 0; n < t; n++ {
				rs = append(rs, c09Step{Kind: 'r', A: int64(t), B: int64(n)})
				ps = append(ps, c09Step{Kind: 'p', A: int64(t), B: int64(n + 1)})
			}
			ok = run(mode, all(rs)) && run(mode, all(ps))
		}
		if ok {
			var steps []c09Step
			for n := 1; n <= N; n++ {
				steps = append(steps, c09Step{Kind: 'A', A: int64(n)}, c09Step{Kind: 't', A: int64(n)})
				for j := uint(0); 1<<j+1 <= n; j++ {
					steps = append(steps, c09Step{Kind: 't', A: int64(1<<j + 1)})
				}
			}
			run(mode, all(steps))
		}
	}
	return total
}
