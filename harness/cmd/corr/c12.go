package main

// C12 — extraction enforces every zip restriction and never writes outside its directory.

import (
	"bytes"
	"errors"
	"os"
	"path"
	"strconv"
	"strings"
	"syscall"
	"unicode"
	"unicode/utf8"

	"golang.org/x/mod/module"
	modzip "golang.org/x/mod/zip"
)

func init() {
	register(&Prop{ID: "C12", Gen: genC12, Oracle: oracleC12,
		Rule: "real archives written with archive/zip (raw headers, so declared sizes may disagree with the content): entry names = module prefix (correct, wrong, case-varied, missing) + paths from C17's pools and escapes (.., ../x, /abs, a\\b, empty, trailing /, duplicates, file-vs-directory, unicode, 300-byte names, go.mod placements, the 22 reserved Windows device names in every letter case with chains of 0-3 dot-separated suffixes as file / directory element / directory entry at depths 0-3 and their near misses; directories named with each of the letters whose case fold is shorter in UTF-8 (Kelvin sign, long s, Angstrom sign, ... 34 letters) with fold-equal siblings differing 0-2 bytes before the end, explicit directory entries, same-name files); declared sizes honest, off by one, at 16MiB+-1, 500MiB+-1, 2^32, 2^63, 2^64-1; target directory missing / empty / non-empty / a file, given by a plain path (op zip.unzip) or (op zip.unzipat) with a trailing slash, through a symbolic link as final path element (relative, absolute, chain of two, followed by a slash; dangling in the oracle only), below a symlinked parent, the non-empty directory holding a file / a subdirectory / a go.mod / a symbolic link to a directory outside the target named like the first directory of the archive / a dangling link; sparse archive files above the size limit; non-trivial = every case; distinct by op line"})
}

// osLimits: also use path elements longer than NAME_MAX (the model knows no operating-system limits).
func c12GenEntries(r *Rand, mp, mv string, osLimits bool) []zipuEntry {
	prefix := mp + "@" + mv + "/"
	var es []zipuEntry
	add := func(name string, content []byte) {
		if strings.HasSuffix(name, "/") {
			content = nil // archive/zip does not write data for directory entries
		}
		es = append(es, zipuEntry{name: name, decl: uint64(len(content)), content: content})
	}
	// a mostly valid base: the files of a generated tree
	o := zipuGenOpts{realFS: true, plainOnly: true, honest: true, noVCS: r.Chance(50), cleanPct: 70}
	base := zipuGenFiles(r, o)
	extractable := r.Chance(45)
	if extractable {
		var keep []*zipuFile
		for _, f := range base {
			if !strings.EqualFold(path.Base(f.path), "go.mod") || f.path == "go.mod" {
				keep = append(keep, f)
			}
		}
		base = keep
	}
	if extractable || r.Chance(50) {
		// keep only names CheckFilePath accepts, so that most of these archives are extractable
		var keep []*zipuFile
		for _, f := range base {
			if module.CheckFilePath(f.path) == nil {
				keep = append(keep, f)
			}
		}
		base = keep
	}
	if len(base) > 8 {
		base = base[:8]
	}
	for _, f := range base {
		if f.mode == 'd' {
			add(prefix+f.path+"/", nil)
		} else {
			add(prefix+f.path, f.content)
		}
	}
	// mutations
	nmut := r.Intn(4)
	kind := -1
	if extractable {
		// an otherwise extractable archive; sometimes with one lying size
		nmut = 0
		if r.Chance(35) {
			nmut, kind = 1, 13
		}
	}
	for k := nmut; k > 0; k-- {
		sel := r.Intn(20)
		if kind >= 0 {
			sel = kind
		}
		switch sel {
		case 0:
			add(prefix+r.Pick([]string{"..", "../x", "../../x", "a/../../x", "a/..", "./x", "a/./b", "a//b", "../target/x", "../sibling"}), []byte("esc"))
		case 1:
			add(prefix+r.Pick([]string{"/abs", "/", "//x", "/../x"}), []byte("abs"))
		case 2:
			add(prefix+r.Pick([]string{"a\\b", "..\\x", "a\\..\\..\\x", "C:\\x", "a:b"}), []byte("bs"))
		case 3:
			add(prefix, nil) // empty name after the prefix
		case 4:
			add(prefix+r.Pick([]string{"d/", "a/", "x.go/", "d/e/", "go.mod/", "../", "/", "K/", "k/"}), nil) // directory entries
		case 5:
			add(r.Pick([]string{"", "x", mp + "@" + mv, strings.ToUpper(prefix) + "x", mp + "@v9.9.9/x", "other.com/m@" + mv + "/x", "/" + prefix + "x", "../" + prefix + "x", mp + "/x", "@/x"}), []byte("pfx"))
		case 6:
			if len(es) > 0 { // duplicate
				e := es[r.Intn(len(es))]
				es = append(es, e)
			}
		case 7:
			if len(es) > 0 { // file vs directory
				e := es[r.Intn(len(es))]
				if strings.HasSuffix(e.name, "/") {
					add(strings.TrimSuffix(e.name, "/"), []byte("f"))
				} else if r.Bool() {
					add(e.name+"/below.go", []byte("b"))
				} else {
					add(e.name+"/", nil)
				}
			}
		case 8:
			if len(es) > 0 { // case variant
				e := es[r.Intn(len(es))]
				if len(e.name) > len(prefix) && strings.HasPrefix(e.name, prefix) {
					rel := e.name[len(prefix):]
					add(prefix+r.Pick([]string{strings.ToUpper(rel), strings.ToLower(rel), strings.Replace(rel, "k", "K", 1), strings.Replace(rel, "s", "ſ", 1),
						zipuFlipCase(r, rel), zipuFlipCase(r, rel), zipuFlipCase(r, rel), zipuFlipCase(r, rel)}), []byte("cv"))
				}
			}
		case 9:
			add(prefix+r.Pick([]string{"go.mod", "GO.MOD", "Go.mod", "sub/go.mod", "sub/GO.MOD", "a/b/go.mod", "go.mod/x", "go.modx", "xgo.mod"}), []byte(r.Pick(zipuGoMods)))
		case 10:
			add(prefix+r.Pick([]string{"é/日本.go", "ß", "ſ", "s", "S", "K", "k", "K", "\xff", "a\xc0\xafb", "İ", "i̇", "é"}), []byte("u"))
		case 11:
			long := []string{strings.Repeat("a", 255), strings.Repeat("a/", 150) + "b", strings.Repeat("é", 127), "d/" + strings.Repeat("x", 255), strings.Repeat("ab/", 100) + strings.Repeat("y", 200)}
			if osLimits {
				long = append(long, strings.Repeat("a", 300), strings.Repeat("é", 150), strings.Repeat("y", 256))
			}
			add(prefix+r.Pick(long), []byte("long"))
		case 12:
			add(prefix+r.Pick([]string{"LICENSE", "sub/LICENSE", "license", "con", "aux.go", "x.", ".x", "a b", " ", "a*b", "x~1", "vendor/a/b.go", ".git/config", ".hg_archival.txt"}), []byte("n"))
		case 16, 17:
			// a reserved device name (any letter case) with 0-3 dot-separated suffixes as a file, a directory element
			// or a directory entry, at the root or below the directory of an existing entry; and its near misses
			dir := ""
			if len(es) > 0 && r.Bool() {
				if e := es[r.Intn(len(es))]; strings.HasPrefix(e.name, prefix) {
					if d := path.Dir(strings.TrimSuffix(e.name[len(prefix):], "/")); d != "." && d != "/" {
						dir = d + "/"
					}
				}
			}
			el := c12ReservedElem(r, r.Intn(4))
			if r.Chance(15) {
				el = r.Pick(c12NearReserved)
			}
			add(prefix+dir+el+r.Pick([]string{"", "", "/x.go", "/", "/sub/y.txt"}), []byte("dev"))
		case 18, 19:
			// a directory whose name holds a letter with a shorter fold (util_c12fold.go), at the root or below the
			// directory of an existing entry, with a fold-equal sibling / an explicit directory entry / further files
			dir := ""
			if len(es) > 0 && r.Bool() {
				if e := es[r.Intn(len(es))]; strings.HasPrefix(e.name, prefix) {
					if d := path.Dir(strings.TrimSuffix(e.name[len(prefix):], "/")); d != "." && d != "/" {
						dir = d + "/"
					}
				}
			}
			for _, nm := range c12ShortFoldMutation(r, dir) {
				add(prefix+nm, []byte("sf"))
			}
		case 13, 14, 15:
			if len(es) > 0 { // declared size lies
				i := r.Intn(len(es))
				n := uint64(len(es[i].content))
				es[i].decl = []uint64{n + 1, n - 1, n + 1, n - 1, n + 2, 0, zipu16M - 1, zipu16M, zipu16M + 1, zipu500M - 1, zipu500M, zipu500M + 1, 250 << 20, 250<<20 + 1,
					1 << 32, 1<<32 - 1, 1 << 63, 1<<63 - 1, 1<<64 - 1, n + 1<<32,
					1<<63 + 1, 1<<63 + uint64(r.Intn(1<<30)), 1<<64 - zipu500M, 1<<64 - zipu500M - 1, 1<<64 - zipu16M, 1<<64 - 2}[r.Intn(26)]
				if r.Chance(40) {
					es[i].name = prefix + r.Pick([]string{"go.mod", "LICENSE"})
				}
			}
		}
	}
	// header mode bits, independent of the name (zip.go decides "directory" by the trailing slash only)
	for i := range es {
		if r.Chance(12) {
			es[i].mode = "ddsipzf"[r.Intn(7)]
		}
	}
	if r.Chance(10) {
		r2 := &Rand{s: r.U64()}
		for i := len(es) - 1; i > 0; i-- {
			j := r2.Intn(i + 1)
			es[i], es[j] = es[j], es[i]
		}
	}
	return es
}

// c12HugeSizes: archives that are fine except for one declared size that is negative as int64
// (zip64 headers), for an ordinary file, go.mod and LICENSE, alone and followed by further content.
func c12HugeSizes() [][]zipuEntry {
	pfx := "example.com/m@v1.0.0/"
	var out [][]zipuEntry
	for _, name := range []string{"a.go", "go.mod", "LICENSE", "sub/b.go"} {
		for _, d := range []uint64{1 << 63, 1<<63 + 1, 1<<63 + 123456789, 1<<64 - 1, 1<<64 - zipu500M, 1<<64 - zipu500M - 1, 1<<64 - zipu500M + 1, 1<<64 - zipu16M, 1<<64 - zipu16M - 1} {
			out = append(out, []zipuEntry{{name: pfx + name, decl: d, content: []byte("x")}})
			out = append(out, []zipuEntry{{name: pfx + "first.go", decl: 1, content: []byte("f")}, {name: pfx + name, decl: d, content: nil},
				{name: pfx + "last.go", decl: 4, content: []byte("last")}})
		}
	}
	return out
}

// c12ModeBits: well-formed archives whose file entries carry directory / symlink / odd mode bits.
func c12ModeBits() [][]zipuEntry {
	pfx := "example.com/m@v1.0.0/"
	var out [][]zipuEntry
	for _, md := range []byte("dsipzf") {
		out = append(out, []zipuEntry{{name: pfx + "go.mod", decl: 21, content: []byte("module example.com/m\n")},
			{name: pfx + "pkg/data.bin", decl: 4, content: []byte("data"), mode: md}, {name: pfx + "pkg/", mode: md}, {name: pfx + "z.go", decl: 1, content: []byte("z")}})
		out = append(out, []zipuEntry{{name: pfx + "only", decl: 3, content: []byte("abc"), mode: md}})
	}
	return out
}

// c12FoldAndOrder: a case-variant pair for every ASCII letter (files and directories, both orders), and
// small root LICENSE / go.mod entries that come after more than 16 MiB of other (zero) content.
func c12FoldAndOrder() [][]zipuEntry {
	pfx := "example.com/m@v1.0.0/"
	var out [][]zipuEntry
	for _, pr := range zipuFoldSweep() {
		out = append(out, []zipuEntry{{name: pfx + pr[0], decl: 1, content: []byte("x")}, {name: pfx + pr[1], decl: 1, content: []byte("y")}})
	}
	zeros := func(p string, n int) zipuEntry { return zipuEntry{name: pfx + p, decl: uint64(n), content: make([]byte, n)} }
	small := func(p, c string) zipuEntry { return zipuEntry{name: pfx + p, decl: uint64(len(c)), content: []byte(c)} }
	out = append(out,
		[]zipuEntry{zeros("big.bin", zipu16M+1), small("LICENSE", "abc")},
		[]zipuEntry{zeros("big.bin", zipu16M+1), small("go.mod", "module example.com/m\n")},
		[]zipuEntry{small("LICENSE", "abc"), small("go.mod", "module example.com/m\n"), zeros("big.bin", zipu16M+1)},
		[]zipuEntry{zeros("a.bin", 6<<20), zeros("b.bin", 6<<20), zeros("c/d.bin", 6<<20), small("LICENSE", "text"), small("go.mod", "module example.com/m\n"), small("z.go", "z")},
	)
	return out
}

// ---- reserved Windows device names with dotted suffixes
//
// Input class added for the rule "the element prefix up to the FIRST dot must not be a reserved file name on Windows,
// regardless of case": the archive stream had reserved names only bare or with one extension ("con", "aux.go", and
// "lpt9.x.y" once in a pool of 26 bad elements, drawn with probability of about 1/1000 per element), so code that looks
// at the element minus its LAST extension (or at any other cut) was indistinguishable. The class is the product
// dictionary of 22 device names x letter case x chains of 0-3 dot-separated suffixes x place in the entry name
// (file at the root, file below directories, directory element, explicit directory entry), with near misses that
// every reading of the rule accepts.

var c12Reserved = []string{"CON", "PRN", "AUX", "NUL", "COM1", "COM2", "COM3", "COM4", "COM5", "COM6", "COM7", "COM8", "COM9",
	"LPT1", "LPT2", "LPT3", "LPT4", "LPT5", "LPT6", "LPT7", "LPT8", "LPT9"}

var c12Suffixes = []string{"a", "b", "d", "x", "go", "txt", "tar", "gz", "bak", "old", "log", "v1", "2024", "1", "con", "NUL", "d~1", "-", "é"}

// names that look reserved but are valid under the documented rule (the prefix up to the first dot is not a device name)
var c12NearReserved = []string{"console.tar.gz", "x.aux.gz", "com10.a.b", ".nul.x", "com0.a.b", "lpt.1.2", "com.1.x", "con1.a.b", "xcon.a.b",
	"a.con.b", "a.b.con", "auxx.tar.gz", "nu.l.x", "-prn.a.b", "_nul.a.b", "con~1.a.b", "lpt10.bak.d", "co.n.a", ".con", "x.con.y.nul"}

// c12RandCase gives every letter of w a random case.
func c12RandCase(r *Rand, w string) string {
	b := []byte(w)
	for i, c := range b {
		if 'A' <= c && c <= 'Z' && r.Bool() {
			b[i] = c | 0x20
		}
	}
	return string(b)
}

// c12ReservedElem: a device name in random letter case followed by nsuf dot-separated suffixes.
func c12ReservedElem(r *Rand, nsuf int) string {
	var w string
	switch r.Intn(4) {
	case 0:
		w = r.Pick(c12Reserved)
	case 1:
		w = strings.ToLower(r.Pick(c12Reserved))
	default:
		w = c12RandCase(r, r.Pick(c12Reserved))
	}
	for ; nsuf > 0; nsuf-- {
		w += "." + r.Pick(c12Suffixes)
	}
	return w
}

// c12ReservedSweep: small archives around one element each. Every device name with 0, 1, 2 and 3 suffixes, the place of
// the element rotating (all places for every name and suffix count in the thorough tier), plus the near misses.
func c12ReservedSweep(r *Rand) [][]zipuEntry {
	pfx := "example.com/m@v1.0.0/"
	file := func(p string) zipuEntry { return zipuEntry{name: pfx + p, decl: uint64(len(p)), content: []byte(p)} }
	gomod := zipuEntry{name: pfx + "go.mod", decl: 21, content: []byte("module example.com/m\n")}
	place := func(el string, k int) []zipuEntry {
		switch k % 6 {
		case 0:
			return []zipuEntry{file(el)}
		case 1:
			return []zipuEntry{gomod, file("dist/" + el)}
		case 2:
			return []zipuEntry{file("a.go"), file("third_party/" + el + "/x.go")}
		case 3:
			return []zipuEntry{file("a.go"), {name: pfx + el + "/"}}
		case 4:
			return []zipuEntry{gomod, file("a/b/c/" + el), file("z.go")}
		}
		return []zipuEntry{file(el + "/deep/er/y.txt"), file("LICENSE")}
	}
	var out [][]zipuEntry
	for i, w := range c12Reserved {
		for nsuf := 0; nsuf <= 3; nsuf++ {
			places := []int{i + nsuf, i + nsuf + 3}
			if thorough {
				places = []int{0, 1, 2, 3, 4, 5}
			}
			for _, k := range places {
				el := []string{w, strings.ToLower(w), c12RandCase(r, w)}[(i+k)%3]
				for j := 0; j < nsuf; j++ {
					el += "." + r.Pick(c12Suffixes)
				}
				out = append(out, place(el, k))
			}
		}
	}
	for i, el := range c12NearReserved {
		out = append(out, place(el, i))
	}
	return out
}

// c12SpecFilePath states the documented rule for file paths (doc comment of module.CheckFilePath) on its own, without
// calling the module package: valid UTF-8; non-empty slash-separated elements of Unicode letters, ASCII digits, space and
// !#$%&()+,-.=@[]^_{}~; no leading or trailing slash (hence no empty element); no element made of dots only or
// ending in a dot; the prefix of an element up to its first dot is not a reserved Windows file name in any letter case.
func c12SpecFilePath(p string) bool {
	if !utf8.ValidString(p) || p == "" {
		return false
	}
	for _, e := range strings.Split(p, "/") {
		if e == "" || strings.Trim(e, ".") == "" || strings.HasSuffix(e, ".") {
			return false
		}
		for _, c := range e {
			if c < 0x80 {
				if !('0' <= c && c <= '9' || 'A' <= c && c <= 'Z' || 'a' <= c && c <= 'z' || strings.ContainsRune("!#$%&()+,-.=@[]^_{}~ ", c)) {
					return false
				}
			} else if !unicode.IsLetter(c) {
				return false
			}
		}
		short, _, _ := strings.Cut(e, ".")
		for _, w := range c12Reserved {
			if strings.EqualFold(w, short) {
				return false
			}
		}
	}
	return true
}

func genC12(g *Gen, n int) {
	for _, es := range append(append(c12HugeSizes(), c12ModeBits()...), c12FoldAndOrder()...) {
		tok := zipuEntriesTok(es)
		g.Emit("zip.checkzip "+hx("example.com/m")+" "+hx("v1.0.0")+" 0 "+tok, true, "fixed-sizes-modes")
		g.Emit("zip.unzip "+hx("example.com/m")+" "+hx("v1.0.0")+" 0 m "+tok, true, "fixed-sizes-modes")
	}
	for _, es := range c12ReservedSweep(g.Rand) {
		tok := zipuEntriesTok(es)
		g.Emit("zip.checkzip "+hx("example.com/m")+" "+hx("v1.0.0")+" 0 "+tok, true, "reserved-dotted")
		g.Emit("zip.unzip "+hx("example.com/m")+" "+hx("v1.0.0")+" 0 m "+tok, true, "reserved-dotted")
	}
	// letters with a shorter fold in directory components (util_c12fold.go)
	for _, es := range c12ShortFoldSweep() {
		tok := zipuEntriesTok(es)
		g.Emit("zip.checkzip "+hx("example.com/m")+" "+hx("v1.0.0")+" 0 "+tok, true, "short-fold-dir")
		g.Emit("zip.unzip "+hx("example.com/m")+" "+hx("v1.0.0")+" 0 m "+tok, true, "short-fold-dir")
	}
	// every modelled shape of the target argument (util_c12target.go) against four small archives
	for _, es := range c12ShapeArchives() {
		tok := zipuEntriesTok(es)
		for _, shape := range c12ModelledShapes() {
			g.Emit("zip.unzipat "+hx("example.com/m")+" "+hx("v1.0.0")+" 0 "+shape+" "+tok, true, "target-shape", "target-via-"+shape[:1])
		}
	}
	// the archive-size limit is checked before the archive is opened: sparse files
	g.Emit("zip.checkzip "+hx("example.com/m")+" "+hx("v1.0.0")+" "+itoa(zipu500M+1)+" _", true, "zipsize")
	g.Emit("zip.unzip "+hx("example.com/m")+" "+hx("v1.0.0")+" "+itoa(zipu500M+1)+" m _", true, "zipsize")
	g.Emit("zip.unzip "+hx("example.com/m")+" "+hx("v1.0")+" "+itoa(zipu500M+1)+" m _", true, "zipsize")
	// The fixed families above (with their mirrored ops) are nearly the quick tier's n by themselves (2314 of
	// 2500 ops: the random archives below were down to about 55 per run): the random stream gets at least n/2
	// ops of its own, however large the sweeps are.
	if n < g.st.Ops+n/2 {
		n = g.st.Ops + n/2
	}
	for g.st.Ops < n {
		mp, mv := zipuPickMod(g.Rand, 6)
		es := c12GenEntries(g.Rand, mp, mv, false)
		tok := zipuEntriesTok(es)
		if g.Chance(40) {
			g.Emit("zip.checkzip "+hx(mp)+" "+hx(mv)+" 0 "+tok, true, "checkzip")
		}
		t := "m"
		switch g.Intn(12) {
		case 0, 1, 2:
			t = "e"
		case 3:
			t = "n"
		case 4:
			t = "f"
		}
		if g.Chance(12) {
			shape := c12RandShape(g.Rand, true)
			g.Emit("zip.unzipat "+hx(mp)+" "+hx(mv)+" 0 "+shape+" "+tok, true, "unzipat-"+shape[:2])
			continue
		}
		g.Emit("zip.unzip "+hx(mp)+" "+hx(mv)+" 0 "+t+" "+tok, true, "unzip-"+t)
	}
}

// c12Check runs CheckZip and Unzip on one archive and checks every clause of the property.
//
// shape says how the target argument is given and what it denotes: a one-letter token is a plain path in one of the
// historic states (m missing, e empty directory, n directory with one file, f regular file); longer tokens are the
// shapes of util_c12target.go (trailing slash, symbolic link as the final element, chain of links, symlinked parent;
// dangling link; non-empty through a subdirectory / a symbolic link leading elsewhere / ...). "The target directory"
// is the directory the argument denotes, so for a link it is the link's destination.
func c12Check(g *Gen, m module.Version, es []zipuEntry, shape string, line string) {
	sh := c12ParseShape(shape)
	target := sh.state
	zipuWithArchive(0, es, func(tmp, zp string) string {
		cf, cerr := modzip.CheckZip(m, zp)
		var o zipuUnzipObs
		changedInside := 0
		if len(shape) == 1 {
			o = zipuUnzip(tmp, zp, m, target)
			changedInside = len(o.files) + len(o.dirs)
		} else {
			so := c12UnzipShape(tmp, zp, m, es, shape)
			if so.setupErr != nil {
				g.Case("harness-setup-failed")
				return ""
			}
			o, changedInside = so.zipuUnzipObs, so.inside
			g.Case("shape-" + string(sh.via) + string(sh.state))
		}
		// nothing is ever created outside the target directory, success or failure
		g.Case("confined")
		if len(o.outside) != 0 {
			g.Fail("C12 confined: Unzip created or changed something outside the target directory", strings.Join(o.outside, ","), line)
			return ""
		}
		if target == 'n' {
			// a target that exists and is not empty is refused — whatever it holds (file, subdirectory, symbolic link)
			// and however the argument reaches it — and nothing is written into it
			g.Case("nonempty-refused")
			if o.err == nil {
				g.Fail("C12 non-empty target: Unzip did not refuse a target directory that exists and is not empty", "shape="+shape, line)
				return ""
			}
			if changedInside != 0 {
				g.Fail("C12 non-empty target: Unzip wrote into a target directory that exists and is not empty", "shape="+shape, line)
				return ""
			}
		}
		honest := true
		for _, e := range es {
			if e.decl != uint64(len(e.content)) && !strings.HasSuffix(e.name, "/") {
				honest = false
			}
		}
		accepted := cerr == nil
		if errors.Is(o.err, syscall.ENAMETOOLONG) {
			// a path element longer than the file system allows: an operating-system limit, outside the property
			g.Case("os-name-limit")
			if !accepted {
				g.Fail("C12 ok-implies: Unzip started writing an archive CheckZip rejects", zipuErrKind(cerr), line)
			}
			return ""
		}
		if honest && (target == 'm' || target == 'e') && !sh.dangling() {
			// extraction succeeds exactly when the zip check accepts
			g.Case("ok-iff-checkzip")
			if (o.err == nil) != accepted {
				g.Fail("C12 ok-iff: Unzip and CheckZip disagree on an archive with honest sizes", "unzip="+zipuErrKind(o.err)+" checkzip="+zipuErrKind(cerr), line)
				return ""
			}
		} else {
			g.Case("ok-implies-checkzip")
			if o.err == nil && !accepted {
				g.Fail("C12 ok-implies: Unzip succeeds on an archive CheckZip rejects", zipuErrKind(cerr), line)
				return ""
			}
		}
		if !accepted {
			return ""
		}
		// the zip check accepts (and extraction, given a usable target and honest sizes, succeeds):
		// every documented restriction holds for the archive as declared
		g.Case("restrictions")
		if len(cf.Invalid) != 0 || cf.SizeError != nil {
			g.Fail("C12 restrictions: CheckZip returns no error but the report lists problems", "", line)
			return ""
		}
		prefix := m.Path + "@" + m.Version + "/"
		want := map[string][]byte{}
		var wantValid []string
		var total uint64
		type ent struct {
			rel   string
			isDir bool
		}
		var seen []ent
		for _, e := range es {
			if !strings.HasPrefix(e.name, prefix) {
				g.Fail("C12 restrictions: accepted an archive with an entry lacking the module prefix", hx(e.name), line)
				return ""
			}
			rel := e.name[len(prefix):]
			if rel == "" {
				continue
			}
			isDir := strings.HasSuffix(rel, "/")
			rel = strings.TrimSuffix(rel, "/")
			if rel != path.Clean(rel) || path.IsAbs(rel) || module.CheckFilePath(rel) != nil || !c12SpecFilePath(rel) {
				g.Fail("C12 restrictions: accepted an archive with an unclean, absolute or ill-formed path", hx(e.name), line)
				return ""
			}
			// collisions: against every earlier entry and every ancestor directory
			for _, s := range seen {
				for d, dIsDir := rel, isDir; d != "."; d, dIsDir = path.Dir(d), true {
					for q, qIsDir := s.rel, s.isDir; q != "."; q, qIsDir = path.Dir(q), true {
						if strings.EqualFold(d, q) && (d != q || dIsDir != qIsDir || !dIsDir) {
							g.Fail("C12 restrictions: accepted an archive with colliding entries", hx(e.name)+" vs "+hx(s.rel), line)
							return ""
						}
					}
				}
			}
			seen = append(seen, ent{rel, isDir})
			if isDir {
				continue
			}
			if strings.EqualFold(path.Base(rel), "go.mod") && rel != "go.mod" {
				g.Fail("C12 restrictions: accepted an archive with a misplaced or mis-cased go.mod", hx(e.name), line)
				return ""
			}
			// sizes are within limits: the declared 64-bit size of each file, go.mod, LICENSE and the total
			if e.decl > modzip.MaxZipFile || total+e.decl > modzip.MaxZipFile ||
				(rel == "go.mod" && e.decl > modzip.MaxGoMod) || (rel == "LICENSE" && e.decl > modzip.MaxLICENSE) {
				g.Fail("C12 restrictions: CheckZip accepts an archive whose declared sizes exceed a limit",
					hx(e.name)+" declares "+strconv.FormatUint(e.decl, 10)+" bytes", line)
				return ""
			}
			total += e.decl
			want[rel] = e.content
			wantValid = append(wantValid, e.name)
		}
		if c17SetOf(cf.Valid) != c17SetOf(wantValid) {
			g.Fail("C12 restrictions: the Valid list of an accepted archive is not its file entries", "", line)
			return ""
		}
		if o.err != nil {
			return ""
		}
		// extraction succeeded: sizes match their declarations and the extracted tree equals the entries
		for _, e := range es {
			if !strings.HasSuffix(e.name, "/") && e.name != prefix && e.decl != uint64(len(e.content)) {
				g.Fail("C12 restrictions: extracted an entry whose size differs from its declaration", hx(e.name), line)
				return ""
			}
		}
		g.Case("tree-eq-entries")
		if len(o.files) != len(want) || len(o.files) != len(cf.Valid) {
			g.Fail("C12 tree: extracted tree has a different number of files than the archive / the Valid list", itoa(len(o.files))+" vs "+itoa(len(want))+" / "+itoa(len(cf.Valid)), line)
			return ""
		}
		for p, c := range want {
			if got, ok := o.files[p]; !ok || !bytes.Equal(got, c) {
				g.Fail("C12 tree: an extracted file is missing or differs from its entry", hx(p), line)
				return ""
			}
		}
		// no directories beyond the ancestors of the files (empty directories are ignored)
		for _, d := range o.dirs {
			if d == "." {
				continue
			}
			dn := unhx(d)
			used := false
			for p := range want {
				if strings.HasPrefix(p, dn+"/") {
					used = true
				}
			}
			if !used {
				g.Fail("C12 tree: a directory was created that no extracted file needs", d, line)
				return ""
			}
		}
		return ""
	})
}

func oracleC12(g *Gen, n int) {
	for _, es := range append(append(c12HugeSizes(), c12ModeBits()...), c12FoldAndOrder()...) {
		m := module.Version{Path: "example.com/m", Version: "v1.0.0"}
		t := string("me"[g.Intn(2)])
		c12Check(g, m, es, t, "zip.unzip "+hx(m.Path)+" "+hx(m.Version)+" 0 "+t+" "+zipuEntriesTok(es))
	}
	for _, es := range c12ReservedSweep(g.Rand) {
		m := module.Version{Path: "example.com/m", Version: "v1.0.0"}
		g.Case("reserved-dotted")
		c12Check(g, m, es, "m", "zip.unzip "+hx(m.Path)+" "+hx(m.Version)+" 0 m "+zipuEntriesTok(es))
	}
	// letters with a shorter fold in directory components (util_c12fold.go)
	for i, es := range c12ShortFoldSweep() {
		m := module.Version{Path: "example.com/m", Version: "v1.0.0"}
		t := string("me"[i%2])
		g.Case("short-fold-dir")
		c12Check(g, m, es, t, "zip.unzip "+hx(m.Path)+" "+hx(m.Version)+" 0 "+t+" "+zipuEntriesTok(es))
	}
	// every shape of the target argument (util_c12target.go) against four small archives
	for _, es := range c12ShapeArchives() {
		m := module.Version{Path: "example.com/m", Version: "v1.0.0"}
		for _, shape := range c12AllShapes() {
			c12Check(g, m, es, shape, "zip.unzipat "+hx(m.Path)+" "+hx(m.Version)+" 0 "+shape+" "+zipuEntriesTok(es))
		}
	}
	for i := 0; i < n; i++ {
		mp, mv := zipuPickMod(g.Rand, 4)
		es := c12GenEntries(g.Rand, mp, mv, true)
		t := string("mmmmmmeeenf"[g.Intn(11)])
		op := "zip.unzip "
		if g.Chance(25) {
			t, op = c12RandShape(g.Rand, false), "zip.unzipat "
		}
		line := op + hx(mp) + " " + hx(mv) + " 0 " + t + " " + zipuEntriesTok(es)
		c12Check(g, module.Version{Path: mp, Version: mv}, es, t, line)
	}
	// honest contents at the 16 MiB boundary (too large for an op line; checked on the implementation only)
	if n >= 200 || thorough {
		m := module.Version{Path: "example.com/m", Version: "v1.0.0"}
		for _, name := range []string{"go.mod", "LICENSE", "sub/LICENSE"} {
			for _, sz := range []int{zipu16M, zipu16M + 1} {
				c := make([]byte, sz)
				copy(c, "module example.com/m\n")
				es := []zipuEntry{{name: m.Path + "@" + m.Version + "/" + name, decl: uint64(sz), content: c}, {name: m.Path + "@" + m.Version + "/a.go", decl: 1, content: []byte("a")}}
				g.Case("boundary-16MiB")
				c12Check(g, m, es, "m", "(16MiB boundary) entry "+name+" size "+itoa(sz))
			}
		}
	}
	_ = os.ErrNotExist
}
