package main

// C16 — input class "bulk setter applied DIRECTLY to a freshly parsed file that holds EMPTY blocks".
//
// Why it was missing.  The property quantifies over every well-formed starting file; `require ()` and
// `require (` `)` are well-formed (Parse accepts them, hand edits leave them behind).  The shared file
// generator does write an empty block now and then, but every session of C16 - generator and oracle alike - ran a
// Cleanup BEFORE the bulk setter (the harness inserts it because a setter panics on the cleared entries that Drop*
// operations leave behind; edCheckC16 even obtained the state before the setter from edRunSession, which always
// ends with a Cleanup).  Cleanup deletes empty blocks, collapses one-line blocks and drops cleared lines, so the
// block-discovery code of the setters (SetRequireSeparateIndirect's scan for the last direct-only / indirect-only
// block, SetRequire's and SetUse's reuse of existing lines) never saw an empty block, on any input.  A freshly
// parsed file has no cleared entries, so the setter may be applied to it directly, and that is the literal reading
// of the property ("starting file, setter, Cleanup").
//
// The class:
//
//	file:    header lines and 0-4 ordinary statements, with 1-3 EMPTY blocks put at every possible boundary (top of
//	         the file, between the header lines, between / after the statements, last statement): every verb
//	         (go.mod: require, exclude, replace, retract, tool, godebug; go.work: use, replace, godebug), the forms
//	         `verb ()`, `verb ( )`, `verb (` `)`, with a blank line inside, and (less often) the commented forms
//	request: drawn as everywhere else, plus (most of the time) at least one NEW direct and one NEW indirect path
//	ops:     mostly  <bulk setter> cleanup  with NO Cleanup in front; sometimes 1-2 adding operations first (they fill
//	         the empty block) or a general random history (Cleanup before bulk setters, as in the shared generator)
//
// The oracle is edCheckC16 as it stands, except that the state "before the setter" is the parsed file (plus the
// prefix) without a Cleanup (edCheckC16Raw); the separate-blocks clause uses the same premise as before (the file
// has exactly one require statement, line or block, and it carries no comment), now evaluated on that state, so
// that a lone `require ()` counts as "one uncommented block".

import (
	"strings"

	"golang.org/x/mod/modfile"
)

var edC16EmptyModVerbs = []string{"require", "exclude", "replace", "retract", "tool", "godebug"}
var edC16EmptyWorkVerbs = []string{"use", "replace", "godebug"}

// edC16EmptyBlock renders one empty block of the verb.
func edC16EmptyBlock(r *Rand, verb string) string {
	switch k := r.Intn(100); {
	case k < 38:
		return verb + " ()\n"
	case k < 70:
		return verb + " (\n)\n"
	case k < 76:
		return verb + " ( )\n"
	case k < 82:
		return verb + " (\n\n)\n"
	case k < 87:
		return r.Pick(edComments) + "\n" + verb + " ()\n"
	case k < 91:
		return verb + " (\n\t" + r.Pick(edComments) + "\n)\n"
	case k < 94:
		return verb + " ( " + r.Pick(edComments) + "\n)\n"
	case k < 97 && verb != "godebug":
		return verb + " () " + r.Pick([]string{"// indirect", "// why", "// indirect; x"}) + "\n"
	}
	return verb + " (\n) " + r.Pick(edComments) + "\n"
}

// edC16EmptyFile: a starting file that parses strictly and holds at least one empty block.
func edC16EmptyFile(r *Rand, work bool) string {
	primary, verbs, kinds := "require", edC16EmptyModVerbs, edModKinds
	if work {
		primary, verbs, kinds = "use", edC16EmptyWorkVerbs, edWorkKinds
	}
	for try := 0; try < 30; try++ {
		var chunks []string
		modPath := r.Pick(edModulePaths)
		if !work && r.Chance(92) {
			chunks = append(chunks, "module "+modPath+"\n")
		}
		if r.Chance(80) {
			chunks = append(chunks, "go "+r.Pick(edGoVersions)+"\n")
		}
		n := r.Intn(5)
		if r.Chance(30) {
			n = 0
		}
		for i := 0; i < n; i++ {
			g := &edFG{r: r}
			k := r.Pick(kinds)
			if r.Chance(50) {
				k = primary
			}
			g.stmt(k, modPath)
			chunks = append(chunks, strings.TrimRight(g.b.String(), "\n")+"\n")
		}
		ne := 1
		if r.Chance(35) {
			ne = 2 + r.Intn(2)
		}
		for i := 0; i < ne; i++ {
			verb := primary
			if r.Chance(45) {
				verb = r.Pick(verbs)
			}
			at := r.Intn(len(chunks) + 1)
			if r.Chance(35) {
				at = len(chunks) // the last statement of the file
			}
			chunks = append(chunks[:at], append([]string{edC16EmptyBlock(r, verb)}, chunks[at:]...)...)
		}
		var b strings.Builder
		for i, c := range chunks {
			if i > 0 && r.Chance(75) {
				b.WriteString("\n")
			}
			b.WriteString(c)
		}
		s := b.String()
		var err error
		if work {
			_, err = modfile.ParseWork("go.work", []byte(s), nil)
		} else {
			_, err = modfile.Parse("go.mod", []byte(s), nil)
		}
		if err == nil {
			return s
		}
	}
	if work {
		return "go 1.21\n\nuse ()\n"
	}
	return "module example.com/m\n\ngo 1.21\n\nrequire ()\n"
}

// edC16EmptyReqList: a requested list as drawn everywhere else, plus (70%) one new direct and one new indirect path.
func edC16EmptyReqList(r *Rand, cur *edDirs) []edEnt {
	list := edGenReqList(r, cur)
	if !r.Chance(70) {
		return list
	}
	used := map[string]bool{}
	for _, e := range cur.L[edRequire] {
		used[e.K[0]] = true
	}
	for _, e := range list {
		used[e.K[0]] = true
	}
	perm := append([]string{}, edModPaths...)
	for i := len(perm) - 1; i > 0; i-- {
		j := r.Intn(i + 1)
		perm[i], perm[j] = perm[j], perm[i]
	}
	for _, ind := range []bool{false, true} {
		k := 1
		if r.Chance(30) {
			k = 2
		}
		for _, p := range perm {
			if k > 0 && !used[p] {
				used[p] = true
				list = append(list, edEnt{K: []string{p, edVersFor(r, p)}, Ind: ind, ID: -1})
				k--
			}
		}
	}
	for i := len(list) - 1; i > 0; i-- {
		j := r.Intn(i + 1)
		list[i], list[j] = list[j], list[i]
	}
	return list
}

func edC16EmptyUseList(r *Rand, cur *edDirs) []edEnt {
	list := edGenUseList(r, cur)
	if !r.Chance(60) {
		return list
	}
	used := map[string]bool{}
	for _, e := range cur.L[edUse] {
		used[e.K[0]] = true
	}
	for _, e := range list {
		used[e.K[0]] = true
	}
	for k := 1 + r.Intn(2); k > 0; k-- {
		if p := edPickUseDir(r); !used[p] {
			used[p] = true
			list = append(list, edEnt{K: []string{p, ""}, ID: -1})
		}
	}
	return list
}

func edC16EmptySetter(r *Rand, work bool, cur *edDirs) edOp {
	if work {
		return edOp{Name: "setuse", List: edC16EmptyUseList(r, cur), Rev: r.Bool()}
	}
	return edOp{Name: r.Pick([]string{"setrequire", "setrequiresep", "setrequiresep"}), List: edC16EmptyReqList(r, cur), Rev: r.Bool()}
}

// edC16AddingOp: an operation that only ever adds a line (it cannot leave a cleared entry behind, so that a bulk
// setter may follow without a Cleanup): it goes into the last statement of its verb, i.e. into an empty block.
func edC16AddingOp(r *Rand, work bool, cur *edDirs) edOp {
	if work {
		return edOp{Name: "newuse", A: []string{edPickUseDir(r), ""}}
	}
	switch r.Intn(5) {
	case 0, 1:
		p := r.Pick(edModPaths)
		ind := "0"
		if r.Bool() {
			ind = "1"
		}
		return edOp{Name: "newrequire", A: []string{p, edVersFor(r, p), ind}}
	case 2:
		p := r.Pick(edModPaths)
		return edOp{Name: "exclude", A: []string{p, edVersFor(r, p)}}
	case 3:
		return edOp{Name: "tool", A: []string{r.Pick(edToolPaths)}}
	}
	modPath := ""
	if cur.Module != nil {
		modPath = cur.Module.K[0]
	}
	v := edVersFor(r, modPath)
	return edOp{Name: "retract", A: []string{v, v, r.Pick([]string{"", "bad"})}}
}

// edC16EmptySession: one session of the class.  raw = the ops end with <bulk setter> cleanup and there is NO Cleanup
// between the parse (plus adding-only prefix) and the setter.
func edC16EmptySession(r *Rand, work bool) (file string, ops []edOp, raw bool) {
	file = edC16EmptyFile(r, work)
	cur := edRunSession(work, file, nil).Start
	switch k := r.Intn(100); {
	case k < 55: // the setter directly on the parsed file
		return file, []edOp{edC16EmptySetter(r, work, cur), {Name: "cleanup"}}, true
	case k < 75: // adding operations fill the empty block first
		a := &edAbs{edDirs: edCloneDirs(cur), Work: work, Touched: map[int]bool{}}
		for n := 1 + r.Intn(2); n > 0; n-- {
			o := edC16AddingOp(r, work, a.edDirs)
			ops = append(ops, o)
			a.step(o)
		}
		if r.Chance(35) {
			// with the Cleanup: the block now holds one or two lines
			return file, append(ops, edOp{Name: "cleanup"}, edC16EmptySetter(r, work, a.edDirs), edOp{Name: "cleanup"}), false
		}
		return file, append(ops, edC16EmptySetter(r, work, a.edDirs), edOp{Name: "cleanup"}), true
	}
	// a general history (Cleanup before bulk setters), ending with a bulk setter
	a := &edAbs{edDirs: edCloneDirs(cur), Work: work, Touched: map[int]bool{}}
	for n := 1 + r.Intn(4); n > 0; n-- {
		o := edGenOp(r, a.edDirs, work)
		if edIsBulk(o.Name) {
			o.Rev = r.Bool()
			if len(ops) == 0 || ops[len(ops)-1].Name != "cleanup" {
				ops = append(ops, edOp{Name: "cleanup"})
			}
		}
		ops = append(ops, o)
		a.step(o)
	}
	if ops[len(ops)-1].Name != "cleanup" {
		ops = append(ops, edOp{Name: "cleanup"})
	}
	return file, append(ops, edC16EmptySetter(r, work, a.edDirs), edOp{Name: "cleanup"}), false
}

// edC16HitW: the non-triviality rule (at least one op hits a line of the starting file), go.mod and go.work.
func edC16HitW(work bool, file string, ops []edOp) bool {
	run := edRunSession(work, file, nil)
	if run.ParseErr {
		return false
	}
	a := &edAbs{edDirs: edCloneDirs(run.Start), Work: work, Touched: map[int]bool{}}
	for _, o := range ops {
		a.step(o)
	}
	return len(a.Touched) > 0
}

// edC16RunRaw: parse strictly and apply ops - like edRunSession, but WITHOUT the final Cleanup (and without
// formatting): the state a bulk setter finds when it is applied directly.
func edC16RunRaw(work bool, file string, ops []edOp) (run *edRun) {
	run = &edRun{Collapsed: map[*modfile.Line]string{}, StartPtr: map[*modfile.Line]bool{}, BlankOnly: map[*modfile.Line]bool{},
		PreBulkSuffix: map[*modfile.Require]string{}, BlockTexts: map[*modfile.Line][]string{}, SuffixBlock: map[*modfile.Line][]modfile.Comment{}}
	var fs *modfile.FileSyntax
	if work {
		f, err := modfile.ParseWork("go.work", []byte(file), nil)
		if err != nil {
			run.ParseErr = true
			return
		}
		run.Work, fs = f, f.Syntax
	} else {
		f, err := modfile.Parse("go.mod", []byte(file), nil)
		if err != nil {
			run.ParseErr = true
			return
		}
		run.Mod, fs = f, f.Syntax
	}
	run.Lines = edTreeLines(fs)
	ids := map[*modfile.Line]int{}
	for i, l := range run.Lines {
		ids[l.Ptr] = i
		run.StartPtr[l.Ptr] = true
	}
	if work {
		run.Start = edDirsOfWork(run.Work, ids)
	} else {
		run.Start = edDirsOfFile(run.Mod, ids)
	}
	edTrackBlocks(run, fs)
	cur := ""
	defer func() {
		if r := recover(); r != nil {
			run.Panic = cur
		}
	}()
	for _, o := range ops {
		cur = o.Name
		if work {
			run.Res = append(run.Res, edApplyWork(run.Work, o))
		} else {
			run.Res = append(run.Res, edApplyMod(run.Mod, o))
		}
		edTrackBlocks(run, fs)
	}
	return
}

// edC16EmptySweep: the small-scope exhaustive part of the class.  go.mod: an empty require block (both plain forms)
// at the top of the file, right after the header, before / after / between every shape of other require statement
// (none, direct line, indirect line, direct-only block, indirect-only block, mixed block, commented block), with and
// without another statement in between; requests: the existing paths a and b each absent / as they stand / with the
// other marking and a new version, a new direct path and a new indirect path each absent / present; both setters.
// Then an empty block of every other verb in three positions next to a mixed require block.  go.work: `use ()`
// around every shape of other use statement x SetUse lists.  do is called with each (work, file, ops); the ops are
// always  <bulk setter> cleanup  (raw).
func edC16EmptySweep(do func(work bool, file string, ops []edOp)) {
	const hdr = "module example.com/m\n\ngo 1.21\n\n"
	others := []string{
		"",
		"require example.com/a v1.0.0\n",
		"require example.com/b v1.0.0 // indirect\n",
		"require (\n\texample.com/a v1.0.0\n\texample.com/e v1.0.0\n)\n",
		"require (\n\texample.com/b v1.0.0 // indirect\n\texample.com/e v1.0.0 // indirect\n)\n",
		"require (\n\texample.com/a v1.0.0\n\texample.com/b v1.0.0 // indirect\n)\n",
		"// keep\nrequire (\n\texample.com/a v1.0.0\n\texample.com/b v1.0.0 // indirect\n)\n",
		"require example.com/a v1.0.0\n\nrequire example.com/b v1.0.0 // indirect\n",
	}
	opt := func(es ...*edEnt) []*edEnt { return es }
	per := [][]*edEnt{
		opt(nil, &edEnt{K: []string{"example.com/a", "v1.0.0"}, ID: -1}, &edEnt{K: []string{"example.com/a", "v1.2.3"}, Ind: true, ID: -1}),
		opt(nil, &edEnt{K: []string{"example.com/b", "v1.0.0"}, Ind: true, ID: -1}, &edEnt{K: []string{"example.com/b", "v1.2.3"}, ID: -1}),
		opt(nil, &edEnt{K: []string{"example.com/c/v2", "v2.0.0"}, ID: -1}),
		opt(nil, &edEnt{K: []string{"example.com/d/v3", "v3.0.0"}, Ind: true, ID: -1}),
	}
	lists := [][]edEnt{nil}
	for _, o := range per {
		var next [][]edEnt
		for _, l := range lists {
			for _, e := range o {
				l2 := append([]edEnt{}, l...)
				if e != nil {
					l2 = append(l2, *e)
				}
				next = append(next, l2)
			}
		}
		lists = next
	}
	run := func(file string) {
		for _, l := range lists {
			for _, name := range []string{"setrequire", "setrequiresep"} {
				do(false, file, []edOp{{Name: name, List: l}, {Name: "cleanup"}})
			}
		}
	}
	for _, empty := range []string{"require ()\n", "require (\n)\n"} {
		run(empty + "\n" + hdr) // first statement of the file
		for _, o := range others {
			for _, mid := range []string{"\n", "\nexclude example.com/a v1.0.0\n\n"} {
				if o == "" {
					if mid == "\n" {
						run(hdr + empty)
					}
					continue
				}
				run(hdr + o + mid + empty)
				run(hdr + empty + mid + o)
				if mid == "\n" {
					run(hdr + empty + mid + o + mid + empty)
				}
			}
		}
	}
	// the other verbs
	small := [][]edEnt{lists[0], lists[len(lists)-1], lists[len(lists)/2]}
	for _, verb := range edC16EmptyModVerbs[1:] {
		for _, empty := range []string{verb + " ()\n", verb + " (\n)\n"} {
			for _, file := range []string{empty + "\n" + hdr + others[5], hdr + empty + "\n" + others[5], hdr + others[5] + "\n" + empty} {
				for _, l := range small {
					for _, name := range []string{"setrequire", "setrequiresep"} {
						do(false, file, []edOp{{Name: name, List: l}, {Name: "cleanup"}})
					}
				}
			}
		}
	}
	// go.work
	whdr := "go 1.21\n\n"
	wothers := []string{"", "use ./a\n", "use (\n\t./a\n\t./b\n)\n", "// keep\nuse (\n\t./b\n)\n", "replace example.com/a => ./a\n"}
	wlists := [][]edEnt{nil}
	for _, p := range []string{"./a", "./b", "../c"} {
		var next [][]edEnt
		for _, l := range wlists {
			next = append(next, l, append(append([]edEnt{}, l...), edEnt{K: []string{p, ""}, ID: -1}))
		}
		wlists = next
	}
	for _, verb := range edC16EmptyWorkVerbs {
		for _, empty := range []string{verb + " ()\n", verb + " (\n)\n"} {
			for _, o := range wothers {
				for _, file := range []string{empty + "\n" + whdr + o, whdr + empty + "\n" + o, whdr + o + "\n" + empty} {
					for _, l := range wlists {
						do(true, file, []edOp{{Name: "setuse", List: l}, {Name: "cleanup"}})
					}
				}
			}
		}
	}
}
