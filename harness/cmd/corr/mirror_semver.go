package main

func init() {
	mirror("semver.isvalid", "semver.canonical", "semver.major", "semver.majorminor", "semver.prerelease", "semver.build", "semver.compare", "semver.max")
}
