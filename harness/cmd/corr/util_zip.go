package main

// Shared helpers for the zip properties C17, C05, C12: fake zip.File values, real directories and real
// archives (raw headers for declared sizes that disagree with the content), canonical rendering of
// reports and errors, the implementation side of the `zip.*` ops, and the file-list generator.

import (
	"archive/zip"
	"bytes"
	"errors"
	"fmt"
	"go/version"
	"hash/crc32"
	"io"
	"os"
	"path"
	"path/filepath"
	"sort"
	"strconv"
	"strings"
	"sync/atomic"
	"syscall"
	"time"

	"golang.org/x/mod/modfile"
	"golang.org/x/mod/module"
	modzip "golang.org/x/mod/zip"
)

// ---- fake files

type zipuFile struct {
	path    string
	mode    byte // r regular, d dir, s symlink, i irregular, e lstat error
	size    int64
	content []byte
}

var zipuErrLstat = errors.New("zipu: lstat failed")

type zipuInfo struct{ f *zipuFile }

func (i zipuInfo) Name() string { return path.Base(i.f.path) }
func (i zipuInfo) Size() int64  { return i.f.size }
func (i zipuInfo) Mode() os.FileMode {
	switch i.f.mode {
	case 'd':
		return os.ModeDir | 0o755
	case 's':
		return os.ModeSymlink | 0o777
	case 'i':
		return os.ModeNamedPipe | 0o644
	}
	return 0o644
}
func (i zipuInfo) ModTime() time.Time { return time.Time{} }
func (i zipuInfo) IsDir() bool        { return i.f.mode == 'd' }
func (i zipuInfo) Sys() interface{}   { return nil }

func (f *zipuFile) Path() string { return f.path }
func (f *zipuFile) Lstat() (os.FileInfo, error) {
	if f.mode == 'e' {
		return nil, zipuErrLstat
	}
	return zipuInfo{f}, nil
}
func (f *zipuFile) Open() (io.ReadCloser, error) {
	if f.mode != 'r' {
		return nil, errors.New("zipu: not a regular file")
	}
	return io.NopCloser(bytes.NewReader(f.content)), nil
}

// zipuGe124 re-derives, from go.mod contents, the boolean the model takes as an input:
// version.Compare(version.Lang(parseGoVers(data)), "go1.24") >= 0.
func zipuGe124(data []byte) bool {
	mf, err := modfile.ParseLax("go.mod", data, nil)
	if err != nil || mf.Go == nil {
		return false
	}
	return version.Compare(version.Lang("go"+mf.Go.Version), "go1.24") >= 0
}

// zipuDiskContent: what reading the file yields once zipuMkTree has put it on disk: a regular file
// whose size exceeds its content is extended with zero bytes (sparse).
func zipuDiskContent(f *zipuFile) []byte {
	if f.mode == 'r' && f.size > int64(len(f.content)) {
		return append(append([]byte{}, f.content...), make([]byte, f.size-int64(len(f.content)))...)
	}
	return f.content
}

// zipuFileTok renders a file for the list ops (Open yields f.content whatever size is reported);
// zipuDirFileTok for the directory ops, where the go-version bit must be derived from what is on disk.
func zipuFileTok(f *zipuFile) string { return zipuFileTokWith(f, f.content) }

func zipuDirFileTok(f *zipuFile) string { return zipuFileTokWith(f, zipuDiskContent(f)) }

func zipuDirFilesTok(fs []*zipuFile) string {
	if len(fs) == 0 {
		return "_"
	}
	out := make([]string, len(fs))
	for i, f := range fs {
		out[i] = zipuDirFileTok(f)
	}
	return strings.Join(out, ",")
}

func zipuFileTokWith(f *zipuFile, opened []byte) string {
	g := "0"
	if f.mode == 'r' && zipuGe124(opened) {
		g = "1"
	}
	return hx(f.path) + ":" + string(f.mode) + ":" + i64toa(f.size) + ":" + zipuHxC(f.content) + ":" + g
}

func zipuFilesTok(fs []*zipuFile) string {
	if len(fs) == 0 {
		return "_"
	}
	out := make([]string, len(fs))
	for i, f := range fs {
		out[i] = zipuFileTok(f)
	}
	return strings.Join(out, ",")
}

func zipuParseFiles(s string) []*zipuFile {
	if s == "_" {
		return nil
	}
	var out []*zipuFile
	for _, tok := range strings.Split(s, ",") {
		p := strings.Split(tok, ":")
		if len(p) != 5 || len(p[1]) != 1 {
			panic("bad file token " + tok)
		}
		out = append(out, &zipuFile{path: unhx(p[0]), mode: p[1][0], size: atoi64(p[2]), content: zipuUnhxC(p[3])})
	}
	return out
}

func zipuAsFiles(fs []*zipuFile) []modzip.File {
	out := make([]modzip.File, len(fs))
	for i, f := range fs {
		out[i] = f
	}
	return out
}

// zipuHxC / zipuUnhxC: contents in the line protocol: hex, or `z<N>` for N zero bytes (N >= 4096), so that
// contents of 16 MiB and more stay short on the line.
func zipuHxC(c []byte) string {
	if len(c) >= 4096 {
		zero := true
		for _, b := range c {
			if b != 0 {
				zero = false
				break
			}
		}
		if zero {
			return "z" + itoa(len(c))
		}
	}
	return hx(string(c))
}

func zipuUnhxC(s string) []byte {
	if strings.HasPrefix(s, "z") {
		return make([]byte, atoi(s[1:]))
	}
	return []byte(unhx(s))
}

// ---- archive entries

type zipuEntry struct {
	name    string
	decl    uint64
	content []byte
	// mode bits written into the header's external attributes, independently of the name:
	// 0 none (archive/zip default), d directory, s symlink, i named pipe, p setuid+sticky 0777, z explicit zero mode, f 0644
	mode byte
}

func zipuSetMode(fh *zip.FileHeader, m byte) {
	switch m {
	case 'd':
		fh.SetMode(os.ModeDir | 0o755)
	case 's':
		fh.SetMode(os.ModeSymlink | 0o777)
	case 'i':
		fh.SetMode(os.ModeNamedPipe | 0o644)
	case 'p':
		fh.SetMode(os.ModeSetuid | os.ModeSticky | 0o777)
	case 'z':
		fh.SetMode(0)
	case 'f':
		fh.SetMode(0o644)
	}
}

func zipuEntriesTok(es []zipuEntry) string {
	if len(es) == 0 {
		return "_"
	}
	out := make([]string, len(es))
	for i, e := range es {
		out[i] = hx(e.name) + ":" + strconv.FormatUint(e.decl, 10) + ":" + zipuHxC(e.content)
		if e.mode != 0 {
			out[i] += ":" + string(e.mode)
		}
	}
	return strings.Join(out, ",")
}

func zipuParseEntries(s string) []zipuEntry {
	if s == "_" {
		return nil
	}
	var out []zipuEntry
	for _, tok := range strings.Split(s, ",") {
		p := strings.Split(tok, ":")
		if len(p) != 3 && !(len(p) == 4 && len(p[3]) == 1) {
			panic("bad entry token " + tok)
		}
		d, err := strconv.ParseUint(p[1], 10, 64)
		if err != nil {
			panic("bad size " + p[1])
		}
		e := zipuEntry{name: unhx(p[0]), decl: d, content: zipuUnhxC(p[2])}
		if len(p) == 4 {
			e.mode = p[3][0]
		}
		out = append(out, e)
	}
	return out
}

// zipuBuildArchive writes a real archive with archive/zip; the declared uncompressed size of every
// entry is written verbatim into the (raw) header, whether or not it matches the content.
func zipuBuildArchive(es []zipuEntry) ([]byte, error) {
	var buf bytes.Buffer
	zw := zip.NewWriter(&buf)
	for _, e := range es {
		fh := &zip.FileHeader{Name: e.name, Method: zip.Store, CRC32: crc32.ChecksumIEEE(e.content),
			CompressedSize64: uint64(len(e.content)), UncompressedSize64: e.decl}
		zipuSetMode(fh, e.mode)
		w, err := zw.CreateRaw(fh)
		if err != nil {
			return nil, err
		}
		if len(e.content) > 0 {
			if _, err := w.Write(e.content); err != nil {
				return nil, err
			}
		}
	}
	if err := zw.Close(); err != nil {
		return nil, err
	}
	return buf.Bytes(), nil
}

// ---- scratch space (always under /verif/work, removed after use)

var zipuCounter int64

func zipuWorkRoot() string {
	if d := os.Getenv("VERIF_WORK"); d != "" {
		return d
	}
	return "/verif/work"
}

// zipuSweep removes scratch directories left behind by processes that no longer exist (a killed run).
func zipuSweep() {
	ds, _ := filepath.Glob(filepath.Join(zipuWorkRoot(), "ziptmp-*-*"))
	for _, d := range ds {
		parts := strings.Split(filepath.Base(d), "-")
		if len(parts) != 3 {
			continue
		}
		pid, err := strconv.Atoi(parts[1])
		if err != nil || pid == os.Getpid() {
			continue
		}
		if _, err := os.Stat(fmt.Sprintf("/proc/%d", pid)); os.IsNotExist(err) {
			os.RemoveAll(d)
		}
	}
}

func zipuTemp() string {
	n := atomic.AddInt64(&zipuCounter, 1)
	if n == 1 {
		zipuSweep()
	}
	d := filepath.Join(zipuWorkRoot(), fmt.Sprintf("ziptmp-%d-%d", os.Getpid(), n))
	if err := os.MkdirAll(d, 0o755); err != nil {
		panic(err)
	}
	return d
}

// zipuMkTree creates a real directory tree: regular files (sparse when size exceeds the content),
// directories, symlinks, named pipes.
func zipuMkTree(root string, fs []*zipuFile) error {
	if err := os.MkdirAll(root, 0o755); err != nil {
		return err
	}
	for _, f := range fs {
		full := filepath.Join(root, filepath.FromSlash(f.path))
		if f.mode == 'd' {
			if err := os.MkdirAll(full, 0o755); err != nil {
				return err
			}
			continue
		}
		if err := os.MkdirAll(filepath.Dir(full), 0o755); err != nil {
			return err
		}
		switch f.mode {
		case 'r':
			if err := os.WriteFile(full, f.content, 0o644); err != nil {
				return err
			}
			if f.size > int64(len(f.content)) {
				if err := os.Truncate(full, f.size); err != nil {
					return err
				}
			}
		case 's':
			if err := os.Symlink("zipu-nowhere", full); err != nil {
				return err
			}
		case 'i':
			if err := syscall.Mkfifo(full, 0o644); err != nil {
				return err
			}
		default:
			return fmt.Errorf("mode %c cannot be created on disk", f.mode)
		}
	}
	return nil
}

// zipuSnapshot lists everything below root: "d <rel>" / "f <rel> <size> <crc>" / "o <rel>" lines.
func zipuSnapshot(root string) map[string]string {
	out := map[string]string{}
	filepath.Walk(root, func(p string, info os.FileInfo, err error) error {
		if err != nil {
			return nil
		}
		rel, _ := filepath.Rel(root, p)
		switch {
		case info.IsDir():
			out[rel] = "d"
		case info.Mode().IsRegular():
			data, _ := os.ReadFile(p)
			out[rel] = fmt.Sprintf("f %d %08x", len(data), crc32.ChecksumIEEE(data))
		default:
			out[rel] = "o " + info.Mode().String()
		}
		return nil
	})
	return out
}

// ---- canonical rendering

func zipuReason(err error) string {
	if err == nil {
		return "nil"
	}
	if errors.Is(err, zipuErrLstat) {
		return "lstat"
	}
	var ipe *module.InvalidPathError
	if errors.As(err, &ipe) {
		return "filepath"
	}
	msg := err.Error()
	switch {
	case msg == "file path is not clean":
		return "notclean"
	case msg == "file path is not relative":
		return "notrelative"
	case msg == "go.mod files must have lowercase names":
		return "gomodcase"
	case strings.HasPrefix(msg, "go.mod file too large"):
		return "gomodsize"
	case strings.HasPrefix(msg, "LICENSE file too large"):
		return "licensesize"
	case msg == "directory is a version control repository":
		return "vcs"
	case msg == "file is in vendor directory":
		return "vendored"
	case msg == "file is in another module":
		return "submodulefile"
	case msg == "directory is in another module":
		return "submoduledir"
	case strings.HasPrefix(msg, "file is inserted by 'hg archive'"):
		return "hgarchival"
	case msg == "file is a symbolic link":
		return "symlink"
	case msg == "not a regular file":
		return "notregular"
	case strings.HasPrefix(msg, "case-insensitive file name collision"):
		return "casecollision"
	case strings.HasSuffix(msg, "is both a file and a directory"):
		return "fileanddir"
	case strings.HasPrefix(msg, "multiple entries for file"):
		return "multiple"
	case strings.HasPrefix(msg, "path does not have prefix"):
		return "noprefix"
	case msg == "go.mod file not in module root directory":
		return "gomodnotroot"
	}
	return "unknown"
}

func zipuShowErrs(l []modzip.FileError, strip string) string {
	if len(l) == 0 {
		return "_"
	}
	out := make([]string, len(l))
	for i, e := range l {
		out[i] = hx(zipuStrip(e.Path, strip)) + ":" + zipuReason(e.Err)
	}
	return strings.Join(out, ",")
}

func zipuStrip(p, strip string) string {
	if strip == "" {
		return p
	}
	if p == strip {
		return "."
	}
	return strings.TrimPrefix(p, strip+string(filepath.Separator))
}

func zipuShowCf(cf modzip.CheckedFiles, err error, strip string) string {
	valid := make([]string, len(cf.Valid))
	for i, v := range cf.Valid {
		valid[i] = zipuStrip(v, strip)
	}
	e := "none"
	var fel modzip.FileErrorList
	switch {
	case err == nil:
	case cf.SizeError != nil && err == cf.SizeError:
		e = "size"
	case errors.As(err, &fel):
		e = "invalid"
	default:
		e = "other"
	}
	return fmt.Sprintf("valid=%s omitted=%s invalid=%s sizeerr=%s err=%s", hxList(valid), zipuShowErrs(cf.Omitted, strip),
		zipuShowErrs(cf.Invalid, strip), showBool(cf.SizeError != nil), e)
}

// zipuErrKind maps an error of Create / CheckZip / Unzip to the model's enum.
func zipuErrKind(err error) string {
	if err == nil {
		return "ok"
	}
	var fel modzip.FileErrorList
	var me *module.ModuleError
	var ive *module.InvalidVersionError
	var ipe *module.InvalidPathError
	var pe *os.PathError
	msg := err.Error()
	switch {
	case errors.As(err, &fel):
		return "err:invalid"
	case strings.Contains(msg, "is not canonical (should be"):
		return "err:badmodule"
	case errors.As(err, &me), errors.As(err, &ive), errors.As(err, &ipe):
		return "err:badmodule"
	case strings.Contains(msg, "module source tree too large"), strings.Contains(msg, "total uncompressed size of module contents too large"),
		strings.Contains(msg, "module zip file is too large"):
		return "err:size"
	case strings.Contains(msg, "is larger than declared size") && strings.Contains(msg, "create zip"):
		return "err:contentlarger"
	case strings.Contains(msg, "FileHeader.Name too long"):
		return "err:nametoolong"
	case strings.Contains(msg, "exists and is not empty"):
		return "err:notempty"
	case errors.Is(err, zip.ErrFormat), errors.Is(err, io.ErrUnexpectedEOF), errors.Is(err, zip.ErrChecksum),
		strings.Contains(msg, "is larger than declared size"):
		return "err:contentsize"
	case errors.As(err, &pe):
		if errors.Is(pe.Err, syscall.EEXIST) {
			return "err:exists"
		}
		if errors.Is(pe.Err, syscall.ENOTDIR) {
			return "err:mkdir"
		}
		return "err:os-" + pe.Op
	}
	return "err:other"
}

func zipuShowArchive(data []byte) string {
	zr, err := zip.NewReader(bytes.NewReader(data), int64(len(data)))
	if err != nil {
		return "unreadable-archive"
	}
	if len(zr.File) == 0 {
		return "ok _"
	}
	out := make([]string, len(zr.File))
	for i, zf := range zr.File {
		rc, err := zf.Open()
		if err != nil {
			return "unreadable-entry"
		}
		c, err := io.ReadAll(rc)
		rc.Close()
		if err != nil {
			return "unreadable-entry"
		}
		out[i] = hx(zf.Name) + "=" + zipuHxC(c)
	}
	return "ok " + strings.Join(out, ",")
}

// ---- implementation side of the ops

func zipuCreate(m module.Version, fs []*zipuFile) ([]byte, error) {
	var buf bytes.Buffer
	err := modzip.Create(&buf, m, zipuAsFiles(fs))
	return buf.Bytes(), err
}

// zipuWithArchive builds the archive for the entries (or a sparse file of zipSize bytes) and calls fn on its path.
func zipuWithArchive(zipSize int64, es []zipuEntry, fn func(tmp, zipPath string) string) string {
	tmp := zipuTemp()
	defer os.RemoveAll(tmp)
	zp := filepath.Join(tmp, "a.zip")
	if zipSize > 0 {
		f, err := os.Create(zp)
		if err != nil {
			return "harness-error"
		}
		if err := f.Truncate(zipSize); err != nil {
			f.Close()
			return "harness-error"
		}
		f.Close()
	} else {
		data, err := zipuBuildArchive(es)
		if err != nil {
			return "harness-error:" + hx(err.Error())
		}
		if err := os.WriteFile(zp, data, 0o644); err != nil {
			return "harness-error"
		}
	}
	return fn(tmp, zp)
}

type zipuUnzipObs struct {
	err       error
	files     map[string][]byte // created below the target, relative slash paths
	dirs      []string
	outside   []string // anything new or changed outside the target
	out       string
	targetNew bool
}

// zipuUnzip extracts into <tmp>/parent/target with the target prepared in the given state, and
// snapshots <tmp> (the parent of the parent) before and after.
func zipuUnzip(tmp, zp string, m module.Version, target byte) zipuUnzipObs {
	parent := filepath.Join(tmp, "parent")
	tgt := filepath.Join(parent, "target")
	os.MkdirAll(parent, 0o755)
	os.WriteFile(filepath.Join(parent, "sibling"), []byte("sibling"), 0o644)
	switch target {
	case 'e':
		os.Mkdir(tgt, 0o755)
	case 'n':
		os.Mkdir(tgt, 0o755)
		os.WriteFile(filepath.Join(tgt, "x"), []byte("x"), 0o644)
	case 'f':
		os.WriteFile(tgt, []byte("file"), 0o644)
	}
	before := zipuSnapshot(tmp)
	var o zipuUnzipObs
	o.err = modzip.Unzip(tgt, m, zp)
	after := zipuSnapshot(tmp)
	o.files = map[string][]byte{}
	relT := filepath.Join("parent", "target")
	var files, dirs []string
	for p, v := range after {
		if b, ok := before[p]; ok && b == v {
			continue
		}
		if p == relT {
			if v == "d" {
				dirs = append(dirs, ".")
				o.targetNew = true
			} else {
				o.outside = append(o.outside, p)
			}
			continue
		}
		if strings.HasPrefix(p, relT+string(filepath.Separator)) {
			rel := filepath.ToSlash(p[len(relT)+1:])
			if v == "d" {
				dirs = append(dirs, hx(rel))
			} else {
				files = append(files, hx(rel))
				data, _ := os.ReadFile(filepath.Join(tmp, p))
				o.files[rel] = data
			}
			continue
		}
		o.outside = append(o.outside, p)
	}
	for p := range before {
		if _, ok := after[p]; !ok {
			o.outside = append(o.outside, "-"+p)
		}
	}
	sort.Strings(files)
	sort.Strings(dirs)
	sort.Strings(o.outside)
	o.dirs = dirs
	for _, p := range o.outside {
		files = append(files, "!"+hx(p))
	}
	show := func(l []string) string {
		if len(l) == 0 {
			return "_"
		}
		return strings.Join(l, ",")
	}
	o.out = zipuErrKind(o.err) + " files=" + show(files) + " dirs=" + show(dirs)
	// make read-only extracted files removable
	return o
}

func init() {
	impls["zip.pathclean"] = func(a []string) string { return hx(path.Clean(unhx(a[0]))) }
	impls["zip.pathdir"] = func(a []string) string { return hx(path.Dir(unhx(a[0]))) }
	impls["zip.pathbase"] = func(a []string) string { return hx(path.Base(unhx(a[0]))) }
	impls["zip.checkfiles"] = func(a []string) string {
		fs := zipuParseFiles(a[0])
		cf, err := modzip.CheckFiles(zipuAsFiles(fs))
		return zipuShowCf(cf, err, "")
	}
	impls["zip.checkdir"] = func(a []string) string {
		fs := zipuParseFiles(a[1])
		tmp := zipuTemp()
		defer os.RemoveAll(tmp)
		root := filepath.Join(tmp, "root")
		if err := zipuMkTree(root, fs); err != nil {
			return "harness-error:" + hx(err.Error())
		}
		cf, err := modzip.CheckDir(root)
		return zipuShowCf(cf, err, root)
	}
	impls["zip.create"] = func(a []string) string {
		data, err := zipuCreate(module.Version{Path: unhx(a[0]), Version: unhx(a[1])}, zipuParseFiles(a[2]))
		if err != nil {
			return zipuErrKind(err)
		}
		return zipuShowArchive(data)
	}
	impls["zip.createfromdir"] = func(a []string) string {
		fs := zipuParseFiles(a[3])
		tmp := zipuTemp()
		defer os.RemoveAll(tmp)
		root := filepath.Join(tmp, "root")
		if err := zipuMkTree(root, fs); err != nil {
			return "harness-error:" + hx(err.Error())
		}
		var buf bytes.Buffer
		if err := modzip.CreateFromDir(&buf, module.Version{Path: unhx(a[0]), Version: unhx(a[1])}, root); err != nil {
			return zipuErrKind(err)
		}
		return zipuShowArchive(buf.Bytes())
	}
	impls["zip.checkzip"] = func(a []string) string {
		m := module.Version{Path: unhx(a[0]), Version: unhx(a[1])}
		return zipuWithArchive(atoi64(a[2]), zipuParseEntries(a[3]), func(tmp, zp string) string {
			cf, err := modzip.CheckZip(m, zp)
			if err != nil && cf.SizeError == nil && len(cf.Invalid) == 0 {
				return zipuErrKind(err)
			}
			return zipuShowCf(cf, err, "")
		})
	}
	impls["zip.unzip"] = func(a []string) string {
		m := module.Version{Path: unhx(a[0]), Version: unhx(a[1])}
		return zipuWithArchive(atoi64(a[2]), zipuParseEntries(a[4]), func(tmp, zp string) string {
			return zipuUnzip(tmp, zp, m, a[3][0]).out
		})
	}
}

// ---- generators shared by C17 / C05 / C12

var zipuGoMods = []string{
	"module example.com/m\n\ngo 1.23\n",
	"module example.com/m\n\ngo 1.24\n",
	"module example.com/m\ngo 1.24rc1\n",
	"module example.com/m\ngo 1.24.1\n",
	"module example.com/m\ngo 1.25\n",
	"module example.com/m\ngo 1.23.9\n",
	"go 1.24\n",
	"module example.com/m\n",
	"module example.com/m\ngo 1.24\nfrobnicate x y\nrequire a.b/c v1\n", // lax-only syntax
	"module example.com/m\ngo 1.24 // tip\n",
	"module example.com/m\ngo 1.2.3.4\n",
	"module example.com/m\ngo 1.24\ngo 1.23\n",
	"{{{\n",
	"module \"example.com/m\ngo 1.24\n",
	"module example.com/m\ngo 1.9\n",
	"module example.com/m\n\ngo 1.100\n",
	"",
}

// names CheckFilePath accepts (many of them interesting to the rules)
var zipuGoodElems = []string{
	"a", "b", "c.go", "x.go", "X.go", "A", "a.go", "A.go", "pkg", "sub", "internal", "README.md", "doc.txt", "main.go", "util", "testdata",
	"go.mod", "go.mod", "GO.MOD", "Go.mod", "go.sum", "vendor", "vendor", "Vendor", "modules.txt", "vendor.go",
	"LICENSE", "LICENSE", "license", "LICENSE.txt", ".hg_archival.txt", ".git", ".hg", ".svn", ".bzr", ".gitignore", "config",
	"K", "k", "K", "s", "S", "ſ", "é", "É", "日本", "ß", "SS", "İ", "i",
	"a b", "x~1", ".x", "-x", "a..b", "con1", "!#$%&()+,-.=@[]^_{}~ x",
}

// names CheckFilePath rejects
var zipuBadElems = []string{
	"con", "CON", "com1", "aux.txt", "NUL", "lpt9.x.y", "prn", "nul.go",
	" ", "a\\b", "a:b", "a*b", "a?b", "a'b", "a;b", "~", "x.", "...", "\xff", "a\xc0\xafb", "\xed\xa0\x80", "é", "a\"b", "a<b", "a|b", "x\ty",
}

const zipu16M = 16 << 20
const zipu500M = 500 << 20

var zipuFakeSizes = []int64{0, 1, zipu16M - 1, zipu16M, zipu16M + 1, zipu500M - 1, zipu500M, zipu500M + 1, 250 << 20, 250<<20 + 1, -1, 1 << 40, -1 << 63, 1<<63 - 1}

type zipuGenOpts struct {
	realFS    bool // paths must be creatable on disk: unique, no file/dir clashes, no '/' tricks, honest sizes
	plainOnly bool // regular files and directories only
	noVCS     bool // no .git/.hg/.svn/.bzr directories
	honest    bool // size == len(content)
	cleanPct  int  // percent of lists made only of acceptable, non-colliding names without list-level mutations (0 = default 50)
}

func zipuContent(r *Rand, base string) []byte {
	if strings.EqualFold(base, "go.mod") {
		if r.Chance(85) {
			return []byte(r.Pick(zipuGoMods))
		}
	}
	switch r.Intn(4) {
	case 0:
		return nil
	case 1:
		return []byte("package x\n")
	}
	return []byte(r.Bytes(1+r.Intn(12), "abcxyz\n\x00\xff"))
}

var zipuScenarios = [][]string{
	{"vendor/modules.txt"},
	{"vendor/modules.txt", "vendor/a.b/c/c.go", "vendor/x.go"},
	{"pkg/vendor/vendor.go", "pkg/vendor/foo/foo.go"},
	{"a/vendor/b/vendor/c.go", "a/vendor/x.go", "a/vendor/modules.txt"},
	{"vendor/vendor/x.go", "vendor/a/vendor/b.go", "avendor/b/c.go", "a/vendorx/b/c.go"},
	{"xvendor/y/vendor/z.go", "xx/vendor/a.go", "xxxxxxxx/vendor/a/b.go", "x/vendor/abcdefg", "x/vendor/a/b"},
	{"sub/go.mod", "sub/x.go", "sub/deep/y.go"},
	{"sub/GO.MOD", "sub/x.go"},
	{"sub/deep/go.mod", "sub/x.go", "sub/deep/y.go", "sub/deep/er/z.go", "sub/deeper/w.go"},
	{"a/b.go", "a/B.go"},
	{"K/x.go", "k/y.go"},
	{"K/x.go", "k/y.go", "K/z.go"},
	{"dir/ſ.go", "dir/s.go", "dir/S.go"},
	{"go.mod", "LICENSE"},
	{"go.mod", "sub/go.mod", "sub/a.go", "vendor/modules.txt", "vendor/p/q.go"},
	{".hg_archival.txt", "sub/.hg_archival.txt"},
	{".git/config", ".git/objects/ab/cd", "sub/.hg/store", "x/.svn/entries", ".bzr/branch"},
	{"go.mod/x.go", "sub/go.mod/y.go"},
	{"LICENSE/x", "sub/LICENSE"},
}

// zipuGenFiles produces a file list (for real directories when o.realFS).
func zipuGenFiles(r *Rand, o zipuGenOpts) []*zipuFile {
	var fs []*zipuFile
	isDir := map[string]bool{}
	isFile := map[string]bool{}
	if o.cleanPct == 0 {
		o.cleanPct = 50
	}
	clean := r.Chance(o.cleanPct)
	folds := map[string]string{}
	add := func(p string, mode byte) {
		if o.realFS && p == "go.mod" && mode == 'i' {
			// never a named pipe on disk: listFilesInDir reads the root go.mod with os.ReadFile, which would block forever
			mode = 'r'
		}
		if clean {
			// no two paths (or ancestor directories) equal under case folding
			for d := p; d != "." && d != "/" && d != ""; d = path.Dir(d) {
				if q, ok := folds[c17StrToFold(d)]; ok && q != d {
					return
				}
			}
			for d := p; d != "." && d != "/" && d != ""; d = path.Dir(d) {
				folds[c17StrToFold(d)] = d
			}
		}
		if o.realFS || clean {
			// a real tree: unique names, parents are directories, nothing below a file
			if isDir[p] || isFile[p] {
				return
			}
			for d := path.Dir(p); d != "."; d = path.Dir(d) {
				if isFile[d] {
					return
				}
			}
			for d := path.Dir(p); d != "."; d = path.Dir(d) {
				isDir[d] = true
			}
			if mode == 'd' {
				isDir[p] = true
			} else {
				isFile[p] = true
			}
		}
		f := &zipuFile{path: p, mode: mode}
		if mode == 'r' {
			f.content = zipuContent(r, path.Base(p))
			f.size = int64(len(f.content))
		}
		fs = append(fs, f)
	}
	pickMode := func(p string) byte {
		if o.realFS && p == "go.mod" && !o.plainOnly {
			// never a named pipe: listFilesInDir reads the root go.mod with os.ReadFile, which would block forever
			if r.Chance(5) {
				return 's'
			}
			return 'r'
		}
		if o.plainOnly {
			return 'r'
		}
		k := r.Intn(40)
		if clean {
			k = r.Intn(160)
		}
		switch k {
		case 0:
			return 's'
		case 1:
			return 'i'
		case 2:
			if !o.realFS {
				return 'e'
			}
		case 3:
			if !o.realFS {
				return 'd'
			}
		}
		return 'r'
	}
	elem := func() string {
		for {
			e := r.Pick(zipuGoodElems)
			if r.Chance(20) {
				// a name over the whole alphabet, so that every letter takes part in case-variant pairs
				e = r.Bytes(1+r.Intn(5), "abcdefghijklmnopqrstuvwxyzABCDEFGHIJKLMNOPQRSTUVWXYZ") + r.Pick([]string{"", ".go", ".txt", "_test.go"})
			}
			if !clean && r.Chance(10) {
				e = r.Pick(zipuBadElems)
			}
			if o.noVCS && (e == ".git" || e == ".hg" || e == ".svn" || e == ".bzr") {
				continue
			}
			if o.realFS && (strings.ContainsAny(e, "/\x00") || e == "." || e == "..") {
				continue
			}
			return e
		}
	}
	var walk func(prefix string, depth int)
	walk = func(prefix string, depth int) {
		n := r.Intn(5)
		if depth == 0 {
			n = 1 + r.Intn(6)
		}
		for i := 0; i < n; i++ {
			p := prefix + elem()
			if depth < 3 && r.Chance(35) {
				if r.Chance(10) {
					add(p, 'd') // possibly empty directory (listed explicitly)
				}
				walk(p+"/", depth+1)
			} else {
				add(p, pickMode(p))
			}
		}
	}
	walk("", 0)
	// structured scenarios
	for k := r.Intn(3); k > 0; k-- {
		sc := zipuScenarios[r.Intn(len(zipuScenarios))]
		pre := ""
		if r.Chance(20) {
			pre = r.Pick([]string{"a/", "pkg/", "x/y/", "vendor/", "sub/"})
		}
		for _, p := range sc {
			if o.noVCS && (strings.Contains("/"+p, "/.git/") || strings.Contains("/"+p, "/.hg/") || strings.Contains("/"+p, "/.svn/") || strings.Contains("/"+p, "/.bzr/")) {
				continue
			}
			add(pre+p, pickMode(pre+p))
		}
	}
	if !clean {
		// case-variant pairs: flip the case of one letter, drawn uniformly from the letters of an existing path
		// (a directory element or the file name), appended after or inserted before the original
		for k := r.Intn(3); k > 0 && len(fs) > 0; k-- {
			i := r.Intn(len(fs))
			v := zipuFlipCase(r, fs[i].path)
			if v == fs[i].path {
				continue
			}
			n := len(fs)
			add(v, fs[i].mode)
			if len(fs) == n+1 && r.Bool() {
				// the variant first, the original second
				nf := fs[n]
				copy(fs[i+1:], fs[i:n])
				fs[i] = nf
			}
		}
	}
	if r.Chance(60) {
		add("go.mod", 'r')
	}
	if !o.realFS && !clean {
		// list-level mutations: unclean / absolute / duplicate / file-vs-directory
		for k := r.Intn(3); k > 0 && len(fs) > 0; k-- {
			f := fs[r.Intn(len(fs))]
			switch r.Intn(9) {
			case 0:
				add("./"+f.path, 'r')
			case 1:
				add("/"+f.path, 'r')
			case 2:
				add(strings.Replace(f.path, "/", "//", 1), 'r')
			case 3:
				add(f.path+"/", 'r')
			case 4:
				add("../"+f.path, 'r')
			case 5:
				add(f.path, f.mode) // duplicate
			case 6:
				add(f.path+"/below.go", 'r') // f is then both a file and a directory
			case 7:
				add(r.Pick([]string{"", ".", "..", "/", "a/../b", "a/./b", "a/..", "/vendor/a/b", "x/", "//"}), 'r')
			case 8:
				add(path.Dir(f.path), 'r') // a directory listed as a file
			}
		}
		if r.Chance(15) {
			r2 := &Rand{s: r.U64()}
			sort.Slice(fs, func(i, j int) bool { return r2.Bool() }) // arbitrary order
		}
	}
	if !o.honest && !o.realFS && (!clean || r.Chance(25)) {
		for k := r.Intn(3); k > 0 && len(fs) > 0; k-- {
			f := fs[r.Intn(len(fs))]
			if f.mode == 'r' {
				f.size = zipuFakeSizes[r.Intn(len(zipuFakeSizes))]
				if r.Chance(30) {
					f.size = int64(len(f.content)) + int64(r.Intn(3)) - 1
				}
			}
		}
		if r.Chance(12) {
			// the two size-limited names at their boundaries
			sz := []int64{zipu16M - 1, zipu16M, zipu16M + 1}[r.Intn(3)]
			fs = append(fs, &zipuFile{path: r.Pick([]string{"go.mod", "LICENSE", "sub/LICENSE", "GO.MOD", "license"}), mode: 'r', size: sz,
				content: []byte("module example.com/m\ngo 1.24\n")})
		}
	}
	return fs
}

// zipuFlipCase flips the case of one ASCII letter of s, every letter position being equally likely.
func zipuFlipCase(r *Rand, s string) string {
	var pos []int
	for i := 0; i < len(s); i++ {
		if c := s[i] | 0x20; 'a' <= c && c <= 'z' {
			pos = append(pos, i)
		}
	}
	if len(pos) == 0 {
		return s
	}
	b := []byte(s)
	b[pos[r.Intn(len(pos))]] ^= 0x20
	return string(b)
}

// zipuFoldSweep: for every ASCII letter, pairs of paths that differ only in the case of that letter —
// as a file name and as a directory name, alone and embedded, with and without a non-ASCII rune
// elsewhere (strToFold has an ASCII fast path) — and the bytes next to the letter ranges, which must
// not be identified.  Each item is (first, second).
func zipuFoldSweep() [][2]string {
	var out [][2]string
	for c := byte('a'); c <= 'z'; c++ {
		l, u := string(c), string(c-0x20)
		out = append(out, [2]string{l + ".go", u + ".go"}, [2]string{u + ".go", l + ".go"},
			[2]string{"x" + u + "y", "x" + l + "y"}, [2]string{"pkg/" + l + "eta.go", "pkg/" + u + "eta.go"},
			[2]string{"pkg/" + u + "eta/a.go", "pkg/" + l + "eta/b.go"}, [2]string{l + l + "/q.go", l + u + "/r.go"},
			[2]string{"é/" + l + ".go", "é/" + u + ".go"}, [2]string{u + "é", l + "é"}, [2]string{l, u})
	}
	out = append(out, [2]string{"@", "`"}, [2]string{"[", "{"}, [2]string{"a@", "a`"}, [2]string{"x[y", "x{y"}, [2]string{"]", "}"},
		[2]string{"^", "~"}, [2]string{"_", "\x7f"}, [2]string{"@é", "`é"}, [2]string{"[é", "{é"}, [2]string{"A@", "a`"}, [2]string{"Z[", "z{"})
	return out
}

var zipuMods = [][2]string{
	{"example.com/m", "v1.0.0"},
	{"example.com/m", "v1.0.0"},
	{"example.com/m", "v0.0.0-20200101000000-abcdefabcdef"},
	{"example.com/m/v2", "v2.3.4"},
	{"gopkg.in/yaml.v2", "v2.4.0"},
	{"example.com/m", "v2.0.0+incompatible"},
	{"example.com/Mixed/Case", "v1.2.3-pre.1"},
}

var zipuBadMods = [][2]string{
	{"example.com/m", "v1.0"},
	{"example.com/m", "v1.0.0+meta"},
	{"example.com/m", "v2.0.0"},
	{"example.com/m/v2", "v1.0.0"},
	{"example", "v1.0.0"},
	{"example.com/m", ""},
	{"", "v1.0.0"},
	{"example.com/m", "1.0.0"},
	{"example.com/.m", "v1.0.0"},
	{"example.com/m/v2", "v2.0.0+incompatible"},
}

func zipuPickMod(r *Rand, badPct int) (string, string) {
	if r.Chance(badPct) {
		m := zipuBadMods[r.Intn(len(zipuBadMods))]
		return m[0], m[1]
	}
	m := zipuMods[r.Intn(len(zipuMods))]
	return m[0], m[1]
}
