package main

func init() {
	mirror("note.open", "note.isvalidname", "note.chop", "note.sign", "note.newverifier", "note.newsigner")
}
