package main

// util_clsigs.go — the mutation kind `sigs/<k>[.pre|.dup]` (used by C01; dispatched from clMutate, so it applies to
// lookup responses from the network, to cache files, and to a bare signed tree head alike).
//
// CLASS: CO-SIGNED tree heads.  The signed tree head keeps its text and the server's signature; k further signature
// lines by keys the client does NOT know (witnesses) are added.  The note format allows that: a signature by an unknown
// key is recorded as unverified and otherwise ignored, and the only bound on the number of signature lines is the
// documented one ("an implementation can reject a note with too many signatures (for example, more than 100
// signatures)").  So a head with at most clMaxNoteSigs signature lines in all is an HONEST head — nothing is corrupted,
// every byte the client can check is authentic — and the honest clause of C01 applies to it; a head with more lines may
// be refused (but of course still must not make the client return or store anything unauthenticated).
//
// Why it was missing: the only fault that touched the NUMBER of signature lines was `extsig` (one extra line, always
// treated as a fault), and every honest head carried exactly one signature; the behaviour of the client as a function
// of the number of signature lines — in particular at the documented limit — was never looked at.
//
//	sigs/<k>       the honest signature lines, then k lines by k distinct witnesses
//	sigs/<k>.pre   k lines by k distinct witnesses, then the honest signature lines
//	sigs/<k>.dup   the honest signature lines, then ONE witness line repeated k times (repeated unverified lines are
//	               dropped from the result but are still signature lines of the note)
//	sigs/<k>.u<hh>[p]  the honest signature lines, then (p: preceded by) k lines by witnesses whose key NAMES are legal
//	               non-ASCII names containing a character with the UTF-8 continuation byte 0x<hh> (util_c01names.go)
//
// The witness signatures are real Ed25519 signatures of the note text under real (deterministically generated) note keys.

import (
	"bytes"
	"encoding/base64"
	"encoding/binary"
	"fmt"
	"strconv"
	"strings"
	"sync"

	"golang.org/x/mod/sumdb/note"
	"golang.org/x/mod/sumdb/tlog"
)

// clMaxNoteSigs: the documented number of signature lines a note may carry (sumdb/note package comment).
const clMaxNoteSigs = 100

var clWitnessMu sync.Mutex
var clWitnesses []note.Signer

func clWitness(i int) note.Signer {
	clWitnessMu.Lock()
	defer clWitnessMu.Unlock()
	for len(clWitnesses) <= i {
		n := len(clWitnesses)
		r := &Rand{s: uint64(n)*0x9e3779b97f4a7c15 + 0x517cc1b727220a95}
		skey, _, err := note.GenerateKey(clDetReader{r}, fmt.Sprintf("witness%d.example/cosig", n))
		if err != nil {
			panic(err)
		}
		s, err := note.NewSigner(skey)
		if err != nil {
			panic(err)
		}
		clWitnesses = append(clWitnesses, s)
	}
	return clWitnesses[i]
}

func clWitnessLine(i int, text []byte) []byte {
	s := clWitness(i)
	sig, err := s.Sign(text)
	if err != nil {
		panic(err)
	}
	var hbuf [4]byte
	binary.BigEndian.PutUint32(hbuf[:], s.KeyHash())
	return []byte("— " + s.Name() + " " + base64.StdEncoding.EncodeToString(append(hbuf[:], sig...)) + "\n")
}

func clMutateSigs(param string, data []byte) ([]byte, bool) {
	variant := ""
	if i := strings.IndexByte(param, '.'); i >= 0 {
		param, variant = param[:i], param[i+1:]
	}
	k, err := strconv.Atoi(param)
	if err != nil || k < 0 || k > 1000 {
		return nil, false
	}
	ub := -1 // continuation byte of the non-ASCII witness names (variant u<hh>[p])
	if len(variant) >= 3 && variant[0] == 'u' && (len(variant) == 3 || variant[3:] == "p") {
		b, err := strconv.ParseUint(variant[1:3], 16, 8)
		if err != nil || b < 0x80 || b > 0xBF {
			return nil, false
		}
		ub = int(b)
		variant = map[bool]string{false: "", true: "pre"}[len(variant) == 4]
	}
	switch variant {
	case "", "pre", "dup":
	default:
		return nil, false
	}
	// the note: the remainder of a lookup response, or the data itself (a bare signed head)
	msg := data
	if _, _, rest, err := tlog.ParseRecord(data); err == nil {
		msg = rest
	}
	split := bytes.LastIndex(msg, []byte("\n\n"))
	if split < 0 {
		return data, true // not a signed note (a tile, a truncated file): no-op
	}
	text, sigs := msg[:split+1], msg[split+2:]
	if len(sigs) == 0 || sigs[len(sigs)-1] != '\n' {
		return data, true
	}
	var wit []byte
	for i := 0; i < k; i++ {
		if variant == "dup" {
			if i == 0 {
				wit = clWitnessLine(0, text)
			} else {
				wit = append(wit, wit[:bytes.IndexByte(wit, '\n')+1]...)
			}
			continue
		}
		if ub >= 0 {
			if name := c01NameWitnessName(byte(ub), i); name != "" {
				wit = append(wit, c01NameWitnessLine(name, text)...)
			}
			continue
		}
		wit = append(wit, clWitnessLine(i, text)...)
	}
	out := append([]byte(nil), data[:len(data)-len(sigs)]...)
	if variant == "pre" {
		return append(append(out, wit...), sigs...), true
	}
	return append(append(out, sigs...), wit...), true
}

// clCountSigLines: number of signature lines of the note that ends data (0 when there is no signature block).
func clCountSigLines(data []byte) int {
	split := bytes.LastIndex(data, []byte("\n\n"))
	if split < 0 {
		return 0
	}
	return bytes.Count(data[split+2:], []byte("\n"))
}
