// corr: correspondence harness + implementation-only oracles.
//
//	corr run    -prop C04 -seed S -n N -out DIR   generate ops, run the real implementation, run oracles
//	corr impl   -ops FILE                          run the implementation on given op lines (replay)
//	corr list                                       list registered properties and ops
//
// Line protocol: `<prefix>.<op> tok tok ...`; byte strings lower-case hex (`-` empty);
// lists comma-separated hex (`_` empty list); integers decimal.
package main

import (
	"bufio"
	"encoding/json"
	"flag"
	"fmt"
	"os"
	"path/filepath"
	"runtime"
	"sort"
	"strings"
	"time"
)

// Prop is one property's generator and oracle.
type Prop struct {
	ID string
	// Gen emits about n op lines through g.Emit.
	Gen func(g *Gen, n int)
	// Oracle runs implementation-only statements of the property on about n cases and
	// reports failures through g.Fail.  May be nil.
	Oracle func(g *Gen, n int)
	// Rule describes generation and the non-triviality rule (for the evidence file).
	Rule string
}

var props = map[string]*Prop{}

// impls maps "prefix.op" to the implementation-side evaluation of the op.
var impls = map[string]func(args []string) string{}

func register(p *Prop) { props[p.ID] = p }

// opTimeout bounds one implementation op; a hang is an output value.
var opTimeout = 20 * time.Second

// thorough is set for the thorough tier; generators may widen their ranges.
var thorough bool

// hangs counts implementation ops that did not return within the timeout, per op name.  A hung goroutine
// cannot be killed and keeps a core busy, so after a few hangs of one op the timeout shrinks and after
// maxHangs that op is no longer executed (its output is then the value `hang-skipped`).
var hangs = map[string]int{}

const maxHangs = 12

func runImpl(line string) (out string) {
	toks := strings.Fields(line)
	if len(toks) == 0 {
		return "bad-op"
	}
	f, ok := impls[toks[0]]
	if !ok && strings.HasPrefix(toks[0], "g") {
		// mirrored op: the same implementation call, compared with the REGENERATED Lean code instead of the hand model
		f, ok = impls[toks[0][1:]]
	}
	if !ok {
		return "bad-op"
	}
	h := hangs[toks[0]]
	if h >= maxHangs {
		return "hang-skipped"
	}
	timeout := opTimeout
	if h >= 3 {
		timeout = opTimeout / 5
	}
	ch := make(chan string, 1)
	go func() {
		defer func() {
			if r := recover(); r != nil {
				ch <- "panic"
			}
		}()
		ch <- f(toks[1:])
	}()
	select {
	case s := <-ch:
		return s
	case <-time.After(timeout):
		hangs[toks[0]]++
		return "hang"
	}
}

type failure struct {
	What string   `json:"what"`
	Ops  []string `json:"ops"`
	Info string   `json:"info,omitempty"`
}

type stats struct {
	Prop        string         `json:"prop"`
	Seed        uint64         `json:"seed"`
	Ops         int            `json:"ops"`
	Distinct    int            `json:"distinct_nontrivial"`
	PerOp       map[string]int `json:"per_op"`
	Tags        map[string]int `json:"tags"`
	OutKinds    map[string]int `json:"out_kinds"`
	SizeHist    map[string]int `json:"size_hist"`
	OracleCases int            `json:"oracle_cases"`
	OracleTags  map[string]int `json:"oracle_tags"`
	Failures    []failure      `json:"oracle_failures"`
	Samples     []string       `json:"samples"`
	Rule        string         `json:"rule"`
}

func main() {
	if v := os.Getenv("VERIF_OP_TIMEOUT"); v != "" {
		if d, err := time.ParseDuration(v); err == nil {
			opTimeout = d
		}
	}
	if len(os.Args) < 2 {
		fmt.Fprintln(os.Stderr, "usage: corr run|impl|list ...")
		os.Exit(2)
	}
	switch os.Args[1] {
	case "list":
		ids := []string{}
		for id := range props {
			ids = append(ids, id)
		}
		sort.Strings(ids)
		fmt.Println("props:", strings.Join(ids, " "))
		ops := []string{}
		for op := range impls {
			ops = append(ops, op)
		}
		sort.Strings(ops)
		fmt.Println("ops:", strings.Join(ops, " "))
	case "impl":
		fs := flag.NewFlagSet("impl", flag.ExitOnError)
		opsFile := fs.String("ops", "", "ops file")
		fs.Parse(os.Args[2:])
		f, err := os.Open(*opsFile)
		if err != nil {
			fmt.Fprintln(os.Stderr, err)
			os.Exit(2)
		}
		sc := bufio.NewScanner(f)
		sc.Buffer(make([]byte, 1<<20), 1<<28)
		w := bufio.NewWriter(os.Stdout)
		for sc.Scan() {
			fmt.Fprintln(w, runImpl(sc.Text()))
		}
		w.Flush()
	case "run":
		fs := flag.NewFlagSet("run", flag.ExitOnError)
		id := fs.String("prop", "", "property id")
		seed := fs.Uint64("seed", 1, "seed")
		n := fs.Int("n", 1000, "approximate number of generated ops")
		on := fs.Int("oracle-n", -1, "approximate number of oracle cases (default n)")
		out := fs.String("out", "", "output directory")
		corpus := fs.String("corpus", "", "corpus directory (ops files run first)")
		fs.BoolVar(&thorough, "thorough", false, "thorough tier (generators may widen)")
		oracleTimeout := fs.Duration("oracle-timeout", 6*time.Minute, "deadline for the oracle stage")
		fs.Parse(os.Args[2:])
		p, ok := props[*id]
		if !ok {
			fmt.Fprintln(os.Stderr, "unknown property", *id)
			os.Exit(2)
		}
		if *on < 0 {
			*on = *n
		}
		os.MkdirAll(*out, 0o755)
		g := newGen(*seed, *out)
		g.st.Prop = *id
		g.st.Rule = p.Rule
		// corpus first
		if *corpus != "" {
			files, _ := filepath.Glob(filepath.Join(*corpus, "*.ops"))
			sort.Strings(files)
			for _, fn := range files {
				data, err := os.ReadFile(fn)
				if err != nil {
					continue
				}
				for _, l := range strings.Split(string(data), "\n") {
					l = strings.TrimSpace(l)
					if l == "" || strings.HasPrefix(l, "#") {
						continue
					}
					g.Emit(l, true, "corpus")
				}
			}
		}
		if p.Gen != nil {
			p.Gen(g, *n)
		}
		if p.Oracle != nil {
			// The oracle calls the real code directly; a panic there must not kill the run (it is itself a
			// finding: no property allows a crash).  Run it under recover; after a panic run it again (the
			// PRNG has advanced, so other cases are explored), a few times at most.
			deadline := time.After(*oracleTimeout)
			for attempt := 0; attempt < 4; attempt++ {
				done := make(chan bool, 1)
				go func() {
					panicked := false
					defer func() {
						if r := recover(); r != nil {
							panicked = true
							buf := make([]byte, 4096)
							buf = buf[:runtime.Stack(buf, false)]
							g.Fail("panic inside the implementation while the oracle was evaluating a case", fmt.Sprintf("%v\n%s", r, buf))
						}
						done <- panicked
					}()
					p.Oracle(g, *on)
				}()
				timedOut := false
				panicked := false
				select {
				case panicked = <-done:
				case <-deadline:
					timedOut = true
				}
				if timedOut {
					// an implementation call inside the oracle does not return: that is a finding of its own
					// (no property allows a hang); the goroutine cannot be killed, so finish the run here.
					g.Fail("hang: the oracle did not finish within its deadline (an implementation call does not terminate)",
						fmt.Sprintf("deadline %v; last oracle case tag counts: %v", *oracleTimeout, g.st.OracleTags))
					break
				}
				if !panicked {
					break
				}
			}
		}
		g.close()
		b, _ := json.MarshalIndent(g.st, "", " ")
		os.WriteFile(filepath.Join(*out, "stats.json"), b, 0o644)
	default:
		fmt.Fprintln(os.Stderr, "unknown command", os.Args[1])
		os.Exit(2)
	}
}
