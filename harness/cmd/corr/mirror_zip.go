package main

func init() {
	mirror("zip.strtofold", "zip.isvendoredpackage", "zip.checkfiles", "zip.create", "zip.checkzip", "zip.unzip", "zip.checkdir", "zip.createfromdir")
}
