package main

import (
	"regexp"
	"strconv"
)

var mirrorZipBig = regexp.MustCompile(`:z([0-9]+)`)

// mirrorZipSmall: the regenerated code works on immutable lists; ops with multi-megabyte contents (`z<N>` tokens) or
// with paths of tens of thousands of bytes take seconds each there, so only the hand model runs them.
func mirrorZipSmall(line string) bool {
	if len(line) > 20000 {
		return false
	}
	for _, m := range mirrorZipBig.FindAllStringSubmatch(line, -1) {
		if n, err := strconv.Atoi(m[1]); err != nil || n > 200000 {
			return false
		}
	}
	return true
}

func init() {
	mirror("zip.strtofold", "zip.isvendoredpackage", "zip.checkfiles", "zip.create", "zip.checkzip", "zip.unzip", "zip.checkdir", "zip.createfromdir")
	for _, op := range []string{"zip.create", "zip.checkzip", "zip.unzip", "zip.checkdir", "zip.createfromdir"} {
		mirrorFilter[op] = mirrorZipSmall
	}
}
