package main

func init() {
	mirror("zip.strtofold", "zip.isvendoredpackage", "zip.checkfiles")
}
