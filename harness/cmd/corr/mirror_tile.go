package main

import (
	"strconv"
	"strings"
)

func init() {
	mirror("tile.tileforindex", "tile.newtiles", "tile.tilepath", "tile.parsetilepath", "tile.hashfromtile", "tile.readtiledata", "tile.readhashes")
	mirrorFilter["tile.newtiles"] = func(line string) bool {
		f := strings.Fields(line)
		if len(f) != 4 {
			return true
		}
		h, _ := strconv.ParseInt(f[1], 10, 64)
		o, _ := strconv.ParseInt(f[2], 10, 64)
		n, _ := strconv.ParseInt(f[3], 10, 64)
		if h < 1 || h > 62 {
			return true
		}
		return (n-o)>>uint(h) < 3000
	}
}
