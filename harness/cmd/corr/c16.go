package main

// C16 — bulk setters (SetRequire, SetRequireSeparateIndirect, SetUse) produce exactly the requested set.

import (
	"go/version"
	"strings"

	"golang.org/x/mod/modfile"
	"golang.org/x/mod/module"
	"golang.org/x/mod/semver"
)

func init() {
	register(&Prop{ID: "C16", Gen: genC16, Oracle: oracleC16,
		Rule: "same session generator as C08 (different random stream); the oracle uses starting files x (0-3 prefix ops, Cleanup, one bulk setter with distinct paths, Cleanup); plus the family 'exclude order across the go-version threshold' in generator and oracle (go versions of every digit-count class of major/minor, with patch/pre-release parts, x exclude blocks with several versions of one path whose lexical and semantic orders differ, x bulk setter; the oracle also sweeps minors 0-30 and the digit-count boundaries exhaustively); plus the family 'bulk setter on a require list with duplicate paths' in generator and oracle (files with 1-3 surplus duplicate require directives, same/other version and marking, x requested lists built from the file: every existing path kept as it stands / changed / dropped, plus about as many new paths as there are surplus directives; the oracle also sweeps all 2- and 3-directive files over two paths exhaustively); plus the family 'bulk setter directly on a freshly parsed file with empty blocks' in generator and oracle (starting files with 1-3 EMPTY blocks of every verb - require, exclude, replace, retract, tool, godebug; go.work use, replace, godebug - at every statement boundary incl. top and end of file, forms `v ()`, `v ( )`, `v (` `)`, blank line inside, commented forms, x requested lists with at least one new direct and one new indirect path, x mostly NO Cleanup between Parse and the setter, sometimes adding operations that fill the empty block first or a general history; the oracle also sweeps an empty require / use block before, after and between every shape of other require / use statement exhaustively); non-trivial = at least one op hits a line of the starting file; distinct by op line"})
}

func genC16(g *Gen, n int) {
	edGenCommon(g, n, 16)
	// the family "exclude order across the go-version threshold" (see edC16ThresholdSession)
	for i := 0; i < n/16+8; i++ {
		file, ops := edC16ThresholdSession(g.Rand)
		hit := edC16Hit(file, ops)
		tags := []string{"exclude-order-threshold", "go.mod", "len:" + sizeBucket(len(ops))}
		for _, o := range ops {
			tags = append(tags, "op:"+o.Name)
		}
		if edEmitAbs {
			if run := edRunSession(false, file, nil); !run.ParseErr {
				g.Emit(edAbsStepLine(false, run.Start, ops), hit, tags...)
			}
		}
		if edEmitSession {
			g.Emit(edSessionLine(false, file, ops), hit, tags...)
		}
	}
	// the family "bulk setter directly on a parsed file with empty blocks" (see util_c16empty.go)
	for i := 0; i < n/8+16; i++ {
		work := g.Chance(20)
		file, ops, raw := edC16EmptySession(g.Rand, work)
		hit := edC16HitW(work, file, ops)
		tags := []string{"empty-blocks", "len:" + sizeBucket(len(ops))}
		if work {
			tags = append(tags, "go.work")
		} else {
			tags = append(tags, "go.mod")
		}
		if raw {
			tags = append(tags, "no-cleanup-before-bulk:fresh-file")
		}
		for _, o := range ops {
			tags = append(tags, "op:"+o.Name)
		}
		if edEmitAbs {
			if run := edRunSession(work, file, nil); !run.ParseErr {
				g.Emit(edAbsStepLine(work, run.Start, ops), hit, tags...)
			}
		}
		if edEmitSession {
			g.Emit(edSessionLine(work, file, ops), hit, tags...)
		}
	}
	// the family "bulk setter on a require list with duplicate paths" (see edC16DupSession)
	for i := 0; i < n/16+8; i++ {
		file, ops := edC16DupSession(g.Rand)
		hit := edC16Hit(file, ops)
		tags := []string{"require-dups", "go.mod", "len:" + sizeBucket(len(ops))}
		for _, o := range ops {
			tags = append(tags, "op:"+o.Name)
		}
		if edEmitAbs {
			if run := edRunSession(false, file, nil); !run.ParseErr {
				g.Emit(edAbsStepLine(false, run.Start, ops), hit, tags...)
			}
		}
		if edEmitSession {
			g.Emit(edSessionLine(false, file, ops), hit, tags...)
		}
	}
}

// ---- input class "bulk setter on a require list that already has duplicate paths"
//
// The property promises exactly one directive per requested path "whatever duplicates the file had before".
// The shared session generator does produce files with a path required twice, but the requested list is drawn
// independently of the file (0-5 picks, 65% of them existing paths, fresh version 60% of the time, fresh marking
// always): a request that (i) keeps EVERY existing directive, duplicates included, at its present version and
// marking, and (ii) asks for as many NEW paths as the file has surplus duplicate directives - so that the number
// of distinct requested paths equals the number of directives in the file - practically never came out.  An
// implementation that compares the two COUNTS (directives vs. distinct requested paths), or that otherwise
// treats "every existing entry is requested as is" as "nothing to do", was therefore never driven to a
// difference.  This family builds the requested list FROM the file:
//
//	file:    1-3 distinct paths, 1-3 surplus directives that repeat one of them (same version and marking / other
//	         version / other marking), spread over single lines and blocks, with comments and other directives
//	request: every distinct path of the file kept as its first occurrence stands (or, less often, dropped / new
//	         version / new marking), plus k new paths, k drawn around the number of surplus directives
//	         (k = surplus half of the time)
//
// followed by Cleanup, one bulk setter, Cleanup.  The oracle (edCheckC16) is unchanged.
func edC16DupSession(r *Rand) (file string, ops []edOp) {
	type dir struct {
		p, v string
		ind  bool
	}
	var surplus int
	for try := 0; ; try++ {
		perm := append([]string{}, edModPaths...)
		for i := len(perm) - 1; i > 0; i-- {
			j := r.Intn(i + 1)
			perm[i], perm[j] = perm[j], perm[i]
		}
		nd := 1 + r.Intn(3)
		var dirs []dir
		for _, p := range perm[:nd] {
			dirs = append(dirs, dir{p, edVersFor(r, p), r.Chance(40)})
		}
		surplus = 1 + r.Intn(3)
		agree := r.Chance(60) // all duplicates agree with their original
		for i := 0; i < surplus; i++ {
			d := dirs[r.Intn(len(dirs))]
			if !agree {
				switch r.Intn(4) {
				case 0:
					d.v = edVersFor(r, d.p)
				case 1:
					d.ind = !d.ind
				}
			}
			// anywhere after the first directive, so that the originals keep their relative order only sometimes
			at := 1 + r.Intn(len(dirs))
			dirs = append(dirs[:at], append([]dir{d}, dirs[at:]...)...)
		}
		g := &edFG{r: r}
		g.b.WriteString("module example.com/m\n\n")
		if r.Chance(70) {
			g.b.WriteString("go " + r.Pick(edGoVersions) + "\n\n")
		}
		line := func(indent string, d dir) string {
			s := indent + d.p + " " + d.v
			switch {
			case d.ind && r.Chance(15):
				s += " // indirect; why"
			case d.ind:
				s += " // indirect"
			case r.Chance(10):
				s += " // note"
			}
			return s + "\n"
		}
		for i := 0; i < len(dirs); {
			if r.Chance(15) {
				g.stmt(r.Pick([]string{"exclude", "replace"}), "example.com/m")
			}
			if r.Chance(35) { // single line
				g.before("")
				g.b.WriteString("require " + line("", dirs[i]))
				i++
			} else { // a block with 1.. of the remaining directives
				k := 1 + r.Intn(len(dirs)-i)
				g.before("")
				g.b.WriteString("require (\n")
				for j := 0; j < k; j++ {
					if j > 0 && r.Chance(10) {
						g.b.WriteString("\n")
					}
					g.before("\t")
					g.b.WriteString(line("\t", dirs[i+j]))
				}
				g.b.WriteString(")\n")
				i += k
			}
			if r.Chance(50) {
				g.b.WriteString("\n")
			}
		}
		file = g.b.String()
		if _, err := modfile.Parse("go.mod", []byte(file), nil); err == nil {
			break
		}
		if try >= 20 {
			file, surplus = "module example.com/m\n\nrequire (\n\texample.com/a v1.2.3\n\texample.com/a v1.2.3\n)\n", 1
			break
		}
	}
	cur := edRunSession(false, file, nil).Start
	if r.Chance(15) {
		ops = append(ops, edGenOp(r, cur, false))
		if edIsBulk(ops[0].Name) {
			ops = ops[:0]
		}
	}
	// the requested list, built from the file
	var list []edEnt
	seen := map[string]bool{}
	exact := r.Chance(55) // keep every existing path exactly as its first occurrence stands
	for _, e := range cur.L[edRequire] {
		if seen[e.K[0]] {
			continue
		}
		seen[e.K[0]] = true
		w := edEnt{K: []string{e.K[0], e.K[1]}, Ind: e.Ind, ID: -1}
		if !exact {
			switch r.Intn(10) {
			case 0, 1:
				continue // to be deleted
			case 2, 3:
				w.K[1] = edVersFor(r, e.K[0])
			case 4:
				w.Ind = !w.Ind
			}
		}
		list = append(list, w)
	}
	k := surplus
	if r.Chance(50) {
		k = r.Intn(surplus + 2)
	}
	for _, p := range edModPaths {
		if k > 0 && !seen[p] && r.Chance(70) {
			seen[p] = true
			list = append(list, edEnt{K: []string{p, edVersFor(r, p)}, Ind: r.Chance(40), ID: -1})
			k--
		}
	}
	for i := len(list) - 1; i > 0; i-- {
		j := r.Intn(i + 1)
		list[i], list[j] = list[j], list[i]
	}
	set := edOp{Name: r.Pick([]string{"setrequire", "setrequiresep"}), List: list, Rev: r.Bool()}
	ops = append(ops, edOp{Name: "cleanup"}, set, edOp{Name: "cleanup"})
	return file, ops
}

// edC16DupSweep: the small-scope exhaustive part of the same class.  Files: 2 or 3 require directives over the
// paths a, b (the first is a; at least one path twice), each with version v1.0.0 / v1.2.3 and direct / indirect,
// as single lines and as one block.  Requests: a and b each absent / as the first occurrence stands / with a new
// version and the other marking; the new paths c and d each absent / present.  Both setters.  do is called with
// each (file, ops); quick tier: 3-directive files only with all-direct markings.
func edC16DupSweep(do func(file string, ops []edOp)) {
	type dir struct {
		p, v string
		ind  bool
	}
	vers := []string{"v1.0.0", "v1.2.3"}
	var files [][]dir
	var rec func(cur []dir, n int)
	rec = func(cur []dir, n int) {
		if len(cur) == n {
			paths := map[string]bool{}
			for _, d := range cur {
				paths[d.p] = true
			}
			if len(paths) < n {
				files = append(files, append([]dir{}, cur...))
			}
			return
		}
		for _, p := range []string{"example.com/a", "example.com/b"} {
			if len(cur) == 0 && p != "example.com/a" {
				continue
			}
			for _, v := range vers {
				for _, ind := range []bool{false, true} {
					if ind && n == 3 && !thorough {
						continue
					}
					rec(append(cur, dir{p, v, ind}), n)
				}
			}
		}
	}
	rec(nil, 2)
	rec(nil, 3)
	for _, dirs := range files {
		first := map[string]dir{}
		for _, d := range dirs {
			if _, ok := first[d.p]; !ok {
				first[d.p] = d
			}
		}
		// requested lists: the product of the per-path options (nil = absent)
		var opts [][]*edEnt
		for _, p := range []string{"example.com/a", "example.com/b"} {
			if f, ok := first[p]; ok {
				opts = append(opts, []*edEnt{nil, {K: []string{p, f.v}, Ind: f.ind, ID: -1}, {K: []string{p, "v1.10.0"}, Ind: !f.ind, ID: -1}})
			} else {
				opts = append(opts, []*edEnt{nil, {K: []string{p, "v1.0.0"}, ID: -1}})
			}
		}
		opts = append(opts, []*edEnt{nil, {K: []string{"example.com/c/v2", "v2.0.0"}, ID: -1}})
		opts = append(opts, []*edEnt{nil, {K: []string{"example.com/d/v3", "v3.0.0"}, Ind: true, ID: -1}})
		lists := [][]edEnt{nil}
		for _, o := range opts {
			var next [][]edEnt
			for _, l := range lists {
				for _, e := range o {
					l2 := append([]edEnt{}, l...)
					if e != nil {
						l2 = append(l2, *e)
					}
					next = append(next, l2)
				}
			}
			lists = next
		}
		for _, block := range []bool{false, true} {
			var b strings.Builder
			b.WriteString("module example.com/m\n\n")
			if block {
				b.WriteString("require (\n")
			}
			for _, d := range dirs {
				if block {
					b.WriteString("\t")
				} else {
					b.WriteString("require ")
				}
				b.WriteString(d.p + " " + d.v)
				if d.ind {
					b.WriteString(" // indirect")
				}
				b.WriteString("\n")
			}
			if block {
				b.WriteString(")\n")
			}
			for _, l := range lists {
				for _, name := range []string{"setrequire", "setrequiresep"} {
					do(b.String(), []edOp{{Name: "cleanup"}, {Name: name, List: l}, {Name: "cleanup"}})
				}
			}
		}
	}
}

// ---- input class "exclude order across the go-version threshold"
//
// The documented order of an exclude block depends on the go directive: lexical by tokens below go 1.21, module
// path then semantic version from go 1.21 on.  The shared session generator (util_editgen.go) draws go versions
// from a pool whose members all have a two-digit minor (1.12 ... 1.23.1), and it only rarely builds an exclude
// block holding two versions of ONE path whose lexical and semantic orders differ.  So an implementation whose
// "go 1.21 or newer" decision is right on two-digit minors but wrong on minors with another digit count (a
// textual instead of a numeric comparison: "1.9" vs "1.21", "1.100" vs "1.21"), on other majors, or on patch
// releases of old versions, was never driven to an observable difference.  This family crosses
//
//	(a) go versions of every digit-count class of major and minor, with optional patch / pre-release part, set
//	    by the starting file or by an AddGoStmt in the prefix, with
//	(b) exclude blocks holding several versions of one path whose numeric fields differ in digit count or that
//	    pair a release with its pre-releases (the pairs on which the two documented orders disagree),
//
// followed by Cleanup, one bulk setter, Cleanup.  The oracle (edBlocksSorted) is unchanged.

// edC16GoVersion draws a well-formed go version; the digit count of the minor is drawn first.
func edC16GoVersion(r *Rand) string {
	major := "1"
	if r.Chance(10) {
		major = r.Pick([]string{"2", "3", "10", "12"})
	}
	minor := 0
	switch r.Intn(5) {
	case 0, 1:
		minor = r.Intn(10) // one digit
	case 2:
		minor = 10 + r.Intn(90) // two digits
	case 3:
		minor = 18 + r.Intn(7) // two digits, around the threshold
	case 4:
		minor = 100 + r.Intn(200) // three digits
	}
	s := major + "." + itoa(minor)
	switch {
	case r.Chance(25):
		s += "." + itoa(r.Intn(13))
	case r.Chance(6):
		s += r.Pick([]string{"rc1", "beta2"})
	}
	return s
}

// edC16Versions draws k distinct canonical versions of one path (major prefix vN) whose numeric fields have
// different digit counts and whose pre-release parts vary.
func edC16Versions(r *Rand, path string, k int) []string {
	pre := "v1."
	if _, major, ok := module.SplitPathVersion(path); ok && major != "" {
		pre = "v" + strings.TrimLeft(major, "/.v") + "."
	}
	var out []string
	seen := map[string]bool{}
	for tries := 0; len(out) < k && tries < 40; tries++ {
		v := pre + r.Pick([]string{"0", "2", "9", "10", "11", "100"}) + "." + r.Pick([]string{"0", "0", "3", "10"})
		if r.Chance(30) {
			v += r.Pick([]string{"-rc.1", "-rc.2", "-rc.10", "-beta", "-0", "-alpha.1"})
		}
		if len(out) > 0 && r.Chance(35) {
			// a pre-release of a release already drawn (or the release of a pre-release)
			b := out[r.Intn(len(out))]
			if i := strings.IndexByte(b, '-'); i >= 0 {
				v = b[:i]
			} else {
				v = b + r.Pick([]string{"-rc.1", "-rc.10", "-beta"})
			}
		}
		if !seen[v] {
			seen[v] = true
			out = append(out, v)
		}
	}
	return out
}

// edC16ThresholdSession: a starting go.mod with a go directive, requirements and at least one multi-version
// exclude block, and the ops [0-2 prefix ops] cleanup <bulk setter> cleanup.
func edC16ThresholdSession(r *Rand) (file string, ops []edOp) {
	excl := []string{r.Pick(edModPaths)}
	if r.Chance(50) {
		excl = append(excl, r.Pick(edModPaths))
	}
	for try := 0; ; try++ {
		g := &edFG{r: r}
		g.b.WriteString("module example.com/m\n\n")
		if r.Chance(92) {
			g.b.WriteString("go " + edC16GoVersion(r) + "\n\n")
		}
		nreq := r.Intn(3)
		for i := 0; i < nreq; i++ {
			g.stmt("require", "example.com/m")
		}
		nblk := 1
		if r.Chance(15) {
			nblk = 2
		}
		for b := 0; b < nblk; b++ {
			var lines []string
			for i, p := range excl {
				k := 2 + r.Intn(4)
				if i > 0 {
					k = r.Intn(3)
				}
				for _, v := range edC16Versions(r, p, k) {
					lines = append(lines, "\t"+p+" "+v+g.suffix("exclude")+"\n")
				}
			}
			for i := len(lines) - 1; i > 0; i-- { // shuffle
				j := r.Intn(i + 1)
				lines[i], lines[j] = lines[j], lines[i]
			}
			g.before("")
			g.b.WriteString("exclude (\n" + strings.Join(lines, "") + ")\n\n")
			if r.Chance(20) {
				g.stmt(r.Pick([]string{"exclude", "replace", "require"}), "example.com/m")
			}
		}
		file = g.b.String()
		if _, err := modfile.Parse("go.mod", []byte(file), nil); err == nil {
			break
		}
		if try >= 20 {
			file = "module example.com/m\n\ngo 1.9\n\nexclude (\n\texample.com/a v1.9.0\n\texample.com/a v1.10.0\n)\n"
			break
		}
	}
	cur := edRunSession(false, file, nil).Start
	if r.Chance(45) {
		k := 1 + r.Intn(2)
		for i := 0; i < k; i++ {
			switch r.Intn(4) {
			case 0, 1: // the threshold is crossed (or not) by an edit of the go directive
				ops = append(ops, edOp{Name: "go", A: []string{edC16GoVersion(r)}})
			case 2: // one more version of an excluded path, appended to the block
				p := excl[r.Intn(len(excl))]
				ops = append(ops, edOp{Name: "exclude", A: []string{p, edC16Versions(r, p, 1)[0]}})
			case 3:
				if n := len(cur.L[edExclude]); n > 0 {
					e := cur.L[edExclude][r.Intn(n)]
					ops = append(ops, edOp{Name: "dropexclude", A: []string{e.K[0], e.K[1]}})
				} else {
					ops = append(ops, edOp{Name: "dropgo"})
				}
			}
		}
	}
	set := edOp{Name: r.Pick([]string{"setrequire", "setrequiresep"}), List: edGenReqList(r, cur), Rev: r.Bool()}
	ops = append(ops, edOp{Name: "cleanup"}, set, edOp{Name: "cleanup"})
	return file, ops
}

// edC16Hit: the non-triviality rule of the property (at least one op hits a line of the starting file).
func edC16Hit(file string, ops []edOp) bool {
	f, err := modfile.Parse("go.mod", []byte(file), nil)
	if err != nil {
		return false
	}
	start := edDirsOfFile(f, nil)
	id := 0
	for k := range start.L {
		for i := range start.L[k] {
			start.L[k][i].ID = id
			id++
		}
	}
	for _, p := range []*edEnt{start.Module, start.Go, start.Toolchain} {
		if p != nil {
			p.ID = id
			id++
		}
	}
	a := &edAbs{edDirs: edCloneDirs(start), Work: false, Touched: map[int]bool{}}
	for _, o := range ops {
		a.step(o)
	}
	return len(a.Touched) > 0
}

// ---- documented comparators, written from the doc comments

func edLexLess(a, b []string) bool {
	for k := 0; k < len(a) && k < len(b); k++ {
		if a[k] != b[k] {
			return a[k] < b[k]
		}
	}
	return len(a) < len(b)
}

func edExcludeLess(a, b []string) bool {
	if len(a) != 2 || len(b) != 2 {
		return edLexLess(a, b)
	}
	if a[0] != b[0] {
		return a[0] < b[0]
	}
	return semver.Compare(a[1], b[1]) < 0
}

func edInterval(t []string) (lo, hi string) {
	if len(t) == 1 {
		return t[0], t[0]
	}
	if len(t) == 5 && t[0] == "[" && t[2] == "," && t[4] == "]" {
		return t[1], t[3]
	}
	return "", ""
}

// descending by low, then by high
func edRetractLess(a, b []string) bool {
	al, ah := edInterval(a)
	bl, bh := edInterval(b)
	if c := semver.Compare(al, bl); c != 0 {
		return c > 0
	}
	return semver.Compare(ah, bh) > 0
}

// edBlocksSorted checks every block of the tree; goV is the go version ("" = none).
func edBlocksSorted(fs *modfile.FileSyntax, goV string, work bool) (sig, info string) {
	semantic := goV != "" && version.Compare("go"+goV, "go1.21") >= 0
	for _, st := range fs.Stmt {
		b, ok := st.(*modfile.LineBlock)
		if !ok || len(b.Token) == 0 {
			continue
		}
		less := edLexLess
		name := b.Token[0]
		if !work && b.Token[0] == "exclude" && semantic {
			less = edExcludeLess
			if strings.ContainsAny(goV, "abcdefghijklmnopqrstuvwxyz") {
				name += ":go-prerelease"
			}
		} else if !work && b.Token[0] == "retract" {
			less = edRetractLess
		}
		for i := 0; i+1 < len(b.Line); i++ {
			if less(b.Line[i+1].Token, b.Line[i].Token) {
				if strings.HasSuffix(name, ":go-prerelease") {
					// the recorded finding is exactly: lexical order is used for a pre-release go version
					for j := 0; j+1 < len(b.Line); j++ {
						if edLexLess(b.Line[j+1].Token, b.Line[j].Token) {
							name = "exclude"
						}
					}
				}
				s, inf := "c16-block-order:"+name, "go "+goV+": "+strings.Join(b.Line[i].Token, " ")+" before "+strings.Join(b.Line[i+1].Token, " ")
				if !edKnownCause(s) {
					return s, inf
				}
				sig, info = s, inf
				break
			}
		}
	}
	return sig, info
}

// edMarker: does the end-of-line comment text carry the indirect marker, and what is the rest?
func edMarker(tok string) (marked bool, payload string) {
	text := strings.TrimSpace(strings.TrimPrefix(strings.TrimSpace(tok), "//"))
	f := strings.Fields(text)
	if len(f) == 1 && f[0] == "indirect" {
		return true, ""
	}
	if len(f) > 1 && f[0] == "indirect;" {
		return true, strings.TrimSpace(text[strings.Index(text, "indirect;")+len("indirect;"):])
	}
	return false, text
}

func edSuffixPayload(l *modfile.Line) []string {
	var out []string
	for i, c := range l.Suffix {
		if i == 0 {
			_, p := edMarker(c.Token)
			if p != "" {
				out = append(out, p)
			}
			continue
		}
		if t := strings.TrimSpace(strings.TrimPrefix(strings.TrimSpace(c.Token), "//")); t != "" {
			out = append(out, t)
		}
	}
	return out
}

// edMissingOnlyFrom: every text of had that is missing in has is the text of one of the block's comments.
func edMissingOnlyFrom(had, has []string, block []modfile.Comment) bool {
	cnt := map[string]int{}
	for _, x := range has {
		cnt[x]++
	}
	from := map[string]bool{}
	for _, c := range block {
		from[strings.TrimSpace(strings.TrimPrefix(strings.TrimSpace(c.Token), "//"))] = true
	}
	for _, x := range had {
		if cnt[x] > 0 {
			cnt[x]--
			continue
		}
		if !from[x] {
			return false
		}
	}
	return true
}

type edKept struct {
	before  []string
	payload []string
	line    *modfile.Line // the line before the setter
}

func edAnyComments(c *modfile.Comments, allowIndirect bool) bool {
	if len(c.Before) > 0 || len(c.After) > 0 {
		return true
	}
	for i, s := range c.Suffix {
		m, p := edMarker(s.Token)
		if !(allowIndirect && i == 0 && m && p == "") {
			return true
		}
	}
	return false
}

// edOneUncommented: the file's only requirements are one line or one block without any comment
// (other than indirect markers on its lines).
func edOneUncommented(fs *modfile.FileSyntax) bool {
	n := 0
	ok := true
	for _, st := range fs.Stmt {
		switch st := st.(type) {
		case *modfile.Line:
			if len(st.Token) > 0 && st.Token[0] == "require" {
				n++
				if edAnyComments(&st.Comments, true) {
					ok = false
				}
			}
		case *modfile.LineBlock:
			if len(st.Token) > 0 && st.Token[0] == "require" {
				n++
				if edAnyComments(&st.Comments, false) || edAnyComments(&st.LParen.Comments, false) || edAnyComments(&st.RParen.Comments, false) {
					ok = false
				}
				for _, l := range st.Line {
					if edAnyComments(&l.Comments, true) {
						ok = false
					}
				}
			}
		}
	}
	return n == 1 && ok
}

// edCheckC16: ops must end with <bulk setter>, cleanup; everything before is the prefix.
func edCheckC16(work bool, file string, ops []edOp) (sig, info string) {
	return edCheckC16Mode(work, file, ops, false)
}

// edCheckC16Raw: the same checks, but the setter is applied to the parsed file (plus prefix) as it stands, with NO
// Cleanup in front (see util_c16empty.go); the prefix must not leave cleared entries behind.
func edCheckC16Raw(work bool, file string, ops []edOp) (sig, info string) {
	return edCheckC16Mode(work, file, ops, true)
}

func edCheckC16Mode(work bool, file string, ops []edOp, raw bool) (sig, info string) {
	if len(ops) < 2 || ops[len(ops)-1].Name != "cleanup" || !edIsBulk(ops[len(ops)-2].Name) {
		return "", ""
	}
	set := ops[len(ops)-2]
	var pre *edRun
	if raw {
		pre = edC16RunRaw(work, file, ops[:len(ops)-2]) // no Cleanup
	} else {
		pre = edRunSession(work, file, ops[:len(ops)-2]) // ends with the implicit Cleanup
	}
	if pre.ParseErr || pre.Panic != "" {
		return "", ""
	}
	kept := map[string]edKept{}
	oneUncommented := false
	if work {
		for _, u := range pre.Work.Use {
			if _, ok := kept[u.Path]; !ok {
				kept[u.Path] = edKept{edComTexts(u.Syntax.Before), edComTexts(u.Syntax.Suffix), u.Syntax}
			}
		}
	} else {
		for _, r := range pre.Mod.Require {
			if _, ok := kept[r.Mod.Path]; !ok {
				kept[r.Mod.Path] = edKept{edComTexts(r.Syntax.Before), edSuffixPayload(r.Syntax), r.Syntax}
			}
		}
		oneUncommented = edOneUncommented(pre.Mod.Syntax)
	}
	// end-of-line comments of the requirements just before the setter (for the "remainder-is-marker" cause)
	preSuffix := map[*modfile.Require]string{}
	if !work {
		edRecordPreBulk(preSuffix, pre.Mod)
	}
	// apply the setter + Cleanup on the same in-memory file
	panicked := func() (p bool) {
		defer func() {
			if r := recover(); r != nil {
				p = true
			}
		}()
		if work {
			edApplyWork(pre.Work, set)
			edTrackBlocks(pre, pre.Work.Syntax)
			pre.Work.Cleanup()
		} else {
			edApplyMod(pre.Mod, set)
			edTrackBlocks(pre, pre.Mod.Syntax)
			pre.Mod.Cleanup()
		}
		return false
	}()
	if panicked {
		return "c16-panic:" + set.Name, ""
	}
	// requested set
	want := &edDirs{}
	kind := edRequire
	if work {
		kind = edUse
	}
	for _, e := range set.List {
		if work {
			want.L[kind] = append(want.L[kind], edEnt{K: []string{e.K[0]}})
		} else {
			want.L[kind] = append(want.L[kind], edEnt{K: []string{e.K[0], e.K[1]}, Ind: e.Ind})
		}
	}
	wantS := strings.Fields(want.render(true))[3+kind]
	var typed *edDirs
	var fs *modfile.FileSyntax
	if work {
		typed, fs = edDirsOfWork(pre.Work, nil), pre.Work.Syntax
	} else {
		typed, fs = edDirsOfFile(pre.Mod, nil), pre.Mod.Syntax
	}
	if got := strings.Fields(typed.render(true))[3+kind]; got != wantS {
		return "c16-exact-typed:" + set.Name, "want " + wantS + " got " + got
	}
	out := modfile.Format(fs)
	var re *edDirs
	var reFS *modfile.FileSyntax
	var reMod *modfile.File
	var reWork *modfile.WorkFile
	var err error
	if work {
		reWork, err = modfile.ParseWork("go.work", out, nil)
		if err == nil {
			re, reFS = edDirsOfWork(reWork, nil), reWork.Syntax
		}
	} else {
		reMod, err = modfile.Parse("go.mod", out, nil)
		if err == nil {
			re, reFS = edDirsOfFile(reMod, nil), reMod.Syntax
		}
	}
	if err != nil {
		return "c16-reparse-fails", string(out)
	}
	knownSig, knownInfo := "", ""
	defer func() {
		if sig == "" {
			sig, info = knownSig, knownInfo
		}
	}()
	var nested map[string]bool // paths whose line shows the recorded cause "remainder-is-marker"
	if got := strings.Fields(re.render(true))[3+kind]; got != wantS {
		// recorded finding: the requested marking was "direct", the line's comment before the setter was
		// "// indirect; T" with T itself an indirect marker, and the output line is still indirect
		if !work {
			nested = edOnlyRemainderIsMarker(set.List, pre.Mod, reMod, preSuffix, pre.SuffixBlock)
		}
		if nested == nil {
			return "c16-exact-reparse:" + set.Name, "want " + wantS + " got " + got
		}
		knownSig, knownInfo = "c16-indirect:remainder-is-marker", "want "+wantS+" got "+got
		if nested[""] {
			// every mismatch is the other recorded cause: the line was put into a block that carries an end-of-line
			// indirect marker (`require () // indirect`), which Cleanup appended to it on collapse
			knownSig = "c16-indirect:" + edSigEmptyBlockSuffix
		}
	}
	goV := ""
	if re.Go != nil {
		goV = re.Go.K[0]
	}
	if s, i := edBlocksSorted(reFS, goV, work); s != "" {
		if !edKnownCause(s) {
			return s, i
		}
		knownSig, knownInfo = s, i
	}
	if s, i := edBlocksSorted(fs, goV, work); s != "" && !edKnownCause(s) {
		return s + ":in-memory", i
	}
	// comments of kept lines (on the in-memory tree: a re-parse may attach a comment followed by a blank
	// line to a separate comment block; the texts must also be present in the formatted output)
	_, _ = reMod, reWork
	if work {
		for _, u := range pre.Work.Use {
			k, ok := kept[u.Path]
			if !ok {
				continue
			}
			if !edSubseq(k.before, edComTexts(u.Syntax.Before)) || !edInText(k.before, out) {
				return "c16-comments:before:setuse", u.Path
			}
			if !edSubseq(k.payload, edComTexts(u.Syntax.Suffix)) {
				return "c16-comments:suffix:setuse", u.Path
			}
		}
	} else {
		for _, r := range pre.Mod.Require {
			k, ok := kept[r.Mod.Path]
			if !ok {
				continue
			}
			if !edSubseq(k.before, edComTexts(r.Syntax.Before)) || !edInText(k.before, out) {
				return "c16-comments:before:" + set.Name, r.Mod.Path
			}
			if nested[r.Mod.Path] {
				// the payload is still in the file, but (the recorded cause) it now reads as the marker
				if !edInText(k.payload, out) {
					return "c16-comments:suffix:" + set.Name, r.Mod.Path + " lost " + strings.Join(k.payload, "|")
				}
				continue
			}
			if !edSubseq(k.payload, edSuffixPayload(r.Syntax)) {
				inf := r.Mod.Path + " had " + strings.Join(k.payload, "|") + " has " + strings.Join(edSuffixPayload(r.Syntax), "|")
				// recorded finding "empty-block-suffix-comment": the line sat in `require () // c`, a Cleanup appended the
				// block's end-of-line comments to it as FURTHER end-of-line comments, and removing a bare `// indirect`
				// marker clears the whole list.  Only the texts that came from the block may be missing.
				if bs := pre.SuffixBlock[k.line]; len(bs) > 0 && edMissingOnlyFrom(k.payload, edSuffixPayload(r.Syntax), bs) {
					knownSig, knownInfo = "c16-comments:suffix:"+edSigEmptyBlockSuffix, inf
					continue
				}
				return "c16-comments:suffix:" + set.Name, inf
			}
		}
	}
	// separate blocks
	if set.Name == "setrequiresep" && oneUncommented {
		for _, st := range reFS.Stmt {
			var lines []*modfile.Line
			switch st := st.(type) {
			case *modfile.LineBlock:
				if len(st.Token) > 0 && st.Token[0] == "require" {
					lines = st.Line
				}
			}
			d, ind := 0, 0
			for _, l := range lines {
				m := false
				if len(l.Suffix) > 0 {
					m, _ = edMarker(l.Suffix[0].Token)
				}
				if m {
					ind++
				} else {
					d++
				}
			}
			if d > 0 && ind > 0 {
				return "c16-separate-blocks", itoa(d) + " direct and " + itoa(ind) + " indirect requirements share a block: " + strings.ReplaceAll(string(out), "\n", "\\n")
			}
		}
	}
	return "", ""
}

// edOnlyRemainderIsMarker: the re-parsed requirements are the requested ones except for indirect flags, and every
// flag mismatch has the recorded structural cause (requested direct, re-parsed indirect, comment before the setter
// "// indirect; <marker>").  Returns the paths concerned; nil = anything else.
// A mismatch may instead have the recorded cause "empty-block-suffix-comment" (the line sits in a block whose
// end-of-line comment is an indirect marker); if ALL mismatches are of that kind the result also has the key "".
func edOnlyRemainderIsMarker(want []edEnt, typed, re *modfile.File, preSuffix map[*modfile.Require]string, suffixBlock map[*modfile.Line][]modfile.Comment) map[string]bool {
	if re == nil || len(re.Require) != len(want) {
		return nil
	}
	reBy := map[string]*modfile.Require{}
	for _, q := range re.Require {
		reBy[q.Mod.Path] = q
	}
	tyBy := map[string]*modfile.Require{}
	for _, r := range typed.Require {
		tyBy[r.Mod.Path] = r
	}
	var found map[string]bool
	nRem, nSuffix := 0, 0
	for _, e := range want {
		q := reBy[e.K[0]]
		if q == nil || q.Mod.Version != e.K[1] {
			return nil
		}
		if q.Indirect == e.Ind {
			continue
		}
		r := tyBy[e.K[0]]
		if r == nil || e.Ind || !q.Indirect {
			return nil
		}
		pre, had := preSuffix[r]
		if !had || !edRemainderIsMarker(pre) {
			if bs := suffixBlock[r.Syntax]; len(bs) > 0 && edIsIndirectTok(bs[0].Token) {
				nSuffix++
				if found == nil {
					found = map[string]bool{}
				}
				found[e.K[0]] = true
				continue
			}
			return nil
		}
		nRem++
		if found == nil {
			found = map[string]bool{}
		}
		found[e.K[0]] = true
	}
	if found != nil && nRem == 0 && nSuffix > 0 {
		found[""] = true
	}
	return found
}

// the minimal session of the recorded finding "c16-indirect:remainder-is-marker", run on every check
const edC16NestedFile = "module m\nrequire a v1.0.0 // indirect; indirect\n"

func edC16NestedOps() []edOp {
	return []edOp{{Name: "cleanup"}, {Name: "setrequire", List: []edEnt{{K: []string{"a", "v1.0.0"}, Ind: false, ID: -1}}}, {Name: "cleanup"}}
}

func oracleC16(g *Gen, n int) {
	seen := map[string]bool{}
	{
		ops := edC16NestedOps()
		g.Case("c16-setrequire:nested-marker")
		if sig, info := edCheckC16(false, edC16NestedFile, ops); sig != "" {
			seen[sig] = true
			g.Fail(sig, info+" || file: "+strings.ReplaceAll(edC16NestedFile, "\n", "\\n"), edSessionLine(false, edC16NestedFile, ops))
		}
	}
	{
		// `require () // indirect`: the Cleanup that must precede a bulk setter collapses the block first, and the
		// setter then rewrites the marker it finds, so C16 holds here (the typed/re-parse divergence before the
		// setter is C15's recorded finding "empty-block-suffix-comment")
		file := "module m\nrequire () // indirect\n"
		ops := []edOp{{Name: "require", A: []string{"example.com/a", "v1.0.0"}}, {Name: "cleanup"},
			{Name: "setrequire", List: []edEnt{{K: []string{"example.com/a", "v1.0.0"}, Ind: false, ID: -1}}}, {Name: "cleanup"}}
		g.Case("c16-setrequire:empty-block-suffix")
		if sig, info := edCheckC16(false, file, ops); sig != "" {
			seen[sig] = true
			g.Fail(sig, info+" || file: "+strings.ReplaceAll(file, "\n", "\\n"), edSessionLine(false, file, ops))
		}
	}
	// report: shrink the prefix and the starting file (never the bulk setter), then record the failure
	reportMode := func(work bool, file string, ops []edOp, sig string, raw bool) {
		seen[sig] = true
		pre := ops[:len(ops)-2]
		tail := ops[len(ops)-2:]
		chk := func(w bool, f string, o []edOp) (string, string) {
			return edCheckC16Mode(w, f, append(append([]edOp{}, o...), tail...), raw)
		}
		pre = edShrink(work, file, pre, sig, chk)
		file = edShrinkFile(work, file, pre, sig, chk)
		ops = append(append([]edOp{}, pre...), tail...)
		_, info := edCheckC16Mode(work, file, ops, raw)
		g.Fail(sig, info+" || file: "+strings.ReplaceAll(file, "\n", "\\n"), edSessionLine(work, file, ops))
	}
	report := func(work bool, file string, ops []edOp, sig string) { reportMode(work, file, ops, sig, false) }
	for i := 0; i < n; i++ {
		work := g.Chance(25)
		file, ops, _ := edGenSession(g.Rand, work)
		// keep a short prefix, then one bulk setter
		k := 0
		if g.Chance(40) {
			k = g.Intn(4)
		}
		if k > len(ops) {
			k = len(ops)
		}
		ops = ops[:k]
		run := edRunSession(work, file, ops)
		if run.ParseErr || run.Panic != "" {
			continue
		}
		var set edOp
		if work {
			set = edOp{Name: "setuse", List: edGenUseList(g.Rand, run.Typed)}
		} else {
			set = edOp{Name: g.Pick([]string{"setrequire", "setrequiresep", "setrequiresep"}), List: edGenReqList(g.Rand, run.Typed)}
		}
		ops = append(append(ops, edOp{Name: "cleanup"}), set, edOp{Name: "cleanup"})
		g.Case("c16-" + set.Name)
		sig, _ := edCheckC16(work, file, ops)
		if sig == "" || seen[sig] {
			continue
		}
		report(work, file, ops, sig)
	}
	// The class "exclude order across the go-version threshold" (see edC16ThresholdSession).
	// (1) small-scope sweep: every minor 0..30 and the digit-count boundaries above, majors 1 and 2, plain and
	//     with a patch part, x both setters, on one fixed exclude block on which the two documented orders
	//     differ (digit counts of a numeric field, a release next to its pre-release, two paths).
	{
		minors := []int{}
		for m := 0; m <= 30; m++ {
			minors = append(minors, m)
		}
		minors = append(minors, 99, 100, 101, 120, 121, 199, 200, 209, 210, 211, 999, 1000)
		const body = "require (\n\texample.com/c v1.0.0\n\texample.com/a v1.0.0 // indirect\n)\n\n" +
			"exclude (\n\texample.com/b v1.9.0\n\texample.com/b v1.10.0\n\texample.com/a v1.0.0\n\texample.com/b v1.2.0\n" +
			"\texample.com/b v1.10.0-rc.1\n\texample.com/a v1.0.0-beta\n)\n"
		list := []edEnt{{K: []string{"example.com/c", "v1.2.3"}, ID: -1}, {K: []string{"example.com/b", "v1.10.0"}, ID: -1},
			{K: []string{"example.com/a", "v1.0.0"}, Ind: true, ID: -1}}
		for _, major := range []string{"1", "2"} {
			for _, m := range minors {
				for _, patch := range []string{"", ".0", ".7"} {
					for _, name := range []string{"setrequire", "setrequiresep"} {
						file := "module example.com/m\n\ngo " + major + "." + itoa(m) + patch + "\n\n" + body
						ops := []edOp{{Name: "cleanup"}, {Name: name, List: list}, {Name: "cleanup"}}
						g.Case("c16-exclude-order-threshold:sweep")
						if sig, _ := edCheckC16(false, file, ops); sig != "" && !seen[sig] {
							report(false, file, ops, sig)
						}
					}
				}
			}
		}
	}
	// (2) the random family
	for i := 0; i < n/8+16; i++ {
		file, ops := edC16ThresholdSession(g.Rand)
		g.Case("c16-exclude-order-threshold:" + ops[len(ops)-2].Name)
		if sig, _ := edCheckC16(false, file, ops); sig != "" && !seen[sig] {
			report(false, file, ops, sig)
		}
	}
	// The class "bulk setter on a require list with duplicate paths" (see edC16DupSession): the exhaustive
	// small-scope sweep, then the random family.
	edC16DupSweep(func(file string, ops []edOp) {
		g.Case("c16-require-dups:sweep")
		if sig, _ := edCheckC16(false, file, ops); sig != "" && !seen[sig] {
			report(false, file, ops, sig)
		}
	})
	for i := 0; i < n/4+32; i++ {
		file, ops := edC16DupSession(g.Rand)
		g.Case("c16-require-dups:" + ops[len(ops)-2].Name)
		if sig, _ := edCheckC16(false, file, ops); sig != "" && !seen[sig] {
			report(false, file, ops, sig)
		}
	}
	// The class "bulk setter directly on a parsed file with empty blocks" (see util_c16empty.go): the exhaustive
	// small-scope sweep, then the random family.  Sessions with a general history keep the Cleanup before the
	// setter and are checked as before; the others are checked without it.
	edC16EmptySweep(func(work bool, file string, ops []edOp) {
		g.Case("c16-empty-blocks:sweep:" + ops[len(ops)-2].Name)
		if sig, _ := edCheckC16Raw(work, file, ops); sig != "" && !seen[sig] {
			reportMode(work, file, ops, sig, true)
		}
	})
	for i := 0; i < n/4+32; i++ {
		work := g.Chance(20)
		file, ops, raw := edC16EmptySession(g.Rand, work)
		tag := "c16-empty-blocks:"
		if raw {
			tag += "fresh-file:"
		}
		g.Case(tag + ops[len(ops)-2].Name)
		if sig, _ := edCheckC16Mode(work, file, ops, raw); sig != "" && !seen[sig] {
			reportMode(work, file, ops, sig, raw)
		}
	}
}
