package main

// C12 — shapes of the TARGET DIRECTORY ARGUMENT of Unzip on the real file system (op zip.unzipat).
//
// Input class added: the harness extracted only into <tmp>/parent/target given by its plain path, in four states
// (missing, empty directory, directory holding one regular file, regular file). The property speaks about "the target
// directory", i.e. the directory the argument DENOTES, and Unzip's refusal of a non-empty target is what keeps a
// pre-existing symbolic link below the target from redirecting a write. Code that inspects the argument with Lstat
// instead of Stat, looks only at its last path element, compares path strings, or tests emptiness by looking for
// regular files was indistinguishable. The class is the product
//
//	how the argument reaches the directory (via):
//	  d  plain path                      t  plain path with a trailing slash
//	  l  final element is a symbolic link with a relative destination
//	  a  ... with an absolute destination
//	  c  ... a chain of two links        s  symbolic link followed by a trailing slash
//	  p  plain last element below a symlinked PARENT directory
//	x state of what the argument denotes (state):
//	  m  nothing there (for l/a/c/s: a dangling link)   e  empty directory   n  non-empty directory   f  regular file
//	x what makes a non-empty directory non-empty (content, state n only):
//	  x  a regular file                  d  an empty subdirectory           g  a file called go.mod
//	  k  a symbolic link, named like the first directory of the archive, to a directory OUTSIDE the target
//	  o  a dangling symbolic link
//
// A shape token is via+state(+content), e.g. "lnk". One-letter tokens are the four historic states of op zip.unzip.

import (
	"fmt"
	"hash/crc32"
	"os"
	"path/filepath"
	"sort"
	"strings"

	"golang.org/x/mod/module"
	modzip "golang.org/x/mod/zip"
)

type c12Shape struct{ via, state, content byte }

func c12ParseShape(s string) c12Shape {
	sh := c12Shape{via: 'd', state: 'm', content: 'x'}
	switch {
	case len(s) == 1:
		sh.state = s[0]
	case len(s) >= 2:
		sh.via, sh.state = s[0], s[1]
		if len(s) >= 3 {
			sh.content = s[2]
		}
	}
	return sh
}

// linked: the final path element of the argument is a symbolic link
func (sh c12Shape) linked() bool {
	return sh.via == 'l' || sh.via == 'a' || sh.via == 'c' || sh.via == 's'
}

// dangling: the argument is a symbolic link to nothing
func (sh c12Shape) dangling() bool { return sh.linked() && sh.state == 'm' }

// c12ShapeModelled: shapes for which the model's four target states give an answer (must agree with parseShape in
// lean/ModVerif/Drv/Zip.lean). Not modelled: dangling links (MkdirAll reports "file exists") and "file/".
func c12ShapeModelled(s string) bool {
	sh := c12ParseShape(s)
	switch sh.state {
	case 'e', 'n':
		return true
	case 'm':
		return sh.via == 'd' || sh.via == 't' || sh.via == 'p'
	case 'f':
		return sh.via == 'd' || sh.via == 'l' || sh.via == 'a' || sh.via == 'c' || sh.via == 'p'
	}
	return false
}

// c12AllShapes: every via x state, and for the non-empty state every content kind.
func c12AllShapes() []string {
	var out []string
	for _, via := range "dtlacsp" {
		for _, st := range "menf" {
			if st != 'n' {
				out = append(out, string(via)+string(st))
				continue
			}
			for _, c := range "xdgko" {
				out = append(out, string(via)+"n"+string(c))
			}
		}
	}
	return out
}

func c12ModelledShapes() []string {
	var out []string
	for _, s := range c12AllShapes() {
		if c12ShapeModelled(s) {
			out = append(out, s)
		}
	}
	return out
}

// c12RandShape: via and state uniform (so that the non-empty state, which has five content kinds, does not crowd out
// the others), content uniform for the non-empty state.
func c12RandShape(r *Rand, modelledOnly bool) string {
	for {
		s := string("dtlacsp"[r.Intn(7)]) + string("menf"[r.Intn(4)])
		if s[1] == 'n' {
			s += string("xdgko"[r.Intn(5)])
		}
		if !modelledOnly || c12ShapeModelled(s) {
			return s
		}
	}
}

// c12FirstDir: the first path element of the first archive entry that lies below a directory (the name a symbolic
// link inside the target needs in order to redirect that entry), "cmd" when there is none or it is not a plain name.
func c12FirstDir(m module.Version, es []zipuEntry) string {
	prefix := m.Path + "@" + m.Version + "/"
	for _, e := range es {
		if !strings.HasPrefix(e.name, prefix) {
			continue
		}
		rel := e.name[len(prefix):]
		i := strings.IndexByte(rel, '/')
		if i <= 0 || i == len(rel)-1 {
			continue
		}
		if el := rel[:i]; len(el) < 100 && module.CheckFilePath(el) == nil {
			return el
		}
	}
	return "cmd"
}

// c12Snapshot: like zipuSnapshot, and symbolic links are recorded with their destination text.
func c12Snapshot(root string) map[string]string {
	out := map[string]string{}
	filepath.Walk(root, func(p string, info os.FileInfo, err error) error {
		if err != nil {
			return nil
		}
		rel, _ := filepath.Rel(root, p)
		switch {
		case info.IsDir():
			out[rel] = "d"
		case info.Mode().IsRegular():
			data, _ := os.ReadFile(p)
			out[rel] = fmt.Sprintf("f %d %08x", len(data), crc32.ChecksumIEEE(data))
		case info.Mode()&os.ModeSymlink != 0:
			dest, _ := os.Readlink(p)
			out[rel] = "l " + dest
		default:
			out[rel] = "o " + info.Mode().String()
		}
		return nil
	})
	return out
}

type c12Obs struct {
	zipuUnzipObs
	setupErr error
	inside   int // number of paths created or changed inside the directory the argument denotes (the directory itself included)
}

// c12UnzipShape prepares <tmp>/parent (a sibling file, the target in the given shape) and <tmp>/elsewhere, calls Unzip
// with the shaped argument and compares snapshots of <tmp> taken before and after. "The target directory" is the
// directory the argument denotes: <tmp>/parent/real for the link shapes, <tmp>/parent/target otherwise.
func c12UnzipShape(tmp, zp string, m module.Version, es []zipuEntry, shape string) c12Obs {
	sh := c12ParseShape(shape)
	var o c12Obs
	step := func(err error) {
		if err != nil && o.setupErr == nil {
			o.setupErr = err
		}
	}
	parent := filepath.Join(tmp, "parent")
	step(os.MkdirAll(parent, 0o755))
	step(os.WriteFile(filepath.Join(parent, "sibling"), []byte("sibling"), 0o644))
	step(os.Mkdir(filepath.Join(tmp, "elsewhere"), 0o755))
	realName := "target"
	if sh.linked() {
		realName = "real"
	}
	real := filepath.Join(parent, realName)
	switch sh.state {
	case 'e':
		step(os.Mkdir(real, 0o755))
	case 'n':
		step(os.Mkdir(real, 0o755))
		switch sh.content {
		case 'd':
			step(os.Mkdir(filepath.Join(real, "sub"), 0o755))
		case 'g':
			step(os.WriteFile(filepath.Join(real, "go.mod"), []byte("module example.com/old\n"), 0o644))
		case 'k':
			step(os.Symlink(filepath.Join("..", "..", "elsewhere"), filepath.Join(real, c12FirstDir(m, es))))
		case 'o':
			step(os.Symlink("nowhere", filepath.Join(real, "x")))
		default:
			step(os.WriteFile(filepath.Join(real, "x"), []byte("x"), 0o644))
		}
	case 'f':
		step(os.WriteFile(real, []byte("file"), 0o644))
	}
	arg := filepath.Join(parent, "target")
	switch sh.via {
	case 'l', 's':
		step(os.Symlink("real", arg))
	case 'a':
		step(os.Symlink(real, arg))
	case 'c':
		step(os.Symlink("real", filepath.Join(parent, "mid")))
		step(os.Symlink("mid", arg))
	case 'p':
		step(os.Symlink("parent", filepath.Join(tmp, "plink")))
		arg = filepath.Join(tmp, "plink", "target")
	}
	if sh.via == 't' || sh.via == 's' {
		arg += string(filepath.Separator)
	}
	if o.setupErr != nil {
		o.out = "harness-error"
		return o
	}
	before := c12Snapshot(tmp)
	o.err = modzip.Unzip(arg, m, zp)
	after := c12Snapshot(tmp)
	o.files = map[string][]byte{}
	relT := filepath.Join("parent", realName)
	var files, dirs []string
	for p, v := range after {
		if b, ok := before[p]; ok && b == v {
			continue
		}
		if p == relT {
			if _, was := before[p]; v == "d" && !was {
				dirs = append(dirs, ".")
				o.targetNew = true
				o.inside++
			} else {
				o.outside = append(o.outside, p)
			}
			continue
		}
		if strings.HasPrefix(p, relT+string(filepath.Separator)) {
			o.inside++
			rel := filepath.ToSlash(p[len(relT)+1:])
			if v == "d" {
				dirs = append(dirs, hx(rel))
			} else {
				files = append(files, hx(rel))
				data, _ := os.ReadFile(filepath.Join(tmp, p))
				o.files[rel] = data
			}
			continue
		}
		o.outside = append(o.outside, p)
	}
	for p := range before {
		if _, ok := after[p]; !ok {
			o.outside = append(o.outside, "-"+p)
		}
	}
	sort.Strings(files)
	sort.Strings(dirs)
	sort.Strings(o.outside)
	o.dirs = dirs
	for _, p := range o.outside {
		files = append(files, "!"+hx(p))
	}
	show := func(l []string) string {
		if len(l) == 0 {
			return "_"
		}
		return strings.Join(l, ",")
	}
	o.out = zipuErrKind(o.err) + " files=" + show(files) + " dirs=" + show(dirs)
	return o
}

// c12ShapeArchives: the archives of the fixed shape sweep — accepted with a nested directory, accepted and flat,
// rejected (escaping name), accepted by CheckZip but with one entry declaring a byte more than it holds (so that
// extraction starts writing and then fails).
func c12ShapeArchives() [][]zipuEntry {
	pfx := "example.com/m@v1.0.0/"
	file := func(p, c string) zipuEntry { return zipuEntry{name: pfx + p, decl: uint64(len(c)), content: []byte(c)} }
	lying := file("sub/b.go", "package b\n")
	lying.decl++
	return [][]zipuEntry{
		{file("go.mod", "module example.com/m\n"), file("cmd/main.go", "package main\n"), file("a.go", "package a\n")},
		{file("only.txt", "text")},
		{file("go.mod", "module example.com/m\n"), file("../x", "esc")},
		{file("go.mod", "module example.com/m\n"), lying, file("z.go", "package z\n")},
	}
}

func init() {
	impls["zip.unzipat"] = func(a []string) string {
		m := module.Version{Path: unhx(a[0]), Version: unhx(a[1])}
		es := zipuParseEntries(a[4])
		return zipuWithArchive(atoi64(a[2]), es, func(tmp, zp string) string {
			return c12UnzipShape(tmp, zp, m, es, a[3]).out
		})
	}
}
