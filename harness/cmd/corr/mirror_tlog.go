package main

func init() {
	mirror("tlog.storedhashindex", "tlog.splitstoredhashindex", "tlog.storedhashcount", "tlog.treehash",
		"tlog.proverecord", "tlog.provetree", "tlog.checkrecord", "tlog.checktree",
		"tlog.formattree", "tlog.parsetree", "tlog.formatrecord", "tlog.parserecord")
}
