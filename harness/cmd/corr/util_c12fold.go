package main

// C12 — letters whose case fold has a SHORTER UTF-8 encoding, in DIRECTORY components of entry names.
//
// Input class added for the clause "no two entries collide under case folding" (entries AND the directories above
// them). The archive stream had non-ASCII fold partners only as whole one-letter names or as one replaced letter of a
// case variant of an existing entry (k -> KELVIN SIGN, s -> LONG S, mostly in the last element), and its sibling
// directories differed in an ASCII letter of names that were ASCII throughout. For all of those the folded path and the
// original path have slashes at the same BYTE offsets, so code that carries a byte offset (a cut position, a length, a
// slice bound) from the folded string over to the original — or remembers an ancestor directory by anything other than
// its exact name — behaves like code that handles both strings separately. The class is the product
//
//	every letter L whose fold minimum is shorter in UTF-8 (computed from package unicode: 34 letters in Unicode 15,
//	  saving 2 bytes for KELVIN SIGN, 1 byte for LONG S, ANGSTROM SIGN, OHM SIGN, CAPITAL SHARP S, U+1C80.., U+2C62.., U+A78D..)
//	x where L stands: in a directory component directly above the entries, in a grandparent directory, twice in one
//	  component, below another directory, and (as a control) only in the last element
//	x what accompanies that directory:
//	    a sibling directory with the same fold that differs from it in ONE ASCII letter 0, 1 or 2 bytes before its end
//	      (a collision), at the same depth and at different depths;
//	    the same directory with L replaced by its fold (a collision);
//	    an explicit directory entry for the directory, before or after the files in it, and nested (valid);
//	    an explicit directory entry for the case-variant sibling (a collision);
//	    a file of the same name as the directory (file versus directory);
//	    further files in the same directory, and a sibling that differs in its last byte WITHOUT being fold-equal (valid).
//
// The oracle clauses are the existing ones (an accepted archive has no two entries or ancestor directories that are
// equal under strings.EqualFold without being the same directory; Unzip succeeds iff CheckZip accepts; the extracted
// tree equals the entries). The valid members of the class are compared with the model by the correspondence: that a
// restriction-free archive IS accepted is not a clause of C12 (the property says what acceptance implies), so a
// refusal of a valid archive by both CheckZip and Unzip shows as a model/implementation disagreement, not as an
// oracle report.

import (
	"unicode"
	"unicode/utf8"
)

type c12ShortFoldLetter struct {
	l, fold string // the letter and what strToFold makes of it
	save    int    // bytes that folding saves
	ascii   bool   // the fold is ASCII (strToFold's fast path applies to the folded form)
}

// c12FoldMin is the documented folding of one rune: the smallest member of its SimpleFold orbit, A-Z as a-z.
func c12FoldMin(r rune) rune {
	for {
		r0 := r
		r = unicode.SimpleFold(r0)
		if r <= r0 {
			break
		}
	}
	if 'A' <= r && r <= 'Z' {
		r += 'a' - 'A'
	}
	return r
}

// c12ShortFold: every letter (CheckFilePath admits letters only) whose fold is shorter in UTF-8 than itself.
var c12ShortFold = func() []c12ShortFoldLetter {
	var out []c12ShortFoldLetter
	for r := rune(utf8.RuneSelf); r <= unicode.MaxRune; r++ {
		if !unicode.IsLetter(r) {
			continue
		}
		if f := c12FoldMin(r); utf8.RuneLen(f) < utf8.RuneLen(r) {
			out = append(out, c12ShortFoldLetter{l: string(r), fold: string(f), save: utf8.RuneLen(r) - utf8.RuneLen(f), ascii: f < utf8.RuneSelf})
		}
	}
	return out
}()

// c12FoldTails: pairs of ASCII tails of equal length and equal fold that differ in one letter k bytes before the end.
var c12FoldTails = [][2]string{{"ab", "aB"}, {"ab", "Ab"}, {"abc", "Abc"}, {"r", "R"}, {"elvin", "elviN"}, {"rc", "Rc"}}

const c12FoldFamilies = 16

// c12ShortFoldFamily: one small archive (names relative to the module prefix; a trailing slash makes a directory entry).
func c12ShortFoldFamily(sf c12ShortFoldLetter, fam int, tail [2]string) []string {
	L, t1, t2 := sf.l, tail[0], tail[1]
	switch fam {
	case 0: // sibling directories at the root, same fold, different names
		return []string{L + t1 + "/x.go", L + t2 + "/y.go"}
	case 1: // the same below another directory
		return []string{"go.mod", "pkg/" + L + t1 + "/x.go", "pkg/" + L + t2 + "/y.go"}
	case 2: // at different depths
		return []string{L + t1 + "/d/x.go", L + t2 + "/y.go"}
	case 3: // L in the grandparent, the differing letter in the parent
		return []string{L + "/" + t1 + "/x.go", L + "/" + t2 + "/y.go"}
	case 4: // explicit directory entry for the case-variant sibling
		return []string{L + t1 + "/", L + t2 + "/y.go"}
	case 5: // the directory against itself with L folded
		return []string{L + t1 + "/x.go", sf.fold + t1 + "/y.go"}
	case 6: // valid: explicit directory entry, then a file in it
		return []string{L + t1 + "/", L + t1 + "/x.go"}
	case 7: // valid: file first, directory entry afterwards
		return []string{L + t1 + "/x.go", L + t1 + "/", "go.mod"}
	case 8: // valid: several entries walk up through the same directory
		return []string{L + t1 + "/x.go", L + t1 + "/y.go", L + t1 + "/sub/z.go"}
	case 9: // valid: siblings that differ in their last byte and are not fold-equal
		return []string{L + "ab/x.go", L + "ac/y.go", L + "a/z.go"}
	case 10: // valid: nested explicit directory entries
		return []string{"pkg/", "pkg/" + L + t1 + "/", "pkg/" + L + t1 + "/sub/", "pkg/" + L + t1 + "/sub/x.go"}
	case 11: // a file and a directory of the same name
		return []string{L + t1, L + t1 + "/x.go"}
	case 12: // L twice in one component (twice the saving)
		return []string{L + L + t1 + "/x.go", L + L + t2 + "/y.go"}
	case 13: // control: L only in the last element
		return []string{"d/" + L + t1 + ".go", "d/" + L + t2 + ".go"}
	case 14: // valid: L in a directory, case variants of the FILE names in two different directories
		return []string{L + t1 + "/x.go", L + t1 + "x/X.go"}
	}
	// three levels, the saving of two components adding up
	return []string{L + "/" + L + "/" + t1 + "/x.go", L + "/" + L + "/" + t2 + "/y.go", "LICENSE"}
}

// c12ShortFoldSweep: every letter of the class with every family and every tail in the thorough tier; in the quick
// tier all families for the letters whose fold is ASCII and five rotating families for each of the others, the tail
// rotating as well (every family meets every tail and at least ten letters).
func c12ShortFoldSweep() [][]zipuEntry {
	pfx := "example.com/m@v1.0.0/"
	var out [][]zipuEntry
	mk := func(names []string) {
		var es []zipuEntry
		for _, n := range names {
			e := zipuEntry{name: pfx + n}
			if n[len(n)-1] != '/' {
				e.content = []byte("content of " + n + "\n")
				if n == "go.mod" {
					e.content = []byte("module example.com/m\n")
				}
				e.decl = uint64(len(e.content))
			}
			es = append(es, e)
		}
		out = append(out, es)
	}
	for i, sf := range c12ShortFold {
		for fam := 0; fam < c12FoldFamilies; fam++ {
			switch {
			case thorough:
				for _, t := range c12FoldTails {
					mk(c12ShortFoldFamily(sf, fam, t))
				}
			case sf.ascii:
				mk(c12ShortFoldFamily(sf, fam, c12FoldTails[(i+fam)%len(c12FoldTails)]))
				mk(c12ShortFoldFamily(sf, fam, c12FoldTails[(i+fam+1)%len(c12FoldTails)]))
			case (fam+3*i)%c12FoldFamilies < 5:
				mk(c12ShortFoldFamily(sf, fam, c12FoldTails[(i+fam)%len(c12FoldTails)]))
			}
		}
	}
	return out
}

// c12ShortFoldMutation: entries to add to a random archive — a directory (at the root or below dir) whose name holds a
// letter of the class, with one of the companions of the class.
func c12ShortFoldMutation(r *Rand, dir string) []string {
	sf := c12ShortFold[r.Intn(len(c12ShortFold))]
	if r.Chance(40) { // the letters with an ASCII fold half of the time
		for _, c := range c12ShortFold {
			if c.ascii && r.Bool() {
				sf = c
			}
		}
	}
	el := r.Pick([]string{"", "", "a", "pk", "x"}) + sf.l
	if r.Chance(20) {
		el += sf.l
	}
	t := c12FoldTails[r.Intn(len(c12FoldTails))]
	d1, d2 := dir+el+t[0], dir+el+t[1]
	if r.Chance(25) { // the differing letter one level further down
		d1, d2 = dir+el+"/"+t[0], dir+el+"/"+t[1]
	}
	switch r.Intn(8) {
	case 0, 1:
		return []string{d1 + "/x.go", d2 + "/y.go"}
	case 2:
		return []string{d1 + "/", d1 + "/x.go"}
	case 3:
		return []string{d1 + "/x.go", d1 + "/"}
	case 4:
		return []string{d1 + "/x.go", d1 + "/y.go"}
	case 5:
		return []string{d1 + "/sub/x.go", d2 + "/"}
	case 6:
		return []string{d1 + "/x.go", dir + r.Pick([]string{"", "", "a", "pk", "x"}) + sf.fold + t[0] + "/y.go"}
	}
	return []string{d1 + "/x.go", d1}
}
