package main

// C01 — the checksum-database client never returns or caches unauthenticated data.
//
// Phase 1 (implementation only): fault enumeration on the real sumdb.Client over in-process ClientOps
// (util_client.go), judged by the oracles of util_cloracle.go against the true logs.
// The scenarios are `client.run …` lines (replayable with `corr impl`).
// Phase 2 (correspondence): Gen cuts the same scenario runs into replay sessions (`client.lookup`, util_clreplay.go) that
// the Lean sequential client model (lean/ModVerif/Model/Client.lean) must answer identically.

import (
	"bytes"
	"fmt"
	"strings"

	"golang.org/x/mod/sumdb/tlog"
)

func init() {
	register(&Prop{ID: "C01", Gen: c01Gen, Oracle: c01Oracle,
		Rule: "fault enumeration over (log size, tile height, record id, cache state, fault): bit flips at every position class of the lookup response (id / text / blank line / tree text / signature) and of every tile fetched, truncation, extension, extra signature, swap of responses, stale head, forged record with recomputed tiles (leaf only … all levels) under honest / attacker / spliced signatures, cache-file corruption, partial tiles dropped by the server with the complete tile served as true prefix + made-up tail; followed by a restart against the honest server (same tree, and a tree that has grown past the tiles of the faulty run); honest deep trees at tile height 1 (several hundred to thousands of records, more than 16 tiles per ReadHashes plan); logs with name-related records (one module path a proper suffix / prefix of another, same version) with the authentic responses swapped between them; co-signed heads (k unknown-key signature lines after / before the server's, distinct or repeated, k swept up to, at and beyond the 100-line limit of the note format — honest up to the limit); legal non-ASCII key names (honest servers and co-signing witnesses whose names contain a character with the UTF-8 continuation byte b, for every b in 0x80..0xBF and every position of the byte in 2-, 3- and 4-byte encodings; keys, verifier keys and signature lines laid out by hand); short complete tile where a partial one is wanted (partial tile gone, the complete tile — made up, true, or from the cache — cut to k bytes, k below / at / above W*32) with the same client instance then asked for two other records; non-trivial = the fault changes at least one response actually read; distinct by scenario line"})
}

func c01Gen(g *Gen, n int) {
	// `client.lookup`: every client instance of a scenario run (the faulty instance and the restarted one) becomes one
	// replay session — the answers the real Client was given, in order, per file — on which the Lean sequential client
	// model (Model/Client.lean) must produce the same results, the same WriteCache/WriteConfig/SecurityError calls
	// and the same multiset of reads.  Sessions are additionally mutated at the replay level (write conflicts, lost
	// answers, bit flips in answers, GONOSUMDB lists).
	// `client.trace`: the stored-head / in-memory-head part of the same runs is validated against the Lean latest-head
	// machine with a hostile verification layer (`hostile=1`).
	wseed := g.U64()%1000 + 1
	for emitted := 0; emitted < n; {
		N := 1 + g.Intn(12)
		h := 1 + g.Intn(2)
		if thorough {
			N, h = 1+g.Intn(40), 1+g.Intn(4)
		}
		id := g.Intn(N)
		byKind := map[string][]c01Case{}
		var kinds []string
		c01Enumerate(g.Rand, wseed, N, h, id, func(c c01Case) {
			k := c.tag
			if i := strings.LastIndexByte(k, '/'); i >= 0 && strings.HasPrefix(k, "fault/") {
				k = "fault/" + k[i+1:]
			}
			if _, ok := byKind[k]; !ok {
				kinds = append(kinds, k)
			}
			byKind[k] = append(byKind[k], c)
		})
		if len(kinds) == 0 {
			continue
		}
		for k := 0; k < 12 && emitted < n; k++ {
			cs := byKind[kinds[g.Intn(len(kinds))]]
			c := cs[g.Intn(len(cs))]
			sc, ok := clParseScenario(strings.Fields(c.line)[1:])
			if !ok {
				continue
			}
			out := clRunScenario(sc)
			if out.bad || out.hang {
				emitted++
				continue
			}
			kind := strings.SplitN(c.tag, "/", 2)[0]
			if kind == "fault" {
				kind = c.tag[strings.LastIndexByte(c.tag, '/')+1:]
			}
			for si, s := range clSessions(out) {
				role := "faulty"
				if c.honest {
					role = "honest"
				} else if si > 0 {
					role = "restart"
				}
				g.Emit(s.line(), !c.honest, "lookup/"+role, "lookup/"+kind)
				emitted++
				if g.Intn(3) == 0 {
					if m, tag := c01MutateSession(g, s); m != nil {
						g.Emit(m.line(), true, "lookup/mut-"+tag)
						emitted++
					}
				}
			}
			if l, ok := clLatestTrace(out, true); ok {
				g.Emit(l, !c.honest, "trace/"+strings.SplitN(c.tag, "/", 2)[0])
				emitted++
			} else {
				g.st.Tags["trace-not-expressible"]++
			}
		}
	}
	// growth between the faulty run and the restart (partial-tile-dropped faults) and deep trees at tile height 1:
	// the same runs as in the oracle, as replay sessions
	{
		var cases []c01Case
		for k := 0; k < 6; k++ {
			N, h := 1+g.Intn(12), 1+g.Intn(2)
			if thorough {
				N, h = 1+g.Intn(40), 1+g.Intn(4)
			}
			c01EnumerateGrowth(g.Rand, wseed, N, N+1+g.Intn(3<<uint(h)), h, func(c c01Case) { cases = append(cases, c) })
		}
		for k := 0; k < n/80+1 && len(cases) > 0; k++ {
			c01EmitCase(g, cases[g.Intn(len(cases))])
		}
		cases = nil
		c01EnumerateDeep(g.Rand, wseed, func(c c01Case) { cases = append(cases, c) })
		for k := 0; k < n/400+2 && len(cases) > 0; k++ {
			c01EmitCase(g, cases[g.Intn(len(cases))])
		}
		// name-related records (responses swapped between a module path and a longer one that ends in / starts with it)
		// and co-signed heads (number of unknown-key signature lines up to and beyond the limit): the same runs as in
		// the oracle, as replay sessions; at least one swap between related names and one head exactly at the limit
		cases = nil
		sseed := clSibSeedBase + g.U64()%1000
		for k := 0; k < 3; k++ {
			N, h := 2+g.Intn(11), 1+g.Intn(2)
			if thorough {
				N, h = 2+g.Intn(23), 1+g.Intn(4)
			}
			c01EnumerateSiblings(g.Rand, sseed, N, h, func(c c01Case) { cases = append(cases, c) })
		}
		c01EmitSample(g, cases, n/100+4, "/lookup-sibswap")
		cases = nil
		for k := 0; k < 2; k++ {
			N, h := 1+g.Intn(12), 1+g.Intn(2)
			if thorough {
				N, h = 1+g.Intn(40), 1+g.Intn(4)
			}
			c01EnumerateCosigned(g.Rand, wseed, N, h, g.Intn(N), func(c c01Case) { cases = append(cases, c) })
		}
		// (the regenerated Lean code needs about a second per hundred signature lines it opens: a fixed, small number of
		// heads near the limit — always one exactly at it — and a few heads with a handful of co-signatures)
		var atLimit, near, few []c01Case
		for _, c := range cases {
			switch c.tag[strings.LastIndexByte(c.tag, '/')+1:] {
			case "at-limit":
				atLimit = append(atLimit, c)
			case "few":
				few = append(few, c)
			default:
				near = append(near, c)
			}
		}
		mult := 1
		if thorough {
			mult = 4
		}
		c01EmitSample(g, atLimit, mult, "")
		c01EmitSample(g, near, mult, "")
		c01EmitSample(g, few, 3*mult, "")
		// legal non-ASCII key names: witnesses (scenario runs) and servers (self-contained honest runs, util_c01names.go)
		cases = nil
		{
			N := 1 + g.Intn(12)
			c01EnumerateCosignedNames(g.Rand, wseed, N, 1+g.Intn(2), g.Intn(N), func(c c01Case) { cases = append(cases, c) })
		}
		c01EmitSample(g, cases, 2*mult, "")
		c01NamesGen(g, wseed, n/250+3)
		// short complete tile where a partial one is wanted, with the same instance continuing
		cases = nil
		for k := 0; k < 4; k++ {
			c01EnumerateShortFull(g.Rand, wseed, 3+g.Intn(10), 1+g.Intn(2), func(c c01Case) { cases = append(cases, c) })
		}
		for k := 0; k < n/200+4 && len(cases) > 0 && clConfirmedHangs < 2; k++ {
			// (a scenario that hangs is not emitted, and costs the full timeout: the oracle reports it; stop after two)
			c01EmitCase(g, cases[g.Intn(len(cases))])
		}
	}
	// forks (SecurityError path of checkTrees): sequential C13 scenarios over two logs sharing a prefix
	for k := 0; k < n/6+1; {
		nA, nB := 2+g.Intn(9), 2+g.Intn(9)
		p := g.Intn(min(nA, nB))
		var cases []c13Case
		c13Enumerate(g.Rand, wseed, nA, p, nB, 1+g.Intn(2), func(c c13Case) {
			if !strings.Contains(c.line, " par=") {
				cases = append(cases, c)
			}
		})
		if len(cases) == 0 {
			k++
			continue
		}
		for j := 0; j < 4; j++ {
			c := cases[g.Intn(len(cases))]
			sc, ok := clParseScenario(strings.Fields(c.line)[1:])
			if !ok {
				continue
			}
			out := clRunScenario(sc)
			k++
			if out.bad || out.hang {
				continue
			}
			for _, s := range clSessions(out) {
				g.Emit(s.line(), true, "lookup/fork")
				if g.Intn(4) == 0 {
					if m, tag := c01MutateSession(g, s); m != nil {
						g.Emit(m.line(), true, "lookup/mut-"+tag)
					}
				}
			}
		}
	}
	// O3 and a GONOSUMDB instance, as replay sessions
	w := clGetWorld(1, 5, 0, 0)
	o := w.A.recs[0]
	op, _ := clLookupFile(o.path, o.vers)
	for _, line := range []string{
		fmt.Sprintf("client.run w=1:5:0:0 h=2 f+=L/swap/%s new=0 look=0:x%s:%s", hx(op), hx("go.sum"), hx("database")),
		fmt.Sprintf("client.run w=1:5:0:0 h=2 nosumdb=0:%s new=0 look=0:A0 look=0:A1 look=0:A2", hx(w.A.recs[0].path+",*.corp.example")),
	} {
		sc, _ := clParseScenario(strings.Fields(line)[1:])
		for _, s := range clSessions(clRunScenario(sc)) {
			g.Emit(s.line(), true, "lookup/special")
		}
	}
}

// c01EmitSample emits k seed-chosen cases; the first one is chosen among the cases whose tag ends in `must` (if any).
func c01EmitSample(g *Gen, cases []c01Case, k int, must string) {
	if len(cases) == 0 {
		return
	}
	var pref []c01Case
	for _, c := range cases {
		if strings.HasSuffix(c.tag, must) {
			pref = append(pref, c)
		}
	}
	if len(pref) > 0 {
		c01EmitCase(g, pref[g.Intn(len(pref))])
		k--
	}
	for ; k > 0; k-- {
		c01EmitCase(g, cases[g.Intn(len(cases))])
	}
}

// c01EmitCase runs one scenario and emits every client instance of it as a replay session.
func c01EmitCase(g *Gen, c c01Case) {
	sc, ok := clParseScenario(strings.Fields(c.line)[1:])
	if !ok {
		return
	}
	out := clRunScenario(sc)
	if out.bad || out.hang {
		return
	}
	kind := strings.SplitN(c.tag, "/", 2)[0]
	if kind == "fault" {
		kind = c.tag[strings.LastIndexByte(c.tag, '/')+1:]
	} else if i := strings.IndexByte(c.tag, '/'); i >= 0 {
		kind = c.tag[i+1:]
	}
	for si, s := range clSessions(out) {
		role := "faulty"
		if c.honest {
			role = "honest"
		} else if si > 0 {
			role = "restart"
		}
		g.Emit(s.line(), !c.honest, "lookup/"+role, "lookup/"+kind)
	}
}

// c01MutateSession perturbs a replay session directly (the environment of the op is explicit, so any perturbation is
// again a well-defined environment for both sides).
func c01MutateSession(g *Gen, s *clSession) (*clSession, string) {
	m := &clSession{h: s.h, nosumdb: s.nosumdb, pub: s.pub, looks: s.looks}
	m.reads = append([]clReplayRead(nil), s.reads...)
	m.writes = append([]string(nil), s.writes...)
	switch g.Intn(6) {
	case 5:
		// SetTileHeight not called: the default height 8 (other tile names: the recorded tile answers are never asked for)
		m.h = 0
		return m, "default-height"
	case 0:
		// ErrWriteConflict before the recorded results; the configuration is then read again: repeat its last answer
		m.writes = append([]string{"c"}, m.writes...)
		for i := len(m.reads) - 1; i >= 0; i-- {
			if m.reads[i].kind == "f" && strings.HasSuffix(m.reads[i].file, "/latest") {
				m.reads = append(m.reads, m.reads[i])
				break
			}
		}
		if g.Intn(3) == 0 {
			m.writes = append([]string{"c", "c"}, m.writes...)
		}
		return m, "conflict"
	case 1:
		if len(m.reads) == 0 {
			return nil, ""
		}
		i := g.Intn(len(m.reads))
		m.reads[i].ok, m.reads[i].data = false, nil
		return m, "lost-answer"
	case 2:
		var idx []int
		for i, r := range m.reads {
			if r.ok && len(r.data) > 0 {
				idx = append(idx, i)
			}
		}
		if len(idx) == 0 {
			return nil, ""
		}
		i := idx[g.Intn(len(idx))]
		d := append([]byte(nil), m.reads[i].data...)
		d[g.Intn(len(d))] ^= 1 << uint(g.Intn(8))
		m.reads[i].data = d
		return m, "flip-answer"
	case 3:
		if len(m.writes) == 0 {
			return nil, ""
		}
		m.writes[g.Intn(len(m.writes))] = "e"
		return m, "write-refused"
	default:
		if len(m.looks) == 0 {
			return nil, ""
		}
		m.nosumdb = []string{m.looks[0][0], "*.example.com,rsc.io", "golang.org/x,github.com/*/go-SDK", m.looks[0][0] + "/sub"}[g.Intn(4)]
		return m, "nosumdb"
	}
}

type c01Case struct {
	line   string
	honest bool // no fault at all: must succeed
	remote bool // remote faults only: after the restart against the honest server the lookup must succeed
	tag    string
	pre    int  // history: number of honest lookups of OTHER records on the same client instance before the faults are switched on
	always bool // never dropped by the budget sampling of the oracle
	cont   int  // continuation: number of further lookups (other records, same client instance, faults still on) between the /go.mod repeat and the restart
}

// c01Positions: representative byte offsets of every position class of a lookup response.
func c01Positions(resp []byte) (flips map[string][]int, truncs []int) {
	flips = map[string][]int{}
	i := bytes.IndexByte(resp, '\n')
	j := bytes.Index(resp, []byte("\n\n"))
	if i < 0 || j < 0 {
		return flips, nil
	}
	flips["id"] = []int{0, i - 1, i}
	flips["text"] = []int{i + 1, (i + 1 + j) / 2, j - 1, j}
	flips["blank"] = []int{j + 1}
	rest := j + 2
	// tree text: three lines, then a blank line, then signature lines
	l1 := rest + bytes.IndexByte(resp[rest:], '\n')
	l2 := l1 + 1 + bytes.IndexByte(resp[l1+1:], '\n')
	l3 := l2 + 1 + bytes.IndexByte(resp[l2+1:], '\n')
	flips["tree"] = []int{rest, l1 - 1, l1 + 1, l2 - 1, l2 + 1, (l2 + l3) / 2, l3 - 1, l3}
	sig := l3 + 2
	if sig < len(resp) {
		sp1 := sig + bytes.IndexByte(resp[sig:], ' ')
		sp2 := sp1 + 1 + bytes.IndexByte(resp[sp1+1:], ' ')
		flips["sigsep"] = []int{l3 + 1}
		flips["sig"] = []int{sig, sp1 + 1, sp2 - 1, sp2 + 1, sp2 + 6, (sp2 + len(resp)) / 2, len(resp) - 3, len(resp) - 2, len(resp) - 1}
	}
	truncs = []int{0, 1, i, i + 1, (i + 1 + j) / 2, j + 1, j + 2, l1 + 1, l2 + 2, l3, l3 + 1, l3 + 2, (l3 + len(resp)) / 2, len(resp) - 1}
	return flips, truncs
}

// c01Enumerate lists the scenarios for one (world, N, h, id).
func c01Enumerate(r *Rand, wseed uint64, N, h, id int, emit func(c01Case)) {
	w := clGetWorld(wseed, N, 0, 0)
	rec := w.A.recs[id]
	lpath, ok := clLookupFile(rec.path, rec.vers)
	if !ok {
		return
	}
	head := fmt.Sprintf("client.run w=%d:%d:0:0 h=%d", wseed, N, h)
	key := "A" + itoa(id)
	tail := fmt.Sprintf("look=0:%s look=0:%sm f-= new=0 look=0:%s", key, key, key)
	// history: the client instance is created and answers `hist` honestly BEFORE the faults are switched on
	mkh := func(setup []string, hist []string, faults []string, cc string) string {
		parts := []string{head}
		parts = append(parts, setup...)
		if cc != "" {
			parts = append(parts, cc)
		}
		if len(hist) > 0 {
			parts = append(parts, "new=0")
			parts = append(parts, hist...)
		}
		for _, f := range faults {
			parts = append(parts, "f+="+f)
		}
		if len(hist) == 0 {
			parts = append(parts, "new=0")
		}
		parts = append(parts, tail)
		return strings.Join(parts, " ")
	}
	// cache states
	type setup struct {
		name   string
		steps  []string
		cached bool // the looked-up record is in the warm cache
		k      int
		hist   []string // honest lookups on the same client instance before the faults are switched on
	}
	setups := []setup{{"cold", nil, false, 0, nil}, {"warm-full", []string{fmt.Sprintf("warm=0:A@%d:*", N)}, true, N, nil}}
	seenK := map[int]bool{}
	for _, k := range []int{1, id, id + 1, N - 1} {
		if k >= 1 && k < N && !seenK[k] {
			seenK[k] = true
			setups = append(setups, setup{fmt.Sprintf("warm-%d", k), []string{fmt.Sprintf("warm=0:A@%d:*", k)}, id < k, k, nil})
		}
	}
	// HISTORY setups (class added for the "replay of a verified head" adversary): every other setup presents the faulty
	// response to a client instance that has not yet verified the head that response carries (cold: nothing stored;
	// warm-k: the stored head is the smaller A@k; warm-full: the record is cached, no response is fetched).  A client
	// that remembers what it has verified (a head, a signature, a text) can only go wrong on the SECOND message with
	// that content, so here the signed head text of the faulty response has been verified by the same instance before:
	//   cfg-same   the stored head IS the head the server serves (verified when the client initialises), cold cache
	//   hist-cold  an honest lookup of another record (same served head) on the same instance, then the faults
	//   hist-warm  the same on top of a partially warm cache (stored head smaller; the honest lookup moves it forward)
	setups = append(setups, setup{"cfg-same", []string{fmt.Sprintf("cfg=A@%d", N)}, false, 0, nil})
	if N > 1 {
		j := (id + 1) % N
		setups = append(setups, setup{"hist-cold", nil, false, 0, []string{"look=0:A" + itoa(j)}})
		if N > 2 {
			j2 := (id + 2) % N
			k := min(id, j, j2)
			if k >= 1 {
				// both records lie beyond the warm part: both lookups go to the network
				setups = append(setups, setup{"hist-warm", []string{fmt.Sprintf("warm=0:A@%d:*", k)}, false, 0,
					[]string{"look=0:A" + itoa(j), "look=0:A" + itoa(j2) + "m"}})
			}
		}
	}
	mk := func(setup []string, faults []string, cc string) string { return mkh(setup, nil, faults, cc) }
	bits := []int{r.Intn(8)}
	if thorough {
		bits = []int{0, 1, 2, 3, 4, 5, 6, 7}
	}
	for _, su := range setups {
		pre := len(su.hist)
		emit(c01Case{line: mkh(su.steps, su.hist, nil, ""), honest: true, remote: true, tag: "honest/" + su.name, pre: pre})
		// which responses does the honest run read remotely in this cache state?
		sc, _ := clParseScenario(strings.Fields(mkh(su.steps, su.hist, nil, ""))[1:])
		dry := clRunScenario(sc)
		var tilePaths []string
		sawLookup := false
		faultsFrom := 0 // the faults are active from the first lookup after the history
		if pre > 0 && len(dry.looks) > pre {
			faultsFrom = dry.looks[pre].from
		}
		for _, ev := range dry.env.trace {
			if ev.C != 0 || ev.Kind != "rr" || ev.Err != "" || ev.Seq < faultsFrom {
				continue
			}
			if strings.HasPrefix(ev.File, "/tile/") {
				tilePaths = append(tilePaths, ev.File)
			} else if ev.File == lpath {
				sawLookup = true
			}
		}
		// the restart reads again; de-duplicate
		tilePaths = c01Uniq(tilePaths)
		single := [][]string{}
		var tailIdx []int // indexes into single: faults confined to what follows the signed text of the tree note
		if sawLookup {
			resp, err := w.A.snap(N).get(lpath)
			if err != nil {
				continue
			}
			flips, truncs := c01Positions(resp)
			sigStart := len(resp) // first byte after the signed text of the tree note
			if _, text, _, ok := clSplitLookup(resp); ok {
				sigStart = bytes.Index(resp, []byte("\n\n")) + 2 + len(text)
			}
			for _, cls := range []string{"id", "text", "blank", "tree", "sigsep", "sig"} {
				for _, off := range flips[cls] {
					for _, b := range bits {
						if off > sigStart { // beyond the blank line that ends the signed text
							tailIdx = append(tailIdx, len(single))
						}
						single = append(single, []string{fmt.Sprintf("L/flip/%d.%d", off, b)})
					}
				}
			}
			for _, t := range truncs {
				if t > sigStart {
					tailIdx = append(tailIdx, len(single))
				}
				single = append(single, []string{fmt.Sprintf("L/trunc/%d", t)})
			}
			for _, k := range []string{"L/ext/1", "L/ext/64", "L/extsig", "L/notree", "L/negid", "L/plusid", "L/err"} {
				if strings.HasPrefix(k, "L/ext/") {
					tailIdx = append(tailIdx, len(single))
				}
				single = append(single, []string{k})
			}
			// altered tail (clMutateTail): record and signed tree text authentic, the signature block replaced by
			// attacker bytes, among them go.sum-shaped lines for the very module@version looked up (the clause "returns
			// EXACTLY the lines of the record" has no other way to fail on an otherwise authentic response)
			for _, v := range []string{"lines", "lines+sig", "sig+lines", "badsig", "empty"} {
				tailIdx = append(tailIdx, len(single))
				single = append(single, []string{"L/tail/" + v})
			}
			if N > 1 {
				o := w.A.recs[(id+1)%N]
				if op, ok := clLookupFile(o.path, o.vers); ok {
					single = append(single, []string{"L/swap/" + hx(op)})
				}
			}
			if len(tilePaths) > 0 {
				single = append(single, []string{"L/swap/" + hx(tilePaths[0])})
			}
			for _, k := range []int{id + 1, N - 1, id, su.k} {
				if k >= 1 && k < N {
					single = append(single, []string{fmt.Sprintf("L/src/A@%d", k)})
				}
			}
			// forged record with everything an attacker can recompute
			F := fmt.Sprintf("F%d@%d", id, N)
			var tileSets [][]string
			tileSets = append(tileSets, nil)
			acc := []string{}
			for L := 0; L < 8; L++ {
				if (N-1)>>(uint(h)*uint(L)) == 0 && L > 0 {
					break
				}
				acc = append(acc, fmt.Sprintf("T%d.%d/src/%s", L, id>>(uint(h)*uint(L+1)), F))
				tileSets = append(tileSets, append([]string(nil), acc...))
			}
			tileSets = append(tileSets, []string{"T*/src/" + F})
			for _, rk := range []string{"src", "sigsrc", "hashsrc", "recsrc"} {
				for _, ts := range tileSets {
					single = append(single, append([]string{"L/" + rk + "/" + F}, ts...))
				}
			}
		}
		for ti, tp := range tilePaths {
			d, err := w.A.snap(N).get(tp)
			if err != nil {
				continue
			}
			P := "P" + hx(tp)
			for _, off := range []int{0, len(d) / 2, len(d) - 1} {
				for _, b := range bits {
					single = append(single, []string{fmt.Sprintf("%s/flip/%d.%d", P, off, b)})
				}
			}
			for _, t := range []int{0, len(d) - 1, len(d) - tlog.HashSize} {
				if t >= 0 {
					single = append(single, []string{fmt.Sprintf("%s/trunc/%d", P, t)})
				}
			}
			single = append(single, []string{P + "/ext/1"}, []string{P + "/ext/32"}, []string{P + "/err"},
				[]string{fmt.Sprintf("%s/src/F%d@%d", P, id, N)})
			if len(tilePaths) > 1 {
				single = append(single, []string{P + "/swap/" + hx(tilePaths[(ti+1)%len(tilePaths)])})
			}
			single = append(single, []string{P + "/swap/" + hx(lpath)})
		}
		if len(tilePaths) > 0 {
			single = append(single, []string{fmt.Sprintf("T*/src/F%d@%d", id, N)}, []string{"T*/err"}, []string{"T*/flip/0.7"})
		}
		// PARTIAL-TILE-DROPPED class (util_clpdrop.go; added because every fault above leaves the partial request and the
		// complete-tile request failing or succeeding TOGETHER, so the "try full tile on server" fallback of readTile — the
		// one place where the client holds hashes of which only a prefix gets authenticated — was never reached): the
		// request for a partial tile fails, the complete tile is served with the true prefix and a made-up tail.  Per
		// partial tile read in this cache state, and for all tiles at once.
		nPartial := 0
		for _, tp := range tilePaths {
			if t, ok := clTileOfPath(tp); ok && t.L >= 0 && t.W < 1<<uint(t.H) {
				nPartial++
				single = append(single, []string{fmt.Sprintf("T%d.%d/pdrop/%s", t.L, t.N, clPdropVariants[r.Intn(3)])})
			}
		}
		if nPartial > 0 {
			single = append(single, []string{"T*/pdrop/" + clPdropVariants[r.Intn(3)]}, []string{"T*/pdrop/honest"})
		}
		// in the history setups one seed-chosen fault of the tail family is exempt from the budget sampling: the
		// (history x altered tail) cell is evaluated for every (N, h, id) whatever the stride
		keep := -1
		if (pre > 0 || su.name == "cfg-same") && len(tailIdx) > 0 {
			keep = tailIdx[r.Intn(len(tailIdx))]
		}
		for i, fs := range single {
			emit(c01Case{line: mkh(su.steps, su.hist, fs, ""), remote: true, tag: "fault/" + su.name + "/" + c01FaultKind(fs), pre: pre, always: i == keep})
		}
		if thorough && len(single) > 1 {
			// double faults: a sample of pairs
			for k := 0; k < len(single); k++ {
				a, b := single[r.Intn(len(single))], single[r.Intn(len(single))]
				emit(c01Case{line: mkh(su.steps, su.hist, append(append([]string(nil), a...), b...), ""), remote: true, tag: "double/" + su.name, pre: pre})
			}
		}
		// warm-corrupted: each file of the warm cache, several mutations
		if su.k > 0 {
			env := clNewEnv(w)
			clWarm(env, 0, w.A.snap(su.k), "*", h)
			files := clSortedFiles(env.caches[0])
			for idx, f := range files {
				n := len(env.caches[0][f])
				muts := []string{fmt.Sprintf("flip/0.%d", bits[0]), fmt.Sprintf("flip/%d.%d", n/2, bits[0]), fmt.Sprintf("flip/%d.0", n-1),
					"trunc/0", fmt.Sprintf("trunc/%d", n-1), "ext/1"}
				if strings.Contains(f, "/tile/") {
					muts = append(muts, fmt.Sprintf("trunc/%d", n-tlog.HashSize), "ext/32")
				} else {
					muts = append(muts, "negid", "notree", "extsig")
					// altered tail in a cache file: after a restart the stored head (same signed text in warm-full) is
					// verified first, then this file is read — the replay-of-a-verified-head history across a restart
					muts = append(muts, "tail/lines", "tail/sig+lines", "tail/badsig")
					// inside the record text (the hashes the caller will trust) and inside the tree note
					fl, _ := c01Positions(env.caches[0][f])
					for _, cls := range []string{"text", "tree", "sig"} {
						for _, off := range fl[cls] {
							muts = append(muts, fmt.Sprintf("flip/%d.%d", off, bits[0]))
						}
					}
				}
				for _, m := range muts {
					emit(c01Case{line: mk(su.steps, nil, fmt.Sprintf("cc=0:%d:%s", idx, m)), tag: "cache/" + su.name})
				}
			}
		}
	}
}

// c01EnumerateGrowth: the log GROWS between the (possibly faulty) run and the restart.  World of M records, the server
// first serves A@N, the restarted client sees the honest A@M and looks up a record that needs the tiles the first
// run has left in the cache, among them the tiles that were partial at N and are wider or complete at M.
// Class added for the partial-tile-dropped fault: what such a run writes under the name of a COMPLETE tile is only
// read back once the tree has grown past that tile, so "restart against the honest server cannot fail" has to be
// asked of a larger tree than the one the faulty run saw (c01Enumerate restarts on the same tree).
func c01EnumerateGrowth(r *Rand, wseed uint64, N, M, h int, emit func(c01Case)) {
	if N < 1 || M < N {
		return
	}
	w := clGetWorld(wseed, M, 0, 0)
	head := fmt.Sprintf("client.run w=%d:%d:0:0 h=%d srv=A@%d", wseed, M, h, N)
	ids := c01UniqNat([]int{0, N - 1, r.Intn(N)})
	js := c01UniqNat([]int{min(N, M-1), M - 1, r.Intn(M)}) // N: the first record the growth added
	setups := []string{""}
	if N > 1 {
		setups = append(setups, fmt.Sprintf("warm=0:A@%d:*", 1+r.Intn(N-1)))
	}
	for _, id := range ids {
		if _, ok := clLookupFile(w.A.recs[id].path, w.A.recs[id].vers); !ok {
			continue
		}
		for _, j := range js {
			tail := fmt.Sprintf("new=0 look=0:A%d look=0:A%dm f-= srv=A@%d new=0 look=0:A%d", id, id, M, j)
			for si, su := range setups {
				name := []string{"cold", "warm"}[si]
				mk := func(fault string) string {
					parts := []string{head}
					if su != "" {
						parts = append(parts, su)
					}
					if fault != "" {
						parts = append(parts, "f+="+fault)
					}
					return strings.Join(append(parts, tail), " ")
				}
				emit(c01Case{line: mk(""), honest: true, remote: true, tag: "honest/grow-" + name})
				for _, v := range clPdropVariants {
					emit(c01Case{line: mk("T*/pdrop/" + v), remote: true, tag: "fault/grow-" + name + "/tile-pdrop"})
				}
				// only the right-edge tile of one level
				for L := 0; L < 3; L++ {
					n := N >> (uint(h) * uint(L))
					if n == 0 {
						break
					}
					if n%(1<<uint(h)) != 0 {
						emit(c01Case{line: mk(fmt.Sprintf("T%d.%d/pdrop/%s", L, n>>uint(h), clPdropVariants[r.Intn(3)])), remote: true, tag: "fault/grow-" + name + "/tile-pdrop"})
					}
				}
			}
		}
	}
}

// c01EnumerateDeep: DEEP trees — tile height 1, several hundred to a few thousand records, honest server.
// Class added because the number of tiles ONE ReadHashes call plans is about (1-bits of the tree size) + (tile levels
// on the path of the wanted hash), i.e. up to twice the number of tile levels; with N <= 12 (quick) or <= 70 (thorough)
// that was at most 8.  The honest clause of C01 is quantified over every log size and tile height, and the client's
// ReadTiles handles the whole plan of a call at once, so anything in it that depends on the length of the plan is only
// visible on a deep tree.  Sizes: 2^k-1 (every level contributes a tree-hash tile) and sizes with many 1-bits, records
// far from the right edge (the path tiles come on top of the tree-hash tiles; the right-edge record is kept as the
// control), three cache states: cold; cold with a much older stored head (checkTrees plans both trees); grown from a
// smaller deep tree.
func c01EnumerateDeep(r *Rand, wseed uint64, emit func(c01Case)) {
	maxN, nSizes, ks := 1500, 3, []int{9, 10}
	if thorough {
		maxN, nSizes, ks = 4500, 10, []int{8, 9, 10, 11, 12}
	}
	w := clGetWorld(wseed, maxN, 0, 0)
	sizes := []int{1<<uint(ks[r.Intn(len(ks))]) - 1}
	if thorough {
		for _, k := range ks {
			sizes = append(sizes, 1<<uint(k)-1)
		}
	}
	for len(sizes) < nSizes+1 {
		n := 256 + r.Intn(maxN-255)
		n |= r.Intn(256) | r.Intn(256) // many 1-bits
		if n <= maxN {
			sizes = append(sizes, n)
		}
	}
	head := fmt.Sprintf("client.run w=%d:%d:0:0 h=1", wseed, maxN)
	for _, n := range c01UniqNat(sizes) {
		for _, id := range c01UniqNat([]int{0, 1 + r.Intn(n/2), n / 2, n - 2, n - 1}) {
			if _, ok := clLookupFile(w.A.recs[id].path, w.A.recs[id].vers); !ok {
				continue
			}
			tail := fmt.Sprintf("look=0:A%d look=0:A%dm f-= new=0 look=0:A%d", id, id, id)
			k := n/4 + r.Intn(n/2)
			k |= r.Intn(128)
			if k >= n {
				k = n - 1
			}
			i := r.Intn(k)
			emit(c01Case{line: fmt.Sprintf("%s srv=A@%d new=0 %s", head, n, tail), honest: true, remote: true, tag: "honest/deep-cold"})
			emit(c01Case{line: fmt.Sprintf("%s srv=A@%d cfg=A@%d new=0 %s", head, n, k, tail), honest: true, remote: true, tag: "honest/deep-oldhead"})
			emit(c01Case{line: fmt.Sprintf("%s srv=A@%d new=0 look=0:A%d look=0:A%dm f-= srv=A@%d new=0 look=0:A%d", head, k, i, i, n, id), honest: true, remote: true, tag: "honest/deep-grown"})
		}
	}
}

// c01Line assembles a scenario: setup steps, then (history setups) the client instance with its honest history, then the
// faults, then (no history) the client instance, then the tail.
func c01Line(head string, setup, hist, faults []string, tail string) string {
	parts := append([]string{head}, setup...)
	if len(hist) > 0 {
		parts = append(parts, "new=0")
		parts = append(parts, hist...)
	}
	for _, f := range faults {
		parts = append(parts, "f+="+f)
	}
	if len(hist) == 0 {
		parts = append(parts, "new=0")
	}
	return strings.Join(append(parts, tail), " ")
}

// c01EnumerateSiblings: NAME-RELATED records (util_clsib.go; wseed >= clSibSeedBase).  For every ordered pair (i, j) of
// records of the log whose module paths are suffix- or prefix-related and whose versions are equal: the lookup of
// record i is answered with the complete, authentic response of record j (for every lookup path, and for that path
// only), in the cache states
//
//	cold        nothing stored
//	cfg-same    the stored head is the head the response carries
//	warm-none   warm cache below both records (both come from the network)
//	warm-other  record j is in the warm cache, record i is not
//	hist-other  the same client instance has looked up record j honestly before
//
// followed by the /go.mod lookup on the same instance and a restart against the honest server (the swapped response is
// an authentic record, so it has been written to the cache under record i's file name: the restart reads it from there).
// Class added because the generic swap (`L/swap/…` between unrelated module names, see c01Enumerate) can never show the
// difference between "exactly the lines of the record that start with `path version `" and any other way of picking
// lines for path@version out of the response: for unrelated names the response simply does not contain the string.
func c01EnumerateSiblings(r *Rand, wseed uint64, N, h int, emit func(c01Case)) {
	w := clGetWorld(wseed, N, 0, 0)
	head := fmt.Sprintf("client.run w=%d:%d:0:0 h=%d", wseed, N, h)
	for _, p := range clNameRelated(w.A, N) {
		i, j := p[0], p[1]
		pi, ok1 := clLookupFile(w.A.recs[i].path, w.A.recs[i].vers)
		pj, ok2 := clLookupFile(w.A.recs[j].path, w.A.recs[j].vers)
		if !ok1 || !ok2 || pi == pj {
			continue
		}
		key := "A" + itoa(i)
		tail := fmt.Sprintf("look=0:%s look=0:%sm f-= new=0 look=0:%s", key, key, key)
		type setup struct {
			name  string
			steps []string
			hist  []string
		}
		setups := []setup{{"cold", nil, nil}, {"cfg-same", []string{fmt.Sprintf("cfg=A@%d", N)}, nil},
			{"hist-other", nil, []string{"look=0:A" + itoa(j)}}}
		if k := min(i, j); k >= 1 {
			setups = append(setups, setup{"warm-none", []string{fmt.Sprintf("warm=0:A@%d:*", k)}, nil})
		}
		if j < i {
			setups = append(setups, setup{"warm-other", []string{fmt.Sprintf("warm=0:A@%d:*", i)}, nil})
		}
		for _, su := range setups {
			pre := len(su.hist)
			emit(c01Case{line: c01Line(head, su.steps, su.hist, nil, tail), honest: true, remote: true, tag: "honest/sib-" + su.name, pre: pre})
			for fi, f := range []string{"L/swap/" + hx(pj), "P" + hx(pi) + "/swap/" + hx(pj)} {
				// the (pair, cold, every-lookup-path) cell is exempt from the budget sampling of the oracle
				emit(c01Case{line: c01Line(head, su.steps, su.hist, []string{f}, tail), remote: true, tag: "fault/sib-" + su.name + "/lookup-sibswap", pre: pre,
					always: su.name == "cold" && fi == 0})
			}
		}
	}
}

// c01EnumerateCosigned: CO-SIGNED tree heads (util_clsigs.go): every lookup response carries the server's signature plus
// k signature lines by keys the client does not know; k is swept through small values, up to the documented limit of
// the note format on the total number of signature lines (clMaxNoteSigs), and beyond it; distinct witnesses after / before
// the server's line, and one witness line repeated.  Up to the limit these are HONEST runs (nothing is corrupted: the
// honest clause applies — the lookup, the /go.mod lookup and the restart, which reads the co-signed head back from the
// configuration and from the cached response, must all succeed with the server's lines); beyond the limit the head may
// be refused and the run is judged as a faulty one (nothing unauthenticated returned or stored, restart cannot fail).
func c01EnumerateCosigned(r *Rand, wseed uint64, N, h, id int, emit func(c01Case)) {
	w := clGetWorld(wseed, N, 0, 0)
	rec := w.A.recs[id]
	lpath, ok := clLookupFile(rec.path, rec.vers)
	if !ok {
		return
	}
	resp, err := w.A.snap(N).get(lpath)
	if err != nil {
		return
	}
	base := clCountSigLines(resp) // signature lines of the server's own head
	head := fmt.Sprintf("client.run w=%d:%d:0:0 h=%d", wseed, N, h)
	key := "A" + itoa(id)
	tail := fmt.Sprintf("look=0:%s look=0:%sm f-= new=0 look=0:%s", key, key, key)
	type setup struct {
		name  string
		steps []string
		hist  []string
	}
	setups := []setup{{"cold", nil, nil}, {"cfg-same", []string{fmt.Sprintf("cfg=A@%d", N)}, nil}}
	if id >= 1 {
		setups = append(setups, setup{"warm", []string{fmt.Sprintf("warm=0:A@%d:*", id)}, nil})
	}
	if N > 1 {
		setups = append(setups, setup{"hist", nil, []string{"look=0:A" + itoa((id+1)%N)}})
	}
	lim := clMaxNoteSigs - base // number of co-signatures that exactly fills the note
	type kv struct {
		k int
		v string
	}
	variants := []string{"", ".pre", ".dup"}
	var kvs []kv
	for _, k := range c01UniqNat([]int{1, 2 + r.Intn(6), 8 + r.Intn(lim-10), lim + 2 + r.Intn(60)}) {
		kvs = append(kvs, kv{k, variants[r.Intn(3)]})
	}
	for _, k := range []int{lim - 1, lim, lim + 1} { // the boundary: every variant
		for _, v := range variants {
			kvs = append(kvs, kv{k, v})
		}
	}
	for _, su := range setups {
		pre := len(su.hist)
		for _, x := range kvs {
			honest := base+x.k <= clMaxNoteSigs
			kind := "fault"
			if honest {
				kind = "honest"
			}
			cls := "few"
			switch {
			case x.k > lim:
				cls = "over-limit"
			case x.k == lim:
				cls = "at-limit"
			case x.k == lim-1:
				cls = "below-limit"
			case x.k >= 8:
				cls = "mid"
			}
			emit(c01Case{line: c01Line(head, su.steps, su.hist, []string{fmt.Sprintf("L/sigs/%d%s", x.k, x.v)}, tail),
				honest: honest, remote: true, tag: kind + "/cosigned-" + su.name + "/" + cls, pre: pre})
		}
	}
}

// c01EnumerateCosignedNames: heads co-signed by witnesses with legal NON-ASCII key names (util_c01names.go; the
// `sigs/<k>.u<hh>[p]` mutation): for every UTF-8 continuation byte 0x80..0xBF six witnesses whose names contain a
// character with that byte (one per position a continuation byte can take), after or before the server's line, the cache
// state rotating with the byte.  Honest runs: a signature by an unknown key with a legal name is ignored, nothing else.
func c01EnumerateCosignedNames(r *Rand, wseed uint64, N, h, id int, emit func(c01Case)) {
	w := clGetWorld(wseed, N, 0, 0)
	rec := w.A.recs[id]
	if _, ok := clLookupFile(rec.path, rec.vers); !ok {
		return
	}
	head := fmt.Sprintf("client.run w=%d:%d:0:0 h=%d", wseed, N, h)
	key := "A" + itoa(id)
	tail := fmt.Sprintf("look=0:%s look=0:%sm f-= new=0 look=0:%s", key, key, key)
	type setup struct {
		name  string
		steps []string
		hist  []string
	}
	setups := []setup{{"cold", nil, nil}, {"cfg-same", []string{fmt.Sprintf("cfg=A@%d", N)}, nil}}
	if id >= 1 {
		setups = append(setups, setup{"warm", []string{fmt.Sprintf("warm=0:A@%d:*", id)}, nil})
	}
	if N > 1 {
		setups = append(setups, setup{"hist", nil, []string{"look=0:A" + itoa((id+1)%N)}})
	}
	for b := 0x80; b <= 0xBF; b++ {
		su := setups[(b+r.Intn(len(setups)))%len(setups)]
		v := fmt.Sprintf("L/sigs/%d.u%02x", len(c01NameShapes), b)
		if r.Intn(2) == 0 {
			v += "p"
		}
		emit(c01Case{line: c01Line(head, su.steps, su.hist, []string{v}, tail), honest: true, remote: true,
			tag: "honest/cosigned-" + su.name + "/name-nonascii", pre: len(su.hist)})
	}
}

// c01EnumerateShortFull: SHORT COMPLETE TILE where a partial one is wanted — and the client instance goes on.
//
// Class: the client's tree (N records) is older than the completion of a tile, so it asks for the PARTIAL tile …p/W; that
// file is nowhere (the server has dropped its partial tiles / the cache was filled by a run on a later tree), only the
// COMPLETE tile is there, and what comes back under its name is shorter than a complete tile: cut to k bytes, k swept
// below, at and above the W*HashSize bytes the client is going to use.  Three ways to get there:
//
//	synth  the server serves the tree of N records, partial-tile requests fail, the complete-tile request is answered with
//	       the true prefix and a made-up tail (pdrop), cut to k bytes
//	grown  the log has grown to M records (the tile is complete), lookups are still answered with the head of N records
//	       (a lagging front end), partial-tile requests fail, the true complete tile is cut to k bytes
//	cache  the cache was filled by an honest run on the tree of M records (complete tile on disk, no partial one), the
//	       configuration is empty, the server serves the tree of N records; the cached complete tile is cut to k bytes
//
// The client is created over an EMPTY configuration (nothing is read from tiles while it initialises, so the failure is a
// failure of a lookup, not a sticky initialisation error) and, after the lookup that runs into the short tile (and its
// /go.mod repeat), the SAME instance with the faults still on is asked for two OTHER records, whose proofs need the same
// right-edge tile; then (network variants) the restart against the honest server.
//
// Why it was missing: every fault of c01Enumerate was followed only by the repeat of the SAME lookup (answered from the
// client's per-record result cache without touching a tile) and then by a fresh instance; nothing ever asked a client
// instance for a second, different record after a lookup on it had failed inside the tile layer.  And a complete tile of
// the wrong length reached the "cut the prefix out of the complete tile" branches of readTile only in the thorough tier's
// random double faults (pdrop and trunc on the same tile).  The clauses concerned: whatever the network and the cache
// hand back, every lookup fails or returns authentic lines — it does not hang or crash — and histories continue.
func c01EnumerateShortFull(r *Rand, wseed uint64, N, h int, emit func(c01Case)) {
	if N < 3 {
		return
	}
	fullW := 1 << uint(h)
	ids := c01UniqNat([]int{r.Intn(N), 0, N - 1, r.Intn(N)})
	if len(ids) < 3 {
		return
	}
	i, j, j2 := ids[0], ids[1], ids[2]
	wN := clGetWorld(wseed, N, 0, 0)
	for _, x := range []int{i, j, j2} {
		if _, ok := clLookupFile(wN.A.recs[x].path, wN.A.recs[x].vers); !ok {
			return
		}
	}
	tail := fmt.Sprintf("new=0 look=0:A%d look=0:A%dm look=0:A%d look=0:A%d f-= new=0 look=0:A%d", i, i, j, j2, i)
	for L := 0; L < 8; L++ {
		n := N >> (uint(h) * uint(L))
		if n == 0 {
			break
		}
		W := n % fullW
		if W == 0 {
			continue // the right-edge tile of this level is complete
		}
		tn := n >> uint(h)
		want := W * tlog.HashSize
		ks := c01UniqNat([]int{0, want - 1, want - tlog.HashSize + r.Intn(tlog.HashSize), r.Intn(want), // below what is wanted
			want, want + 1 + r.Intn(tlog.HashSize), fullW*tlog.HashSize - 1}) // enough for the wanted prefix, still not a complete tile
		if !thorough {
			// quick tier: the boundary, one value below, one value at/above
			ks = c01UniqNat([]int{want - 1, r.Intn(want), []int{want, fullW*tlog.HashSize - 1}[r.Intn(2)]})
		}
		T := fmt.Sprintf("T%d.%d", L, tn)
		M := (tn + 1) << (uint(h) * uint(L+1)) // first tree size at which the tile is complete
		// cache variant: the cache warmed by the lookup of the last record of the tree of M records, whose proof reads
		// the complete tile; cacheIdx = position of that tile among the sorted cache files (-1: not available)
		cacheIdx := -1
		okM := M <= 70 || thorough && M <= 600
		if okM {
			wM := clGetWorld(wseed, M, 0, 0)
			if _, ok := clLookupFile(wM.A.recs[M-1].path, wM.A.recs[M-1].vers); ok {
				env := clNewEnv(wM)
				if clWarm(env, 0, wM.A.snap(M), itoa(M-1), h) {
					name := clName + "/" + tlog.Tile{H: h, L: L, N: int64(tn), W: fullW}.Path()
					for idx, f := range clSortedFiles(env.caches[0]) {
						if f == name {
							cacheIdx = idx
						}
					}
				}
			}
		}
		for _, k := range ks {
			cls := "short"
			if k >= want {
				cls = "long-enough"
			}
			emit(c01Case{line: fmt.Sprintf("client.run w=%d:%d:0:0 h=%d f+=%s/pdrop/%s f+=%s/trunc/%d %s", wseed, N, h, T, clPdropVariants[r.Intn(3)], T, k, tail),
				remote: true, cont: 2, tag: "fault/shortfull-synth-" + cls + "/tile-shortfull"})
			if !okM {
				continue
			}
			emit(c01Case{line: fmt.Sprintf("client.run w=%d:%d:0:0 h=%d srv=A@%d,A@%d f+=%s/pdrop/honest f+=%s/trunc/%d %s", wseed, M, h, N, M, T, T, k, tail),
				remote: true, cont: 2, tag: "fault/shortfull-grown-" + cls + "/tile-shortfull"})
			if cacheIdx >= 0 {
				emit(c01Case{line: fmt.Sprintf("client.run w=%d:%d:0:0 h=%d warm=0:A@%d:%d cfg=empty cc=0:%d:trunc/%d srv=A@%d %s", wseed, M, h, M, M-1, cacheIdx, k, N, tail),
					cont: 2, tag: "cache/shortfull-" + cls})
			}
		}
	}
}

func c01UniqNat(l []int) []int {
	seen := map[int]bool{}
	var out []int
	for _, x := range l {
		if x >= 0 && !seen[x] {
			seen[x] = true
			out = append(out, x)
		}
	}
	return out
}

func c01Uniq(l []string) []string {
	seen := map[string]bool{}
	var out []string
	for _, s := range l {
		if !seen[s] {
			seen[s] = true
			out = append(out, s)
		}
	}
	return out
}

func c01FaultKind(fs []string) string {
	if len(fs) == 0 {
		return "none"
	}
	p := strings.Split(fs[0], "/")
	cls := "tile"
	if p[0] == "L" {
		cls = "lookup"
	}
	k := cls + "-" + p[1]
	if len(fs) > 1 {
		k += "+tiles"
	}
	return k
}

// c01Judge runs one case and applies the C01 oracles.
func c01Judge(g *Gen, c c01Case) {
	toks := strings.Fields(c.line)
	sc, ok := clParseScenario(toks[1:])
	if !ok {
		g.Fail("harness: malformed scenario", c.line)
		return
	}
	out := clRunScenario(sc)
	g.Case(c.tag)
	if out.bad {
		g.Fail("harness: scenario rejected", c.line)
		return
	}
	if out.hang {
		c01Hangs++
		g.st.OracleTags["finding/C01 lookup hangs"]++
		info := ""
		if n := len(out.looks); n > 0 {
			info = fmt.Sprintf("lookup %d of the scenario (%s) does not return", n, out.looks[n-1].key)
		}
		g.Fail("C01 lookup hangs", info, c.line)
		return
	}
	for _, lk := range out.looks {
		g.st.OracleTags["result/"+lk.kind]++
		if lk.kind == "panic" {
			g.Fail("C01 lookup panics", fmt.Sprint(lk.err), c.line)
		}
	}
	clReport(g, clCheckAuthentic(out), sc)
	clReport(g, clCheckTimeline(out), sc)
	clReport(g, clCheckSecurity(out), sc)
	if c.honest {
		clReport(g, clCheckHonest(out, "C01"), sc)
		clReport(g, clCheckFetchOnce(out), sc)
	}
	// history lookups run before any fault is switched on: honest server, honest cache — they cannot fail
	for i := 0; i < c.pre && i < len(out.looks); i++ {
		lk := out.looks[i]
		want, _ := out.w.honestLines(out.w.A, lk.path, lk.vers)
		if lk.kind != "ok" || !clSameLines(lk.lines, want) {
			g.Fail("C01 lookup failed although server and cache are honest", fmt.Sprintf("history lookup %s -> %s %q", lk.key, lk.kind, lk.lines), c.line)
		}
	}
	if c.remote && len(out.looks) == c.pre+3+c.cont {
		// after any sequence of network faults, what the client persisted is authentic: a restart against the honest
		// server with that cache and configuration cannot fail
		lk := out.looks[c.pre+2+c.cont]
		want, _ := out.w.honestLines(out.w.A, lk.path, lk.vers)
		switch {
		case lk.kind != "ok":
			g.Fail("C01 honest server fails after a restart on the cache/configuration left by a faulty run", fmt.Sprintf("%s (%v)", lk.kind, lk.err), c.line)
		case clSameLines(lk.lines, want):
		case len(lk.lines) == 0:
			// an authentic record of ANOTHER module was cached under this file name (swap): Lookup filters it to nothing
			g.st.OracleTags["observation/authentic-foreign-record-cached"]++
		default:
			g.Fail("C01 restart against the honest server returns other lines than the server's", fmt.Sprintf("%q", lk.lines), c.line)
		}
	}
	// same-client repeat (parCache hit) must agree with the first answer
	if len(out.looks) >= c.pre+2 && out.looks[c.pre].kind != out.looks[c.pre+1].kind {
		g.Fail("C01 second lookup of the same record on the same client disagrees with the first", out.looks[c.pre].kind+" vs "+out.looks[c.pre+1].kind, c.line)
	}
}

// c01Hangs counts the scenarios of this run in which a lookup did not return (each costs the full timeout: classes that
// have shown the hang a few times stop early).
var c01Hangs int

func c01Oracle(g *Gen, n int) {
	if n <= 0 {
		return
	}
	maxN, heights := 12, []int{1, 2}
	if thorough {
		maxN, heights = 70, []int{1, 2, 3, 4, 8}
	}
	wseed := g.U64()%1000 + 1
	type triple struct{ N, h, id int }
	var triples []triple
	for N := 1; N <= maxN; N++ {
		for _, h := range heights {
			for id := 0; id < N; id++ {
				if thorough && N > 16 && g.Intn(N/8) != 0 {
					continue // larger logs: a seed-chosen subset of record ids
				}
				triples = append(triples, triple{N, h, id})
			}
		}
	}
	// budget: about n scenarios, spread evenly over the (N, h, id) triples; within a triple a seed-chosen subset of the
	// enumeration (honest cases always kept)
	per := n/len(triples) + 1
	total := 0
	for _, t := range triples {
		var cases []c01Case
		c01Enumerate(g.Rand, wseed, t.N, t.h, t.id, func(c c01Case) { cases = append(cases, c) })
		total += len(cases)
		stride := 1
		if len(cases) > per {
			stride = (len(cases) + per - 1) / per
		}
		off := g.Intn(stride)
		for i, c := range cases {
			if c.honest || c.always || i%stride == off {
				c01Judge(g, c)
			}
		}
	}
	g.st.OracleTags["enumerated"] = total
	// growth between the faulty run and the restart (partial-tile-dropped faults): a seed-chosen sample of (N, M, h)
	{
		var cases []c01Case
		for N := 1; N <= maxN; N++ {
			for _, h := range heights {
				if thorough && N > 16 && g.Intn(4) != 0 {
					continue
				}
				w := 1 << uint(h)
				// M: one more record; the leaf tile completed; the level-1 tile grown as well; anything
				for _, M := range c01UniqNat([]int{N + 1, (N/w + 1) * w, (N/(w*w) + 1) * w * w, N + 1 + g.Intn(2*w*w)}) {
					if M > N && M <= 5000 {
						c01EnumerateGrowth(g.Rand, wseed, N, M, h, func(c c01Case) { cases = append(cases, c) })
					}
				}
			}
		}
		budget := n/32 + 1
		stride := (len(cases) + budget - 1) / budget
		off := g.Intn(stride)
		for i, c := range cases {
			if i%stride == off {
				c01Judge(g, c)
			}
		}
		g.st.OracleTags["enumerated-growth"] = len(cases)
	}
	// deep trees at tile height 1 (honest)
	c01EnumerateDeep(g.Rand, wseed, func(c c01Case) { c01Judge(g, c) })
	// name-related records: the authentic response of a record whose module path ends in / starts with the wanted path
	// (same version) served for the wanted one; every related pair of every log size, sampled down to the budget
	{
		sseed := clSibSeedBase + g.U64()%1000
		var cases []c01Case
		for N := 2; N <= min(maxN, 24); N++ {
			for _, h := range heights {
				c01EnumerateSiblings(g.Rand, sseed, N, h, func(c c01Case) { cases = append(cases, c) })
			}
		}
		// (random sampling, not a stride: the enumeration is periodic — honest, swap on every path, swap on one path)
		budget := n/10 + 1
		for _, c := range cases {
			if c.always || g.Intn(len(cases)) < budget {
				c01Judge(g, c)
			}
		}
		g.st.OracleTags["enumerated-siblings"] = len(cases)
	}
	// co-signed heads: the number of unknown-key signature lines swept up to and beyond the limit of the note format
	{
		nN := 2
		if thorough {
			nN = 10
		}
		Ns := []int{1}
		for k := 0; k < nN; k++ {
			Ns = append(Ns, 2+g.Intn(maxN-1))
		}
		total := 0
		for _, N := range c01UniqNat(Ns) {
			for _, h := range heights {
				for _, id := range c01UniqNat([]int{0, g.Intn(N)}) {
					c01EnumerateCosigned(g.Rand, wseed, N, h, id, func(c c01Case) { total++; c01Judge(g, c) })
				}
			}
		}
		g.st.OracleTags["enumerated-cosigned"] = total
	}
	// co-signing witnesses and servers with legal non-ASCII key names (util_c01names.go): every UTF-8 continuation byte
	{
		k := 2
		if thorough {
			k = 8
		}
		total := 0
		for ; k > 0; k-- {
			N := 1 + g.Intn(maxN)
			c01EnumerateCosignedNames(g.Rand, wseed, N, heights[g.Intn(len(heights))], g.Intn(N), func(c c01Case) { total++; c01Judge(g, c) })
		}
		g.st.OracleTags["enumerated-cosigned-names"] = total
		c01NamesOracle(g, wseed)
	}
	// short complete tile where a partial one is wanted, the same client instance continuing with other records
	{
		var cases []c01Case
		for N := 3; N <= min(maxN, 40); N++ {
			for _, h := range heights {
				c01EnumerateShortFull(g.Rand, wseed, N, h, func(c c01Case) { cases = append(cases, c) })
			}
		}
		budget := n/16 + 1
		for _, c := range cases {
			if c01Hangs >= 3 {
				break // (every hanging scenario costs the full lookup timeout)
			}
			if g.Intn(len(cases)) < budget {
				c01Judge(g, c)
			}
		}
		g.st.OracleTags["enumerated-shortfull"] = len(cases)
	}
	// fixed regressions: the F6 scenario (forged record + forged leaf tile, honest head) and O3
	for _, l := range []string{
		"client.run w=1:7:0:0 h=2 f+=L/recsrc/F0@7 f+=T0.0/src/F0@7 new=0 look=0:A0 look=0:A0m f-= new=0 look=0:A0",
		"client.run w=2:7:0:0 h=2 warm=0:A@2:* f+=L/recsrc/F0@7 f+=T0.0/src/F0@7 new=0 look=0:A0 look=0:A0m f-= new=0 look=0:A0",
	} {
		c01Judge(g, c01Case{line: l, remote: true, tag: "regression/F6"})
	}
	c01O3(g)
}

// c01O3: Lookup("go.sum","database") against a server that answers with an authentic record: the client returns the
// first line of the signed tree note (O3).  The oracle accepts it as a line of signed text; counted as an observation.
func c01O3(g *Gen) {
	w := clGetWorld(1, 5, 0, 0)
	o := w.A.recs[0]
	op, _ := clLookupFile(o.path, o.vers)
	line := fmt.Sprintf("client.run w=1:5:0:0 h=2 f+=L/swap/%s new=0 look=0:x%s:%s", hx(op), hx("go.sum"), hx("database"))
	sc, _ := clParseScenario(strings.Fields(line)[1:])
	out := clRunScenario(sc)
	g.Case("observation/O3")
	if len(out.looks) == 1 && out.looks[0].kind == "ok" && len(out.looks[0].lines) == 1 {
		g.st.OracleTags["observation/O3-tree-note-line-returned"]++
	}
	clReport(g, clCheckAuthentic(out), sc)
}
