package main

// util_clpdrop.go — the fault kind `pdrop/<variant>` (used by C01; dispatched from clFault.apply).
//
// CLASS: a server (or proxy) that no longer has PARTIAL tiles.  Every request for a partial tile `…/NNN.p/W` fails;
// the request for the corresponding COMPLETE tile is answered.  This is the only way to reach the last branch of
// Client.readTile ("try full tile on server"): with every other fault kind the partial request either succeeds or
// partial and full request fail alike, so that fallback — where the client holds 2^H hashes of which only the first
// W are going to be authenticated — was never exercised.
//
// What the complete-tile request returns when the served tree does not have that tile yet (the interesting case: the
// first W hashes are the true ones, so the prefix passes every check; the rest is covered by no signed tree):
//
//	junk    true prefix ‖ patterned bytes
//	hash    true prefix ‖ hash-looking bytes (SHA-256 of a counter)
//	dup     true prefix ‖ the first hash of the tile repeated
//	honest  the request fails (an honest server that has merely dropped its partial tiles)
//
// A complete tile the served tree does have is served unchanged in every variant.  Everything that is not a hash tile
// (lookups, data tiles) is served unchanged.

import (
	"crypto/sha256"
	"fmt"

	"golang.org/x/mod/sumdb/tlog"
)

var clPdropVariants = []string{"junk", "hash", "dup", "honest"}

func clPdropApply(e *clEnv, path, variant string, honest []byte, herr error) ([]byte, error, bool) {
	switch variant {
	case "junk", "hash", "dup", "honest":
	default:
		return nil, nil, false
	}
	t, ok := clTileOfPath(path)
	if !ok || t.L < 0 || t.H < 1 || t.H > 30 || t.H*t.L > 40 {
		return honest, herr, true
	}
	fullW := 1 << uint(t.H)
	if t.W != fullW {
		return nil, clErrHTTP, true // partial tiles are gone
	}
	if herr == nil || variant == "honest" {
		return honest, herr, true
	}
	// a complete tile that the served tree has only a prefix of
	level := uint(t.H * t.L)
	avail := int64(e.tileSrc.n)>>level - t.N<<uint(t.H)
	if avail < 1 || avail >= int64(fullW) {
		return honest, herr, true
	}
	pt := t
	pt.W = int(avail)
	d, ok := e.tileSrc.log.tileData(pt)
	if !ok || len(d) != pt.W*tlog.HashSize {
		return honest, herr, true
	}
	out := append([]byte(nil), d...)
	for i := pt.W; i < fullW; i++ {
		switch variant {
		case "junk":
			for k := 0; k < tlog.HashSize; k++ {
				out = append(out, byte(0x41+(i*tlog.HashSize+k)%23))
			}
		case "hash":
			h := sha256.Sum256([]byte(fmt.Sprintf("pdrop|%s|%d", path, i)))
			out = append(out, h[:]...)
		case "dup":
			out = append(out, d[:tlog.HashSize]...)
		}
	}
	return out, nil, true
}
