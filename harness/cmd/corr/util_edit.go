package main

// Shared machinery for C08, C15, C16 (go.mod / go.work edit operations):
// session protocol, real applier, canonical dump, abstract step model (DESIGN §6 table).

import (
	"regexp"
	"sort"
	"strings"

	"golang.org/x/mod/modfile"
	"golang.org/x/mod/module"
)

// ---------- directive sets

const (
	edGodebug = iota
	edRequire
	edExclude
	edReplace
	edRetract
	edTool
	edUse
	edNKinds
)

var edKindTag = [edNKinds]string{"D", "R", "X", "P", "C", "L", "U"}
var edKindName = [edNKinds]string{"godebug", "require", "exclude", "replace", "retract", "tool", "use"}
var edKindArity = [edNKinds]int{2, 2, 2, 4, 3, 1, 1}

// edEnt is one directive: K are its fields, Ind the indirect flag (require only),
// ID the index of the starting-file line it came from (-1 = created by an op).
type edEnt struct {
	K   []string
	Ind bool
	ID  int
}

type edDirs struct {
	Module, Go, Toolchain *edEnt
	L                     [edNKinds][]edEnt
}

func (e edEnt) render(kind int) string {
	p := make([]string, 0, len(e.K)+1)
	for _, k := range e.K {
		p = append(p, hx(k))
	}
	if kind == edRequire {
		if e.Ind {
			p = append(p, "1")
		} else {
			p = append(p, "0")
		}
	}
	return strings.Join(p, ":")
}

func edScalar(e *edEnt) string {
	if e == nil {
		return "~"
	}
	return hx(e.K[0])
}

// render gives the canonical one-token-per-collection text; sorted = multiset rendering.
func (d *edDirs) render(sorted bool) string {
	out := []string{"M=" + edScalar(d.Module), "G=" + edScalar(d.Go), "T=" + edScalar(d.Toolchain)}
	for k := 0; k < edNKinds; k++ {
		items := make([]string, len(d.L[k]))
		for i, e := range d.L[k] {
			items[i] = e.render(k)
		}
		if sorted {
			sort.Strings(items)
		}
		s := "_"
		if len(items) > 0 {
			s = strings.Join(items, ",")
		}
		out = append(out, edKindTag[k]+"="+s)
	}
	return strings.Join(out, " ")
}

func edParseEnt(kind int, s string) (edEnt, bool) {
	parts := strings.Split(s, ":")
	want := edKindArity[kind]
	if kind == edRequire {
		want++
	}
	if len(parts) != want {
		return edEnt{}, false
	}
	e := edEnt{ID: -1}
	for i := 0; i < edKindArity[kind]; i++ {
		e.K = append(e.K, unhx(parts[i]))
	}
	if kind == edRequire {
		e.Ind = parts[want-1] == "1"
	}
	return e, true
}

func edParseList(kind int, s string) ([]edEnt, bool) {
	if s == "_" {
		return nil, true
	}
	var out []edEnt
	for _, p := range strings.Split(s, ",") {
		e, ok := edParseEnt(kind, p)
		if !ok {
			return nil, false
		}
		out = append(out, e)
	}
	return out, true
}

// edParseDirs decodes the 10 tokens produced by render.
func edParseDirs(toks []string) (*edDirs, bool) {
	if len(toks) != 3+edNKinds {
		return nil, false
	}
	d := &edDirs{}
	sc := func(t, pfx string) (*edEnt, bool) {
		if !strings.HasPrefix(t, pfx) {
			return nil, false
		}
		v := t[len(pfx):]
		if v == "~" {
			return nil, true
		}
		return &edEnt{K: []string{unhx(v)}, ID: -1}, true
	}
	var ok bool
	if d.Module, ok = sc(toks[0], "M="); !ok {
		return nil, false
	}
	if d.Go, ok = sc(toks[1], "G="); !ok {
		return nil, false
	}
	if d.Toolchain, ok = sc(toks[2], "T="); !ok {
		return nil, false
	}
	for k := 0; k < edNKinds; k++ {
		t := toks[3+k]
		if !strings.HasPrefix(t, edKindTag[k]+"=") {
			return nil, false
		}
		if d.L[k], ok = edParseList(k, t[2:]); !ok {
			return nil, false
		}
	}
	return d, true
}

// lineIDs maps syntax lines of the starting file to ids (nil = no ids wanted).
func edDirsOfFile(f *modfile.File, ids map[*modfile.Line]int) *edDirs {
	id := func(l *modfile.Line) int {
		if ids == nil || l == nil {
			return -1
		}
		if i, ok := ids[l]; ok {
			return i
		}
		return -1
	}
	d := &edDirs{}
	if f.Module != nil {
		d.Module = &edEnt{K: []string{f.Module.Mod.Path}, ID: id(f.Module.Syntax)}
	}
	if f.Go != nil {
		d.Go = &edEnt{K: []string{f.Go.Version}, ID: id(f.Go.Syntax)}
	}
	if f.Toolchain != nil {
		d.Toolchain = &edEnt{K: []string{f.Toolchain.Name}, ID: id(f.Toolchain.Syntax)}
	}
	for _, g := range f.Godebug {
		d.L[edGodebug] = append(d.L[edGodebug], edEnt{K: []string{g.Key, g.Value}, ID: id(g.Syntax)})
	}
	for _, r := range f.Require {
		d.L[edRequire] = append(d.L[edRequire], edEnt{K: []string{r.Mod.Path, r.Mod.Version}, Ind: r.Indirect, ID: id(r.Syntax)})
	}
	for _, x := range f.Exclude {
		d.L[edExclude] = append(d.L[edExclude], edEnt{K: []string{x.Mod.Path, x.Mod.Version}, ID: id(x.Syntax)})
	}
	for _, r := range f.Replace {
		d.L[edReplace] = append(d.L[edReplace], edEnt{K: []string{r.Old.Path, r.Old.Version, r.New.Path, r.New.Version}, ID: id(r.Syntax)})
	}
	for _, r := range f.Retract {
		d.L[edRetract] = append(d.L[edRetract], edEnt{K: []string{r.Low, r.High, r.Rationale}, ID: id(r.Syntax)})
	}
	for _, t := range f.Tool {
		d.L[edTool] = append(d.L[edTool], edEnt{K: []string{t.Path}, ID: id(t.Syntax)})
	}
	return d
}

func edDirsOfWork(f *modfile.WorkFile, ids map[*modfile.Line]int) *edDirs {
	id := func(l *modfile.Line) int {
		if ids == nil || l == nil {
			return -1
		}
		if i, ok := ids[l]; ok {
			return i
		}
		return -1
	}
	d := &edDirs{}
	if f.Go != nil {
		d.Go = &edEnt{K: []string{f.Go.Version}, ID: id(f.Go.Syntax)}
	}
	if f.Toolchain != nil {
		d.Toolchain = &edEnt{K: []string{f.Toolchain.Name}, ID: id(f.Toolchain.Syntax)}
	}
	for _, g := range f.Godebug {
		d.L[edGodebug] = append(d.L[edGodebug], edEnt{K: []string{g.Key, g.Value}, ID: id(g.Syntax)})
	}
	for _, u := range f.Use {
		d.L[edUse] = append(d.L[edUse], edEnt{K: []string{u.Path}, ID: id(u.Syntax)})
	}
	for _, r := range f.Replace {
		d.L[edReplace] = append(d.L[edReplace], edEnt{K: []string{r.Old.Path, r.Old.Version, r.New.Path, r.New.Version}, ID: id(r.Syntax)})
	}
	return d
}

// ---------- ops

type edOp struct {
	Name string
	A    []string // decoded scalar arguments
	List []edEnt  // setrequire / setrequiresep (K=[path,vers], Ind) ; setuse (K=[dir,modpath])
	Rev  bool     // bulk setters: which map-iteration order the MODEL uses (ignored by the implementation)
}

var edOpArity = map[string]int{
	"module": 1, "go": 1, "dropgo": 0, "toolchain": 1, "droptoolchain": 0, "godebug": 2, "dropgodebug": 1,
	"require": 2, "newrequire": 3, "droprequire": 1, "setrequire": -1, "setrequiresep": -1,
	"exclude": 2, "dropexclude": 2, "replace": 4, "dropreplace": 2, "retract": 3, "dropretract": 2,
	"tool": 1, "droptool": 1, "sortblocks": 0, "cleanup": 0,
	"use": 2, "newuse": 2, "setuse": -1, "dropuse": 1,
}

var edWorkOps = map[string]bool{"go": true, "dropgo": true, "toolchain": true, "droptoolchain": true, "godebug": true, "dropgodebug": true,
	"use": true, "newuse": true, "setuse": true, "dropuse": true, "replace": true, "dropreplace": true, "sortblocks": true, "cleanup": true}

func (o edOp) encode() string {
	p := []string{o.Name}
	switch o.Name {
	case "setrequire", "setrequiresep":
		items := make([]string, len(o.List))
		for i, e := range o.List {
			items[i] = e.render(edRequire)
		}
		if len(items) == 0 {
			p = append(p, "_")
		} else {
			p = append(p, strings.Join(items, ","))
		}
	case "setuse":
		items := make([]string, len(o.List))
		for i, e := range o.List {
			items[i] = hx(e.K[0]) + ":" + hx(e.K[1])
		}
		if len(items) == 0 {
			p = append(p, "_")
		} else {
			p = append(p, strings.Join(items, ","))
		}
	default:
		for _, a := range o.A {
			p = append(p, hx(a))
		}
	}
	if edOpArity[o.Name] < 0 {
		if o.Rev {
			p = append(p, "1")
		} else {
			p = append(p, "0")
		}
	}
	return strings.Join(p, " ")
}

func edEncodeOps(ops []edOp) string {
	s := make([]string, len(ops))
	for i, o := range ops {
		s[i] = o.encode()
	}
	return strings.Join(s, " | ")
}

// edParseOps parses the tokens following the first "|" of a session line.
func edParseOps(toks []string) ([]edOp, bool) {
	var ops []edOp
	var cur []string
	flush := func() bool {
		if len(cur) == 0 {
			return false
		}
		ar, ok := edOpArity[cur[0]]
		if !ok {
			return false
		}
		o := edOp{Name: cur[0]}
		if ar < 0 {
			if len(cur) != 2 && len(cur) != 3 {
				return false
			}
			o.Rev = len(cur) == 3 && cur[2] == "1"
			if cur[0] == "setuse" {
				if cur[1] != "_" {
					for _, it := range strings.Split(cur[1], ",") {
						ps := strings.Split(it, ":")
						if len(ps) != 2 {
							return false
						}
						o.List = append(o.List, edEnt{K: []string{unhx(ps[0]), unhx(ps[1])}, ID: -1})
					}
				}
			} else {
				l, ok := edParseList(edRequire, cur[1])
				if !ok {
					return false
				}
				o.List = l
			}
		} else {
			if len(cur) != ar+1 {
				return false
			}
			for _, a := range cur[1:] {
				o.A = append(o.A, unhx(a))
			}
		}
		ops = append(ops, o)
		cur = nil
		return true
	}
	for _, t := range toks {
		if t == "|" {
			if !flush() {
				return nil, false
			}
			continue
		}
		cur = append(cur, t)
	}
	if len(cur) > 0 && !flush() {
		return nil, false
	}
	return ops, true
}

func edErr(err error) string {
	if err != nil {
		return "err"
	}
	return "ok"
}

// edApplyMod applies one op to the real modfile.File.
func edApplyMod(f *modfile.File, o edOp) string {
	a := o.A
	switch o.Name {
	case "module":
		return edErr(f.AddModuleStmt(a[0]))
	case "go":
		return edErr(f.AddGoStmt(a[0]))
	case "dropgo":
		f.DropGoStmt()
	case "toolchain":
		return edErr(f.AddToolchainStmt(a[0]))
	case "droptoolchain":
		f.DropToolchainStmt()
	case "godebug":
		return edErr(f.AddGodebug(a[0], a[1]))
	case "dropgodebug":
		return edErr(f.DropGodebug(a[0]))
	case "require":
		return edErr(f.AddRequire(a[0], a[1]))
	case "newrequire":
		f.AddNewRequire(a[0], a[1], a[2] == "1")
	case "droprequire":
		return edErr(f.DropRequire(a[0]))
	case "setrequire", "setrequiresep":
		reqs := make([]*modfile.Require, len(o.List))
		for i, e := range o.List {
			reqs[i] = &modfile.Require{Mod: module.Version{Path: e.K[0], Version: e.K[1]}, Indirect: e.Ind}
		}
		if o.Name == "setrequire" {
			f.SetRequire(reqs)
		} else {
			f.SetRequireSeparateIndirect(reqs)
		}
	case "exclude":
		return edErr(f.AddExclude(a[0], a[1]))
	case "dropexclude":
		return edErr(f.DropExclude(a[0], a[1]))
	case "replace":
		return edErr(f.AddReplace(a[0], a[1], a[2], a[3]))
	case "dropreplace":
		return edErr(f.DropReplace(a[0], a[1]))
	case "retract":
		return edErr(f.AddRetract(modfile.VersionInterval{Low: a[0], High: a[1]}, a[2]))
	case "dropretract":
		return edErr(f.DropRetract(modfile.VersionInterval{Low: a[0], High: a[1]}))
	case "tool":
		return edErr(f.AddTool(a[0]))
	case "droptool":
		return edErr(f.DropTool(a[0]))
	case "sortblocks":
		f.SortBlocks()
	case "cleanup":
		f.Cleanup()
	default:
		return "bad"
	}
	return "ok"
}

func edApplyWork(f *modfile.WorkFile, o edOp) string {
	a := o.A
	switch o.Name {
	case "go":
		return edErr(f.AddGoStmt(a[0]))
	case "dropgo":
		f.DropGoStmt()
	case "toolchain":
		return edErr(f.AddToolchainStmt(a[0]))
	case "droptoolchain":
		f.DropToolchainStmt()
	case "godebug":
		return edErr(f.AddGodebug(a[0], a[1]))
	case "dropgodebug":
		return edErr(f.DropGodebug(a[0]))
	case "use":
		return edErr(f.AddUse(a[0], a[1]))
	case "newuse":
		f.AddNewUse(a[0], a[1])
	case "dropuse":
		return edErr(f.DropUse(a[0]))
	case "setuse":
		us := make([]*modfile.Use, len(o.List))
		for i, e := range o.List {
			us[i] = &modfile.Use{Path: e.K[0], ModulePath: e.K[1]}
		}
		f.SetUse(us)
	case "replace":
		return edErr(f.AddReplace(a[0], a[1], a[2], a[3]))
	case "dropreplace":
		return edErr(f.DropReplace(a[0], a[1]))
	case "sortblocks":
		f.SortBlocks()
	case "cleanup":
		f.Cleanup()
	default:
		return "bad"
	}
	return "ok"
}

// edRun is the result of running a session on the real implementation.
type edRun struct {
	ParseErr  bool
	Panic     string // op name at which the implementation panicked ("" = none)
	Res       []string
	Mod       *modfile.File
	Work      *modfile.WorkFile
	Start     *edDirs // typed lists of the starting file, with line ids
	Lines     []edLineRec
	Typed     *edDirs
	Formatted []byte
	ReMod     *modfile.File
	ReWork    *modfile.WorkFile
	Reparsed  *edDirs // nil = strict re-parse failed
	// Collapsed: retract lines that some Cleanup of this session collapsed out of a one-line block that
	// carried comments, with the block's comment text (structural cause of finding G2).
	Collapsed map[*modfile.Line]string
	StartPtr  map[*modfile.Line]bool
	// BlankOnly: lines of the starting file whose only "comment" was a blank-line placeholder (the strict
	// parser then does not let them inherit the block's comments; structural cause of finding G4).
	BlankOnly map[*modfile.Line]bool
	// PreBulkSuffix: for every requirement, the first end-of-line comment token of its line just before the most
	// recent SetRequire / SetRequireSeparateIndirect of the session (structural cause of the finding
	// "remainder-is-marker": setIndirect(false) rewrites "// indirect; T" to "// T", and T is again a marker).
	PreBulkSuffix map[*modfile.Require]string
	// BlockTexts: for every line, the comment texts of the commented retract blocks that enclosed it
	// in the starting file or in any intermediate state of the session (root cause of the rationale findings:
	// the strict parser attributes a block's comments to comment-less lines, Cleanup merges them on collapse).
	BlockTexts map[*modfile.Line][]string
	// SuffixBlock: lines that sit or sat in a block carrying end-of-line comments (`verb () // c`): Cleanup appends
	// those to the line when it collapses the block (finding "empty-block-suffix-comment").
	SuffixBlock map[*modfile.Line][]modfile.Comment
}

const edSigEmptyBlockSuffix = "empty-block-suffix-comment"

// edTrackBlocks is called on the starting file and after every operation.
func edTrackBlocks(run *edRun, fs *modfile.FileSyntax) {
	for _, st := range fs.Stmt {
		b, ok := st.(*modfile.LineBlock)
		if !ok || len(b.Token) == 0 {
			continue
		}
		if len(b.Suffix) > 0 {
			for _, l := range b.Line {
				run.SuffixBlock[l] = b.Suffix
			}
		}
		if b.Token[0] == "retract" && edHasText(&b.Comments) {
			t := edDirectiveText(&b.Comments) // "" when the block's only comments are empty `//`
			for _, l := range b.Line {
				have := false
				for _, x := range run.BlockTexts[l] {
					if x == t {
						have = true
					}
				}
				if !have {
					run.BlockTexts[l] = append(run.BlockTexts[l], t)
				}
			}
		}
	}
}

// edSuffixText is the text of end-of-line comments only.
func edSuffixText(cs []modfile.Comment) string {
	return edDirectiveText(&modfile.Comments{Suffix: cs})
}

func edSameMultiset(a, b []string) bool {
	if len(a) != len(b) {
		return false
	}
	m := map[string]int{}
	for _, x := range a {
		m[x]++
	}
	for _, x := range b {
		m[x]--
	}
	for _, v := range m {
		if v != 0 {
			return false
		}
	}
	return true
}

const edSigRemainder = "require-indirect:remainder-is-marker"

// edIsIndirectTok is modfile's isIndirect test on one end-of-line comment token.
func edIsIndirectTok(tok string) bool {
	f := strings.Fields(strings.TrimPrefix(tok, "//"))
	return (len(f) == 1 && f[0] == "indirect") || (len(f) > 1 && f[0] == "indirect;")
}

// edRemainderIsMarker: the token is "// indirect; T" (marker with payload) and the text the marker removal
// leaves behind ("//" + what follows the first "indirect;") is itself an indirect marker.
func edRemainderIsMarker(tok string) bool {
	f := strings.Fields(strings.TrimPrefix(tok, "//"))
	if len(f) < 2 || f[0] != "indirect;" {
		return false
	}
	i := strings.Index(tok, "indirect;")
	return i >= 0 && edIsIndirectTok("//"+tok[i+len("indirect;"):])
}

// edRecordPreBulk snapshots the end-of-line comments of all requirements (called before a bulk setter).
func edRecordPreBulk(m map[*modfile.Require]string, f *modfile.File) {
	for _, r := range f.Require {
		if r != nil && r.Syntax != nil && len(r.Syntax.Suffix) > 0 {
			m[r] = r.Syntax.Suffix[0].Token
		} else {
			delete(m, r)
		}
	}
}

// edIndirectDetail pairs every typed requirement with the re-parsed one on the same output line and names an
// indirect-flag mismatch: "" (none), edSigRemainder (every mismatch is: typed direct, re-parsed indirect, and the
// line's comment before the last bulk setter was "// indirect; <marker>"), or "require-indirect" (anything else).
func edIndirectDetail(run *edRun) string {
	if run.Mod == nil || run.ReMod == nil {
		return "require-indirect"
	}
	fin, re := edTreeLines(run.Mod.Syntax), edTreeLines(run.ReMod.Syntax)
	if len(fin) != len(re) || len(run.Mod.Require) != len(run.ReMod.Require) {
		return "require-indirect"
	}
	pos := map[*modfile.Line]int{}
	for i, l := range fin {
		pos[l.Ptr] = i
	}
	reBy := map[*modfile.Line]*modfile.Require{}
	for _, q := range run.ReMod.Require {
		reBy[q.Syntax] = q
	}
	known := ""
	for _, r := range run.Mod.Require {
		k, ok := pos[r.Syntax]
		if !ok {
			return "require-indirect"
		}
		q := reBy[re[k].Ptr]
		if q == nil || q.Mod != r.Mod {
			return "require-indirect"
		}
		if q.Indirect == r.Indirect {
			continue
		}
		pre, had := run.PreBulkSuffix[r]
		if !r.Indirect && q.Indirect && had && edRemainderIsMarker(pre) {
			known = edSigRemainder
			continue
		}
		if bs := run.SuffixBlock[r.Syntax]; !r.Indirect && q.Indirect && len(bs) > 0 && edIsIndirectTok(bs[0].Token) {
			// the line sits (sat) in a block with an end-of-line comment that is an indirect marker
			if known == "" {
				known = edSigEmptyBlockSuffix
			}
			continue
		}
		return "require-indirect"
	}
	return known
}

// edDirectiveText is the text of whole-line and end-of-line comments (blank placeholders skipped).
func edDirectiveText(c *modfile.Comments) string {
	var lines []string
	for _, grp := range [][]modfile.Comment{c.Before, c.Suffix} {
		for _, x := range grp {
			if strings.HasPrefix(x.Token, "//") {
				lines = append(lines, strings.TrimSpace(strings.TrimPrefix(x.Token, "//")))
			}
		}
	}
	return strings.Join(lines, "\n")
}

func edHasText(c *modfile.Comments) bool {
	for _, grp := range [][]modfile.Comment{c.Before, c.Suffix} {
		for _, x := range grp {
			if strings.HasPrefix(x.Token, "//") {
				return true
			}
		}
	}
	return false
}

// edTrackCollapse is called before every Cleanup: it records one-line commented retract blocks.
func edTrackCollapse(run *edRun, fs *modfile.FileSyntax) {
	for _, st := range fs.Stmt {
		b, ok := st.(*modfile.LineBlock)
		if !ok || len(b.Token) == 0 || b.Token[0] != "retract" || len(b.RParen.Before) > 0 || !edHasText(&b.Comments) {
			continue
		}
		var live []*modfile.Line
		for _, l := range b.Line {
			if l.Token != nil {
				live = append(live, l)
			}
		}
		if len(live) == 1 {
			run.Collapsed[live[0]] = edDirectiveText(&b.Comments)
		}
	}
}

// edLineRec records a directive line of the starting file.
type edLineRec struct {
	Ptr    *modfile.Line
	Tokens []string // full tokens (block verb included)
	Before []string // non-blank, trimmed
	Suffix []string
	Blanks int // blank-line placeholders among the Before comments
}

func edComTexts(cs []modfile.Comment) []string {
	var out []string
	for _, c := range cs {
		t := strings.TrimSpace(c.Token)
		if t != "" {
			out = append(out, t)
		}
	}
	return out
}

// edTreeLines lists the directive lines of a syntax tree in order (live lines only).
func edTreeLines(fs *modfile.FileSyntax) []edLineRec {
	var out []edLineRec
	add := func(l *modfile.Line, verb []string) {
		if l.Token == nil {
			return
		}
		toks := append(append([]string{}, verb...), l.Token...)
		rec := edLineRec{Ptr: l, Tokens: toks, Before: edComTexts(l.Before), Suffix: edComTexts(l.Suffix)}
		rec.Blanks = len(l.Before) - len(rec.Before)
		out = append(out, rec)
	}
	for _, st := range fs.Stmt {
		switch st := st.(type) {
		case *modfile.Line:
			add(st, nil)
		case *modfile.LineBlock:
			for _, l := range st.Line {
				add(l, st.Token)
			}
		}
	}
	return out
}

// edRunSession parses the file strictly, applies ops (a final Cleanup is always applied),
// formats and re-parses strictly.  stopBefore < 0: run everything.
func edRunSession(work bool, file string, ops []edOp) (run *edRun) {
	run = &edRun{Collapsed: map[*modfile.Line]string{}, StartPtr: map[*modfile.Line]bool{}, BlankOnly: map[*modfile.Line]bool{},
		PreBulkSuffix: map[*modfile.Require]string{}, BlockTexts: map[*modfile.Line][]string{}, SuffixBlock: map[*modfile.Line][]modfile.Comment{}}
	var fs *modfile.FileSyntax
	if work {
		f, err := modfile.ParseWork("go.work", []byte(file), nil)
		if err != nil {
			run.ParseErr = true
			return
		}
		run.Work = f
		fs = f.Syntax
	} else {
		f, err := modfile.Parse("go.mod", []byte(file), nil)
		if err != nil {
			run.ParseErr = true
			return
		}
		run.Mod = f
		fs = f.Syntax
	}
	run.Lines = edTreeLines(fs)
	ids := map[*modfile.Line]int{}
	for i, l := range run.Lines {
		ids[l.Ptr] = i
		run.StartPtr[l.Ptr] = true
		if l.Blanks > 0 && len(l.Before) == 0 && len(l.Suffix) == 0 {
			run.BlankOnly[l.Ptr] = true
		}
	}
	if work {
		run.Start = edDirsOfWork(run.Work, ids)
	} else {
		run.Start = edDirsOfFile(run.Mod, ids)
	}
	edTrackBlocks(run, fs)
	cur := ""
	defer func() {
		if r := recover(); r != nil {
			run.Panic = cur
		}
	}()
	for _, o := range ops {
		cur = o.Name
		if o.Name == "cleanup" {
			edTrackCollapse(run, fs)
		}
		if !work && (o.Name == "setrequire" || o.Name == "setrequiresep") {
			edRecordPreBulk(run.PreBulkSuffix, run.Mod)
		}
		if work {
			run.Res = append(run.Res, edApplyWork(run.Work, o))
		} else {
			run.Res = append(run.Res, edApplyMod(run.Mod, o))
		}
		edTrackBlocks(run, fs)
	}
	cur = "final-cleanup"
	edTrackCollapse(run, fs)
	if work {
		run.Work.Cleanup()
		run.Typed = edDirsOfWork(run.Work, nil)
		cur = "format"
		run.Formatted = modfile.Format(run.Work.Syntax)
		cur = "reparse"
		g, err := modfile.ParseWork("go.work", run.Formatted, nil)
		if err == nil {
			run.ReWork = g
			run.Reparsed = edDirsOfWork(g, nil)
		}
	} else {
		run.Mod.Cleanup()
		run.Typed = edDirsOfFile(run.Mod, nil)
		cur = "format"
		run.Formatted, _ = run.Mod.Format()
		cur = "reparse"
		g, err := modfile.Parse("go.mod", run.Formatted, nil)
		if err == nil {
			run.ReMod = g
			run.Reparsed = edDirsOfFile(g, nil)
		}
	}
	return
}

// edDump is the canonical one-line dump compared with the Lean model.
func edDump(run *edRun) string {
	if run.ParseErr {
		return "err:parse"
	}
	if run.Panic != "" {
		return "panic:" + run.Panic
	}
	res := "_"
	if len(run.Res) > 0 {
		res = strings.Join(run.Res, ",")
	}
	re := "err:reparse"
	if run.Reparsed != nil {
		re = run.Reparsed.render(true)
	}
	return "ops=" + res + " typed: " + run.Typed.render(true) + " fmt=" + hx(string(run.Formatted)) + " reparse: " + re
}

// edSplitSession splits `<hexfile> | op ... | op ...`.
func edSplitSession(args []string) (string, []edOp, bool) {
	if len(args) == 0 {
		return "", nil, false
	}
	file := unhx(args[0])
	if len(args) == 1 {
		return file, nil, true
	}
	if args[1] != "|" {
		return "", nil, false
	}
	ops, ok := edParseOps(args[2:])
	return file, ops, ok
}

// ---------- the abstract step model (independent transcription of the DESIGN §6 table)

var edGoVersionRE = regexp.MustCompile(`^([1-9][0-9]*)\.(0|[1-9][0-9]*)(\.(0|[1-9][0-9]*))?([a-z]+[0-9]+)?$`)
var edToolchainRE = regexp.MustCompile(`^default$|^go1($|\.)`)

// edVersionOK: canonical version string that matches the major version of path.
func edVersionOK(path, vers string) bool {
	if vers == "" || module.CanonicalVersion(vers) != vers {
		return false
	}
	_, pathMajor, ok := module.SplitPathVersion(path)
	if ok {
		if module.CheckPathMajor(vers, pathMajor) != nil {
			return false
		}
	}
	return true
}

type edAbs struct {
	*edDirs
	Work    bool
	Touched map[int]bool
}

func (a *edAbs) touch(e edEnt) {
	if e.ID >= 0 {
		a.Touched[e.ID] = true
	}
}

func (a *edAbs) setScalar(p **edEnt, v string) {
	if *p == nil {
		*p = &edEnt{K: []string{v}, ID: -1}
		return
	}
	a.touch(**p)
	(*p).K = []string{v}
}

func (a *edAbs) dropScalar(p **edEnt) {
	if *p != nil {
		a.touch(**p)
		*p = nil
	}
}

// updFirstDropRest: the first entry matching gets upd applied, later matching entries are removed;
// reports whether any matched.
func (a *edAbs) updFirstDropRest(kind int, match func(edEnt) bool, upd func(*edEnt)) bool {
	var out []edEnt
	found := false
	for _, e := range a.L[kind] {
		if match(e) {
			a.touch(e)
			if !found {
				found = true
				upd(&e)
				out = append(out, e)
			}
			continue
		}
		out = append(out, e)
	}
	a.L[kind] = out
	return found
}

func (a *edAbs) dropAll(kind int, match func(edEnt) bool) {
	var out []edEnt
	for _, e := range a.L[kind] {
		if match(e) {
			a.touch(e)
			continue
		}
		out = append(out, e)
	}
	a.L[kind] = out
}

func (a *edAbs) has(kind int, match func(edEnt) bool) bool {
	for _, e := range a.L[kind] {
		if match(e) {
			return true
		}
	}
	return false
}

func edKeyEq(n int, k ...string) func(edEnt) bool {
	return func(e edEnt) bool {
		for i := 0; i < n; i++ {
			if e.K[i] != k[i] {
				return false
			}
		}
		return true
	}
}

// removeDups: exclude first wins, replace last wins per Old, tool first wins.
func (a *edAbs) removeDups() {
	firstWins := func(kind, n int) {
		seen := map[string]bool{}
		var out []edEnt
		for _, e := range a.L[kind] {
			key := strings.Join(e.K[:n], "\x00")
			if seen[key] {
				a.touch(e)
				continue
			}
			seen[key] = true
			out = append(out, e)
		}
		a.L[kind] = out
	}
	if !a.Work {
		firstWins(edExclude, 2)
	}
	// replace: last wins
	seen := map[string]bool{}
	keep := make([]bool, len(a.L[edReplace]))
	for i := len(a.L[edReplace]) - 1; i >= 0; i-- {
		e := a.L[edReplace][i]
		key := e.K[0] + "\x00" + e.K[1]
		if !seen[key] {
			seen[key] = true
			keep[i] = true
		}
	}
	var out []edEnt
	for i, e := range a.L[edReplace] {
		if keep[i] {
			out = append(out, e)
		} else {
			a.touch(e)
		}
	}
	a.L[edReplace] = out
	if !a.Work {
		firstWins(edTool, 1)
	}
}

// setExact: entries become exactly want (distinct keys): the first existing entry of each wanted key
// is kept (and updated by upd), all others removed, missing ones appended in the order of want.
func (a *edAbs) setExact(kind int, want []edEnt, upd func(dst *edEnt, w edEnt)) {
	need := map[string]edEnt{}
	for _, w := range want {
		need[w.K[0]] = w
	}
	have := map[string]bool{}
	var out []edEnt
	for _, e := range a.L[kind] {
		a.touch(e)
		w, ok := need[e.K[0]]
		if !ok || have[e.K[0]] {
			continue
		}
		have[e.K[0]] = true
		upd(&e, w)
		out = append(out, e)
	}
	for _, w := range want {
		if !have[w.K[0]] {
			have[w.K[0]] = true
			n := edEnt{ID: -1}
			upd(&n, w)
			out = append(out, n)
		}
	}
	a.L[kind] = out
}

// step applies one op; returns "ok" or "err" (err = no change).
func (a *edAbs) step(o edOp) string {
	A := o.A
	switch o.Name {
	case "module":
		a.setScalar(&a.Module, A[0])
	case "go":
		if !edGoVersionRE.MatchString(A[0]) {
			return "err"
		}
		a.setScalar(&a.Go, A[0])
	case "dropgo":
		a.dropScalar(&a.Go)
	case "toolchain":
		if !edToolchainRE.MatchString(A[0]) {
			return "err"
		}
		a.setScalar(&a.Toolchain, A[0])
	case "droptoolchain":
		a.dropScalar(&a.Toolchain)
	case "godebug":
		if !a.updFirstDropRest(edGodebug, edKeyEq(1, A[0]), func(e *edEnt) { e.K = []string{A[0], A[1]} }) {
			a.L[edGodebug] = append(a.L[edGodebug], edEnt{K: []string{A[0], A[1]}, ID: -1})
		}
	case "dropgodebug":
		a.dropAll(edGodebug, edKeyEq(1, A[0]))
	case "require":
		if !a.updFirstDropRest(edRequire, edKeyEq(1, A[0]), func(e *edEnt) { e.K = []string{A[0], A[1]} }) {
			a.L[edRequire] = append(a.L[edRequire], edEnt{K: []string{A[0], A[1]}, ID: -1})
		}
	case "newrequire":
		a.L[edRequire] = append(a.L[edRequire], edEnt{K: []string{A[0], A[1]}, Ind: A[2] == "1", ID: -1})
	case "droprequire":
		a.dropAll(edRequire, edKeyEq(1, A[0]))
	case "setrequire", "setrequiresep":
		a.setExact(edRequire, o.List, func(d *edEnt, w edEnt) { d.K = []string{w.K[0], w.K[1]}; d.Ind = w.Ind })
		a.removeDups()
	case "exclude":
		if !edVersionOK(A[0], A[1]) {
			return "err"
		}
		if !a.has(edExclude, edKeyEq(2, A[0], A[1])) {
			a.L[edExclude] = append(a.L[edExclude], edEnt{K: []string{A[0], A[1]}, ID: -1})
		}
	case "dropexclude":
		a.dropAll(edExclude, edKeyEq(2, A[0], A[1]))
	case "replace":
		match := func(e edEnt) bool { return e.K[0] == A[0] && (A[1] == "" || e.K[1] == A[1]) }
		if !a.updFirstDropRest(edReplace, match, func(e *edEnt) { e.K = []string{A[0], A[1], A[2], A[3]} }) {
			a.L[edReplace] = append(a.L[edReplace], edEnt{K: []string{A[0], A[1], A[2], A[3]}, ID: -1})
		}
	case "dropreplace":
		a.dropAll(edReplace, edKeyEq(2, A[0], A[1]))
	case "retract":
		path := ""
		if a.Module != nil {
			path = a.Module.K[0]
		}
		if !edVersionOK(path, A[1]) || !edVersionOK(path, A[0]) {
			return "err"
		}
		a.L[edRetract] = append(a.L[edRetract], edEnt{K: []string{A[0], A[1], edNormRationale(A[2])}, ID: -1})
	case "dropretract":
		a.dropAll(edRetract, edKeyEq(2, A[0], A[1]))
	case "tool":
		if !a.has(edTool, edKeyEq(1, A[0])) {
			a.L[edTool] = append(a.L[edTool], edEnt{K: []string{A[0]}, ID: -1})
			a.removeDups()
		}
	case "droptool":
		a.dropAll(edTool, edKeyEq(1, A[0]))
	case "sortblocks":
		a.removeDups()
	case "cleanup":
	case "use":
		if !a.updFirstDropRest(edUse, edKeyEq(1, A[0]), func(e *edEnt) {}) {
			a.L[edUse] = append(a.L[edUse], edEnt{K: []string{A[0]}, ID: -1})
		}
	case "newuse":
		a.L[edUse] = append(a.L[edUse], edEnt{K: []string{A[0]}, ID: -1})
	case "dropuse":
		a.dropAll(edUse, edKeyEq(1, A[0]))
	case "setuse":
		a.setExact(edUse, o.List, func(d *edEnt, w edEnt) { d.K = []string{w.K[0]} })
		a.removeDups()
	default:
		return "bad"
	}
	return "ok"
}

// edNormRationale: a rationale is stored as comment lines; what is read back is each line trimmed.
func edNormRationale(s string) string {
	if s == "" {
		return ""
	}
	ls := strings.Split(s, "\n")
	for i := range ls {
		ls[i] = strings.TrimSpace(ls[i])
	}
	return strings.Join(ls, "\n")
}

func edCloneDirs(d *edDirs) *edDirs {
	c := &edDirs{}
	cp := func(e *edEnt) *edEnt {
		if e == nil {
			return nil
		}
		n := *e
		n.K = append([]string{}, e.K...)
		return &n
	}
	c.Module, c.Go, c.Toolchain = cp(d.Module), cp(d.Go), cp(d.Toolchain)
	for k := range d.L {
		for _, e := range d.L[k] {
			c.L[k] = append(c.L[k], *cp(&e))
		}
	}
	return c
}

// edAbsRun runs the abstract model from a start state.
func edAbsRun(work bool, start *edDirs, ops []edOp) (*edAbs, []string) {
	a := &edAbs{edDirs: edCloneDirs(start), Work: work, Touched: map[int]bool{}}
	var res []string
	for _, o := range ops {
		res = append(res, a.step(o))
	}
	return a, res
}
