package main

// C04 — semver: grammar, accessors, Compare preorder, Sort.

import (
	"math/big"
	"regexp"
	"sort"
	"strings"
	"unicode/utf8"

	"golang.org/x/mod/module"
	"golang.org/x/mod/semver"
)

func init() {
	impls["semver.isvalid"] = func(a []string) string { return showBool(semver.IsValid(unhx(a[0]))) }
	impls["semver.canonical"] = func(a []string) string { return hx(semver.Canonical(unhx(a[0]))) }
	impls["semver.major"] = func(a []string) string { return hx(semver.Major(unhx(a[0]))) }
	impls["semver.majorminor"] = func(a []string) string { return hx(semver.MajorMinor(unhx(a[0]))) }
	impls["semver.prerelease"] = func(a []string) string { return hx(semver.Prerelease(unhx(a[0]))) }
	impls["semver.build"] = func(a []string) string { return hx(semver.Build(unhx(a[0]))) }
	impls["semver.compare"] = func(a []string) string { return itoa(semver.Compare(unhx(a[0]), unhx(a[1]))) }
	impls["semver.max"] = func(a []string) string { return hx(semver.Max(unhx(a[0]), unhx(a[1]))) }
	impls["semver.sort"] = func(a []string) string {
		l := unhxList(a[0])
		semver.Sort(l)
		return hxList(l)
	}
	impls["semver.canonicalversion"] = func(a []string) string { return hx(module.CanonicalVersion(unhx(a[0]))) }
	register(&Prop{ID: "C04", Gen: genC04, Oracle: oracleC04,
		Rule: "grammar-directed versions (numeric fields 1-40 digits, 0-4 prerelease identifiers of 4 kinds, build parts), near-misses by one mutation, pairs with long common prefixes, divergent pairs (common prefix cut at every kind of junction inside the prerelease, tails of different length/class), every byte value and well-formed non-ASCII runes of every residue mod 256 and every UTF-8 length at every position of grammar-generated versions, random bytes; non-trivial = valid or one mutation from valid; distinct by op line"})
}

const digits = "0123456789"
const identAlpha = "abcxyzABCXYZ-"

func genNum(r *Rand) string {
	switch r.Intn(10) {
	case 0:
		return "0"
	case 1, 2, 3, 4:
		return string(digits[1+r.Intn(9)])
	case 5, 6:
		return string(digits[1+r.Intn(9)]) + r.Bytes(r.Intn(3), digits)
	case 7:
		return string(digits[1+r.Intn(9)]) + r.Bytes(15+r.Intn(25), digits) // > 64 bits
	default:
		return string(digits[1+r.Intn(9)]) + r.Bytes(r.Intn(20), digits)
	}
}

func genIdent(r *Rand) string {
	switch r.Intn(6) {
	case 0:
		return genNum(r)
	case 1:
		return r.Bytes(1+r.Intn(4), identAlpha)
	case 2:
		return "0" + r.Bytes(1+r.Intn(3), identAlpha) // leading-zero alnum is fine
	case 3:
		return r.Bytes(1+r.Intn(3), digits) + r.Bytes(1, "abc-") + r.Bytes(r.Intn(3), digits)
	case 4:
		return r.Pick([]string{"rc", "rc1", "rc2", "alpha", "beta", "pre", "0", "1", "10", "2", "-", "--", "x-y"})
	default:
		return r.Bytes(1+r.Intn(6), digits+identAlpha)
	}
}

func genValidVersion(r *Rand) string {
	v := "v" + genNum(r)
	switch r.Intn(8) {
	case 0:
		return v
	case 1:
		return v + "." + genNum(r)
	}
	v += "." + genNum(r) + "." + genNum(r)
	if r.Chance(50) {
		n := 1 + r.Intn(4)
		ids := make([]string, n)
		for i := range ids {
			ids[i] = genIdent(r)
		}
		v += "-" + strings.Join(ids, ".")
	}
	if r.Chance(30) {
		n := 1 + r.Intn(3)
		ids := make([]string, n)
		for i := range ids {
			ids[i] = r.Bytes(1+r.Intn(4), digits+identAlpha)
		}
		if r.Chance(20) {
			ids = []string{"incompatible"}
		}
		v += "+" + strings.Join(ids, ".")
	}
	return v
}

func mutate(r *Rand, s string, alphabet string) string {
	b := []byte(s)
	switch r.Intn(5) {
	case 0: // delete
		if len(b) > 0 {
			i := r.Intn(len(b))
			b = append(b[:i:i], b[i+1:]...)
		}
	case 1: // insert
		i := r.Intn(len(b) + 1)
		c := alphabet[r.Intn(len(alphabet))]
		b = append(b[:i:i], append([]byte{c}, b[i:]...)...)
	case 2: // replace
		if len(b) > 0 {
			b[r.Intn(len(b))] = alphabet[r.Intn(len(alphabet))]
		}
	case 3: // swap
		if len(b) > 1 {
			i := r.Intn(len(b) - 1)
			b[i], b[i+1] = b[i+1], b[i]
		}
	case 4: // duplicate a byte
		if len(b) > 0 {
			i := r.Intn(len(b))
			b = append(b[:i+1:i+1], b[i:]...)
		}
	}
	return string(b)
}

const semverMutAlphabet = "v0123456789.-+abzAZ_ \x00\xff"

// genVersion returns a version string and whether it is non-trivial (valid or one mutation from valid).
func genVersion(r *Rand) (string, bool) {
	switch r.Intn(10) {
	case 0:
		return mutate(r, genValidVersion(r), semverMutAlphabet), true
	case 1:
		return r.Pick([]string{"", "v", "v1.2-pre", "v1.2+meta", "v1-pre", "v1.2.3+", "v1.2.3-", "v1.2.3-01", "v1.2.3-0", "v1.2.3-00a",
			"v01.2.3", "v1.02.3", "v1.2.03", "v1.2.3-a..b", "v1.2.3+a..b", "v1.2.3-a+b-c", "v1.2.3+a-b+c", "1.2.3", "V1.2.3", "v1.2.3.4",
			"v1.2.3-a.b.c+d.e", "v0", "v0.0", "v0.0.0", "v1.2.3 ", "v1.2.3-é", "v1.2.3-\xff"}), true
	case 2:
		return r.Bytes(r.Intn(12), semverMutAlphabet), false
	case 3:
		// the literal suffix module.CanonicalVersion looks for, on valid, shortened and invalid strings
		base := r.Pick([]string{"", "v", "v1", "v1.2", "v1.2.3", "v01.2.3", "v1.2.3-pre", "v1.2.3+meta", "v1.2.3-", "1.2.3", "vx", genValidVersion(r), mutate(r, genValidVersion(r), semverMutAlphabet)})
		return base + r.Pick([]string{"+incompatible", "+incompatible", "+Incompatible", "+incompatible.1", "+incompatibl", "-incompatible", "+meta+incompatible", ".incompatible"}), true
	}
	return genValidVersion(r), true
}

// related version: shares a long prefix with v
func genRelated(r *Rand, v string) string {
	switch r.Intn(4) {
	case 0:
		return mutate(r, v, "0123456789.-+a")
	case 1:
		if i := strings.IndexAny(v, "-+"); i > 0 {
			return v[:i]
		}
		return v + "-" + genIdent(r)
	case 2:
		return v + "." + genIdent(r)
	default:
		return semver.Canonical(v)
	}
}

// c04Tail returns the part of a version after the point where two related versions start to differ.
// The family covers every class the precedence rules distinguish: numbers of different lengths (where
// numeric and bytewise order disagree: 9 / 10), equal lengths, numbers longer than 64 bits, leading
// zeros, alphanumerics starting with a digit, letters, hyphens, nothing at all; optionally followed by
// further identifiers or build metadata.
func c04Tail(r *Rand) string {
	var t string
	switch r.Intn(9) {
	case 0:
		t = ""
	case 1, 2:
		t = r.Bytes(1+r.Intn(3), digits)
	case 3:
		t = r.Pick([]string{"9", "10", "2", "1", "0", "19", "100", "99"})
	case 4:
		t = r.Bytes(18+r.Intn(6), digits) // around and above 64 bits
	case 5:
		t = r.Bytes(1+r.Intn(2), digits) + r.Bytes(1, identAlpha) + r.Bytes(r.Intn(2), digits)
	case 6:
		t = r.Bytes(1+r.Intn(2), identAlpha) + r.Bytes(r.Intn(3), digits)
	case 7:
		t = "-" + r.Bytes(r.Intn(3), digits)
	default:
		t = genIdent(r)
	}
	switch r.Intn(8) {
	case 0:
		t += "." + genIdent(r)
	case 1:
		t += "+" + r.Bytes(1+r.Intn(3), digits+identAlpha)
	}
	return t
}

// c04Divergent returns k versions that agree byte for byte up to a junction and differ after it.
// Input class added for seeded change r3-C04-a: independent versions, one-byte mutations and
// appended identifiers (genRelated) never give two versions whose common prefix ends INSIDE a
// prerelease identifier (e.g. just after a hyphen that is an ordinary identifier character) and
// whose remainders fall into different length/identifier classes; a comparison that splits or
// classifies identifiers from the point of first difference instead of from the identifier start
// is only visible on such pairs. The junction is a cut anywhere in a valid version (mostly in its
// prerelease) followed by one byte of each class of the prerelease grammar ('.', '-', letter,
// digit, or nothing).
func c04Divergent(r *Rand, k int) []string {
	base := "v" + genNum(r) + "." + genNum(r) + "." + genNum(r)
	if r.Chance(10) {
		base = "v1.0.0"
	}
	lo := len(base)
	n := r.Intn(4)
	ids := make([]string, n)
	for i := range ids {
		ids[i] = genIdent(r)
	}
	base += "-" + strings.Join(ids, ".")
	if n == 0 {
		base = base[:len(base)-1]
		if r.Bool() {
			base += "-"
		}
	}
	cut := len(base)
	switch r.Intn(10) {
	case 0: // anywhere, including inside major.minor.patch
		cut = 1 + r.Intn(len(base))
	case 1, 2, 3, 4: // anywhere in the prerelease
		cut = lo + r.Intn(len(base)-lo+1)
	}
	prefix := base[:cut] + r.Pick([]string{"", "", ".", "-", "-", "a", "x-", "1", "0"})
	out := make([]string, k)
	for i := range out {
		out[i] = prefix + c04Tail(r)
	}
	return out
}

// c04AllDigits reports whether s is a non-empty string of ASCII digits.
func c04AllDigits(s string) bool {
	for i := 0; i < len(s); i++ {
		if s[i] < '0' || '9' < s[i] {
			return false
		}
	}
	return s != ""
}

func c04CmpNum(a, b string) int {
	x, ok1 := new(big.Int).SetString(a, 10)
	y, ok2 := new(big.Int).SetString(b, 10)
	if !ok1 || !ok2 {
		panic("c04CmpNum: not a number: " + a + " " + b)
	}
	return x.Cmp(y)
}

// c04RefCompare is SemVer 2.0.0 section 11 precedence written down directly (independent of the
// package: validity from the grammar regexp, fields by strings.Cut/Split, numbers as big.Int), extended
// as the package documents: missing minor/patch are 0, build metadata is ignored, all invalid strings
// are equal and below all valid ones.
func c04RefCompare(v, w string) int {
	vv, wv := semverRE.MatchString(v), semverRE.MatchString(w)
	switch {
	case !vv && !wv:
		return 0
	case !vv:
		return -1
	case !wv:
		return +1
	}
	split := func(s string) (core []string, pre []string, hasPre bool) {
		s = s[1:]
		s, _, _ = strings.Cut(s, "+")
		s, p, hasPre := strings.Cut(s, "-") // major.minor.patch contains no hyphen: the first one starts the prerelease
		core = strings.Split(s, ".")
		for len(core) < 3 {
			core = append(core, "0")
		}
		if hasPre {
			pre = strings.Split(p, ".")
		}
		return core, pre, hasPre
	}
	vc, vp, vh := split(v)
	wc, wp, wh := split(w)
	for i := 0; i < 3; i++ {
		if c := c04CmpNum(vc[i], wc[i]); c != 0 {
			return c
		}
	}
	switch {
	case !vh && !wh:
		return 0
	case !vh:
		return +1 // a version without prerelease has higher precedence
	case !wh:
		return -1
	}
	for i := 0; i < len(vp) && i < len(wp); i++ {
		a, b := vp[i], wp[i]
		if a == b {
			continue
		}
		an, bn := c04AllDigits(a), c04AllDigits(b)
		switch {
		case an && bn:
			return c04CmpNum(a, b)
		case an:
			return -1 // numeric identifiers have lower precedence than alphanumeric ones
		case bn:
			return +1
		}
		return strings.Compare(a, b) // ASCII order
	}
	switch {
	case len(vp) < len(wp):
		return -1
	case len(vp) > len(wp):
		return +1
	}
	return 0
}

func genC04(g *Gen, n int) {
	// every byte value at every position of one grammar-generated full version with prerelease and
	// build (see c04ByteSweep), through validity and the accessor that depends on the changed part
	tmpls := c04SweepTemplates(g.Rand, 1)
	ops := []string{"semver.isvalid ", "semver.canonical ", "semver.prerelease ", "semver.build ", "semver.canonicalversion "}
	for _, tmpl := range tmpls[len(tmpls)-1:] {
		c04ByteSweep(tmpl, false, func(v string) {
			g.Emit(ops[g.Intn(len(ops))]+hx(v), true, "byte-sweep")
		})
		for b := 0; b < 256; b++ { // appended byte: the trailing-garbage class
			v := tmpl + string([]byte{byte(b)})
			g.Emit("semver.isvalid "+hx(v), true, "byte-sweep")
			g.Emit("semver.compare "+hx(v)+" "+hx(tmpl), true, "byte-sweep")
		}
	}
	for i := 0; i < n; i++ {
		v, nt := genVersion(g.Rand)
		switch g.Intn(12) {
		case 0:
			g.Emit("semver.isvalid "+hx(v), nt, "single")
		case 1:
			g.Emit("semver.canonical "+hx(v), nt, "single")
		case 2:
			g.Emit("semver.major "+hx(v), nt, "single")
		case 3:
			g.Emit("semver.majorminor "+hx(v), nt, "single")
		case 4:
			g.Emit("semver.prerelease "+hx(v), nt, "single")
		case 5:
			g.Emit("semver.build "+hx(v), nt, "single")
		case 6:
			g.Emit("semver.canonicalversion "+hx(v), nt, "single")
		case 7, 8, 9:
			var w string
			tag := "pair"
			if g.Chance(25) {
				d := c04Divergent(g.Rand, 2)
				v, w, nt, tag = d[0], d[1], true, "divergent-pair"
			} else if g.Chance(60) {
				w = genRelated(g.Rand, v)
			} else {
				w, _ = genVersion(g.Rand)
			}
			if g.Bool() {
				g.Emit("semver.compare "+hx(v)+" "+hx(w), nt, tag)
			} else {
				g.Emit("semver.max "+hx(v)+" "+hx(w), nt, tag)
			}
		default:
			k := g.Intn(8)
			l := []string{v}
			if g.Chance(20) {
				l = append(l, c04Divergent(g.Rand, 2+g.Intn(4))...)
			}
			for j := 0; j < k; j++ {
				if g.Chance(50) {
					l = append(l, genRelated(g.Rand, l[g.Intn(len(l))]))
				} else {
					w, _ := genVersion(g.Rand)
					l = append(l, w)
				}
			}
			g.Emit("semver.sort "+hxList(l), nt, "sort")
		}
	}
	// well-formed non-ASCII runes at every position of grammar-generated full versions (prerelease
	// and build), one code point of a random UTF-8 length per residue mod 256 (see c04RuneSweep)
	for _, res := range c04Residues(true) {
		rs := c04ResidueRunes(g.Rand, res, false)
		c := rs[g.Intn(len(rs))]
		tmpl := tmpls[len(tmpls)-1]
		if thorough {
			tmpl = genValidVersion(g.Rand)
		}
		c04RuneSweep(tmpl, c, g.Bool(), func(v string) {
			switch g.Intn(7) {
			case 0:
				g.Emit("semver.compare "+hx(v)+" "+hx(tmpl), true, "rune-sweep")
			case 1:
				g.Emit("semver.sort "+hxList([]string{tmpl, v, "v0.0.0-0", v + "x"}), true, "rune-sweep")
			default:
				g.Emit(ops[g.Intn(len(ops))]+hx(v), true, "rune-sweep")
			}
		})
	}
}

// independent grammar oracle (regexp), from the package documentation + SemVer 2.0.0
var semverRE = regexp.MustCompile(`^v(0|[1-9][0-9]*)(\.(0|[1-9][0-9]*)(\.(0|[1-9][0-9]*)(-((0|[1-9][0-9]*|[0-9]*[A-Za-z-][0-9A-Za-z-]*)(\.(0|[1-9][0-9]*|[0-9]*[A-Za-z-][0-9A-Za-z-]*))*))?(\+([0-9A-Za-z-]+(\.[0-9A-Za-z-]+)*))?)?)?$`)

func sign(x int) int {
	if x < 0 {
		return -1
	}
	if x > 0 {
		return 1
	}
	return 0
}

// c04CheckOne states the one-string clauses of the property on v: validity is the documented grammar,
// the accessors and CanonicalVersion are empty for invalid strings, CanonicalVersion is Canonical plus
// exactly the +incompatible suffix, Canonical is a fixed point equal to v under Compare.
func c04CheckOne(g *Gen, v string) {
	if semver.IsValid(v) != (semverRE.MatchString(v) && !strings.Contains(v, "\n")) {
		g.Fail("IsValid disagrees with the documented grammar", v, "semver.isvalid "+hx(v))
	}
	if !semver.IsValid(v) && (semver.Canonical(v) != "" || semver.Major(v) != "" || semver.MajorMinor(v) != "" || semver.Prerelease(v) != "" || semver.Build(v) != "") {
		g.Fail("accessor non-empty for invalid version", v, "semver.canonical "+hx(v))
	}
	want := semver.Canonical(v)
	if semver.Build(v) == "+incompatible" {
		want += "+incompatible"
	}
	if cv := module.CanonicalVersion(v); cv != want || !semver.IsValid(v) && cv != "" {
		g.Fail("CanonicalVersion is not Canonical plus exactly the +incompatible build suffix (empty for invalid strings)", v, "semver.canonicalversion "+hx(v))
	}
	if semver.IsValid(v) {
		cn := semver.Canonical(v)
		if semver.Compare(v, cn) != 0 || !semver.IsValid(cn) || semver.Canonical(cn) != cn {
			g.Fail("Canonical not a fixed point / not equal under Compare", v, "semver.canonical "+hx(v))
		}
	}
}

// c04SweepTemplates returns well-formed versions that between them have every position class of the
// grammar: inside major/minor/patch, at the separators, inside a prerelease identifier (numeric,
// alphanumeric, hyphen), between prerelease identifiers, inside and between build identifiers, the
// +incompatible suffix, short forms. A few are fixed, the rest grammar-generated with short fields.
func c04SweepTemplates(r *Rand, k int) []string {
	t := []string{"v1.2.3-rc1", "v1.2.3-rc.1+build.5", "v1.2.3+meta", "v2.0.0+incompatible", "v1.2", "v1.0.0-0.x-y.10+a-b.0"}
	for i := 0; i < k; i++ {
		num := func() string { return r.Pick([]string{"0", "1", "7", "10", "23"}) }
		id := func() string {
			return r.Pick([]string{"0", "1", "10", "rc", "rc1", "a", "Z", "-", "x-y", "0a", "1-"})
		}
		v := "v" + num() + "." + num() + "." + num() + "-" + id()
		for j := r.Intn(3); j > 0; j-- {
			v += "." + id()
		}
		v += "+" + r.Pick([]string{"meta", "incompatible", "b1", "0", "-"})
		for j := r.Intn(2); j > 0; j-- {
			v += "." + id()
		}
		t = append(t, v)
	}
	return t
}

// c04ByteSweep calls f on every string obtained from tmpl by replacing the byte at one position by
// any of the 256 byte values, or inserting any byte value at any position (including the end).
//
// Input class added for seeded change r5-C04-b: all other streams draw the "foreign" byte of a
// near-miss from a small alphabet (version characters, '_', space, NUL, 0xff, a few literals), so a
// character-class predicate that is wrong for ONE byte value outside that alphabet (there: 0x0d,
// accepted as an identifier character after a case fold) is never exercised where it matters - inside
// or at the end of the prerelease / build part of an otherwise well-formed vX.Y.Z. The sweep is
// exhaustive on a small scope: every byte value at every position of a few templates.
func c04ByteSweep(tmpl string, insert bool, f func(v string)) {
	for pos := 0; pos <= len(tmpl); pos++ {
		for b := 0; b < 256; b++ {
			if pos < len(tmpl) && byte(b) != tmpl[pos] {
				f(tmpl[:pos] + string([]byte{byte(b)}) + tmpl[pos+1:])
			}
			if insert {
				f(tmpl[:pos] + string([]byte{byte(b)}) + tmpl[pos:])
			}
		}
	}
}

// c04ResidueRunes returns well-formed non-ASCII code points that are congruent to res modulo 256, from
// every encoded length: U+0080..U+00FF itself (only for res >= 0x80; two bytes, the control where the
// low byte IS the code point), U+01xx and U+04xx (two bytes; Latin Extended-A, Cyrillic), a random
// three-byte code point (surrogates skipped), a random four-byte code point, and a four-byte code
// point whose low SIXTEEN bits are res (U+10000*m + res). wide adds all of U+0100..U+07FF and more
// random three- and four-byte ones.
func c04ResidueRunes(r *Rand, res int, wide bool) []rune {
	var ks []int
	if res >= 0x80 {
		ks = append(ks, 0)
	}
	ks = append(ks, 1, 4)
	if wide {
		ks = append(ks, 2, 3, 5, 6, 7)
	}
	m := 1
	if wide {
		m = 4
	}
	for i := 0; i < m; i++ {
		k := 8 + r.Intn(248)
		if 0xd8 <= k && k <= 0xdf {
			k -= 0x40
		}
		ks = append(ks, k, 256+r.Intn(0x1100-256), 256*(1+r.Intn(16)))
	}
	var out []rune
	for _, k := range ks {
		c := rune(256*k + res)
		if c >= 0x80 && utf8.ValidRune(c) {
			out = append(out, c)
		}
	}
	return out
}

// c04Residues returns the residues modulo 256 the rune sweep uses: every identifier byte
// [0-9A-Za-z-], the structural bytes of the grammar ('v', '.', '+'), and a few controls that are
// no version character (NUL, newline, space, '_', 0x80, 0xe9, 0xfd, 0xff); all 256 when all is set.
func c04Residues(all bool) []int {
	var out []int
	for b := 0; b < 256; b++ {
		c := byte(b)
		ident := '0' <= c && c <= '9' || 'A' <= c && c <= 'Z' || 'a' <= c && c <= 'z' || c == '-'
		if all || ident || strings.IndexByte(".+\x00\n _\x80\xe9\xfd\xff", c) >= 0 {
			out = append(out, b)
		}
	}
	return out
}

// c04RuneSweep calls f on every string obtained from the (ASCII) template tmpl by replacing the byte at
// one position by the UTF-8 encoding of c, or (insert) inserting it at any position including the end.
//
// Input class added for seeded change r6-C04-a: well-formed non-ASCII runes inside build metadata /
// prerelease identifiers (and every other position of a well-formed version), swept by the value of
// the code point modulo 256. All other streams are byte-oriented: the foreign byte of a near-miss is
// one arbitrary byte (c04ByteSweep) or comes from a small alphabet, so a multi-byte character only
// ever appears as the two fixed literals "v1.2.3-\u00e9" / "v1.2.3-\xff" - a stray high byte, or a
// Latin-1 letter whose code point is its own low byte. A scanner that iterates over the string by
// rune and narrows the rune to a byte before classifying it (there: isIdentChar(byte(c)) in
// parseBuild) is wrong exactly on well-formed multi-byte characters whose code point reduced mod 256
// is an identifier byte (Cyrillic U+0430.., U+012D, U+0130..U+0139, CJK, ...), placed where everything
// else is legal; no single-byte substitution produces such a string. The sweep is exhaustive in the
// residue (every identifier byte, the separators, some controls) and in the position, and samples
// the code point of each residue from every UTF-8 length (see c04ResidueRunes).
func c04RuneSweep(tmpl string, c rune, insert bool, f func(v string)) {
	e := string(c)
	for pos := 0; pos <= len(tmpl); pos++ {
		if pos < len(tmpl) {
			f(tmpl[:pos] + e + tmpl[pos+1:])
		}
		if insert {
			f(tmpl[:pos] + e + tmpl[pos:])
		}
	}
}

func oracleC04(g *Gen, n int) {
	// exhaustive single-byte substitution / insertion sweep over a few templates (see c04ByteSweep):
	// one-string clauses on the result, and its order against the well-formed template it came from.
	k := 3
	if thorough {
		k = 40
	}
	for _, tmpl := range c04SweepTemplates(g.Rand, k) {
		c04ByteSweep(tmpl, true, func(v string) {
			g.Case("byte-sweep")
			c04CheckOne(g, v)
			got, want := semver.Compare(v, tmpl), c04RefCompare(v, tmpl)
			if got != want && !semverRE.MatchString(v) {
				g.Fail("invalid version not below valid one", v+" "+tmpl, "semver.compare "+hx(v)+" "+hx(tmpl))
			} else if got != want {
				g.Fail("Compare is not SemVer 2.0.0 precedence", v+" "+tmpl+" got "+itoa(got)+" want "+itoa(want), "semver.compare "+hx(v)+" "+hx(tmpl))
			}
		})
	}
	for i := 0; i < n; i++ {
		a, _ := genVersion(g.Rand)
		b := genRelated(g.Rand, a)
		c := genRelated(g.Rand, b)
		if g.Chance(30) {
			c, _ = genVersion(g.Rand)
		}
		if g.Chance(30) {
			// divergent triple: common prefix up to a junction, tails of different classes (see c04Divergent)
			d := c04Divergent(g.Rand, 3)
			a, b, c = d[0], d[1], d[2]
			g.Case("divergent")
		}
		g.Case("triple")
		// grammar
		for _, v := range []string{a, b, c} {
			c04CheckOne(g, v)
		}
		ab, ba := semver.Compare(a, b), semver.Compare(b, a)
		bc, ac := semver.Compare(b, c), semver.Compare(a, c)
		if semver.Compare(a, a) != 0 {
			g.Fail("Compare not reflexive", a, "semver.compare "+hx(a)+" "+hx(a))
		}
		if ab != -ba || ab < -1 || ab > 1 {
			g.Fail("Compare not antisymmetric", a+" "+b, "semver.compare "+hx(a)+" "+hx(b), "semver.compare "+hx(b)+" "+hx(a))
		}
		if ab <= 0 && bc <= 0 && !(ac <= 0) || (ab < 0 && bc <= 0 || ab <= 0 && bc < 0) && !(ac < 0) {
			g.Fail("Compare not transitive", a+" "+b+" "+c, "semver.compare "+hx(a)+" "+hx(b), "semver.compare "+hx(b)+" "+hx(c), "semver.compare "+hx(a)+" "+hx(c))
		}
		if (ab == 0) != (semver.Canonical(a) == semver.Canonical(b)) {
			g.Fail("Compare=0 is not canonical-form equality", a+" "+b, "semver.compare "+hx(a)+" "+hx(b), "semver.canonical "+hx(a), "semver.canonical "+hx(b))
		}
		if semver.IsValid(a) != semver.IsValid(b) && sign(ab) != map[bool]int{true: 1, false: -1}[semver.IsValid(a)] {
			g.Fail("invalid version not below valid one", a+" "+b, "semver.compare "+hx(a)+" "+hx(b))
		}
		// "orders versions by SemVer 2.0.0 precedence with numbers of any length compared numerically":
		// the preorder laws above hold for ANY consistent order; this clause pins the order itself.
		for _, p := range [][2]string{{a, b}, {b, c}, {a, c}} {
			if got, want := semver.Compare(p[0], p[1]), c04RefCompare(p[0], p[1]); got != want {
				g.Fail("Compare is not SemVer 2.0.0 precedence", p[0]+" "+p[1]+" got "+itoa(got)+" want "+itoa(want), "semver.compare "+hx(p[0])+" "+hx(p[1]))
			}
		}
		// sort: permutation, ordered by Compare then string
		l := []string{a, b, c, a}
		for j := g.Intn(5); j > 0; j-- {
			w, _ := genVersion(g.Rand)
			l = append(l, w)
		}
		s := append([]string(nil), l...)
		semver.Sort(s)
		x := append([]string(nil), l...)
		y := append([]string(nil), s...)
		sort.Strings(x)
		sort.Strings(y)
		perm := len(x) == len(y)
		for j := range x {
			if perm && x[j] != y[j] {
				perm = false
			}
		}
		ordered := true
		for j := 0; j+1 < len(s); j++ {
			cj := semver.Compare(s[j], s[j+1])
			if cj > 0 || cj == 0 && s[j] > s[j+1] {
				ordered = false
			}
		}
		if !perm || !ordered {
			g.Fail("Sort result is not an ordered permutation", strings.Join(l, " "), "semver.sort "+hxList(l))
		}
	}
	// well-formed non-ASCII runes, by residue of the code point mod 256, substituted / inserted at every
	// position of the sweep templates (see c04RuneSweep): the one-string clauses - first of all validity
	// against the independent regular grammar semverRE - and the order against the template.
	for _, tmpl := range c04SweepTemplates(g.Rand, k) {
		for _, res := range c04Residues(thorough) {
			for _, c := range c04ResidueRunes(g.Rand, res, thorough) {
				c04RuneSweep(tmpl, c, true, func(v string) {
					g.Case("rune-sweep")
					c04CheckOne(g, v)
					got, want := semver.Compare(v, tmpl), c04RefCompare(v, tmpl)
					if got != want && !semverRE.MatchString(v) {
						g.Fail("invalid version not below valid one", v+" "+tmpl, "semver.compare "+hx(v)+" "+hx(tmpl))
					} else if got != want {
						g.Fail("Compare is not SemVer 2.0.0 precedence", v+" "+tmpl+" got "+itoa(got)+" want "+itoa(want), "semver.compare "+hx(v)+" "+hx(tmpl))
					}
				})
			}
		}
	}
}
