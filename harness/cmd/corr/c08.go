package main

// C08 — go.mod / go.work edit operations refine the keyed-collection model (DESIGN §6 step table).

import (
	"strings"
)

func init() {
	impls["edit.session"] = func(a []string) string { return edImplSession(false, a) }
	impls["edit.worksession"] = func(a []string) string { return edImplSession(true, a) }
	impls["edit.absstep"] = edImplAbsStep
	register(&Prop{ID: "C08", Gen: genC08, Oracle: oracleC08,
		Rule: "grammar-directed well-formed go.mod/go.work starting files (all directive kinds, line/block/one-line-block/empty-block forms, duplicates, comments before/suffix/inside blocks, indirect markers, go versions below and from 1.21) x op sequences of length 1-12 (thorough 1-40) with argument pools biased to collide with existing keys, Cleanup before bulk setters and at the end; non-trivial = at least one op hits a line of the starting file; distinct by op line"})
}

func edImplSession(work bool, a []string) string {
	file, ops, ok := edSplitSession(a)
	if !ok {
		return "bad-op"
	}
	for _, o := range ops {
		if work && !edWorkOps[o.Name] {
			return "bad-op"
		}
		if !work && (o.Name == "use" || o.Name == "newuse" || o.Name == "setuse" || o.Name == "dropuse") {
			return "bad-op"
		}
	}
	return edDump(edRunSession(work, file, ops))
}

// edit.absstep mod|work <10 state tokens> | op | op ...   ->   ops=<res> abs: <state, in list order>
func edImplAbsStep(a []string) string {
	if len(a) < 11 || (a[0] != "mod" && a[0] != "work") {
		return "bad-op"
	}
	start, ok := edParseDirs(a[1:11])
	if !ok {
		return "bad-op"
	}
	var ops []edOp
	if len(a) > 11 {
		if a[11] != "|" {
			return "bad-op"
		}
		if ops, ok = edParseOps(a[12:]); !ok {
			return "bad-op"
		}
	}
	abs, res := edAbsRun(a[0] == "work", start, ops)
	r := "_"
	if len(res) > 0 {
		r = strings.Join(res, ",")
	}
	return "ops=" + r + " abs: " + abs.render(false)
}

func edAbsStepLine(work bool, start *edDirs, ops []edOp) string {
	k := "mod"
	if work {
		k = "work"
	}
	return "edit.absstep " + k + " " + start.render(false) + " | " + edEncodeOps(ops)
}

// edEmitModelOps: which op lines are sent to the Lean driver (and compared).
var edEmitAbs = true
var edEmitSession = true

func edGenCommon(g *Gen, n int, salt int) {
	for i := 0; i < salt; i++ {
		g.U64()
	}
	for i := 0; i < n; i++ {
		work := g.Chance(25)
		file, ops, hit := edGenSession(g.Rand, work)
		tags := []string{"len:" + sizeBucket(len(ops))}
		if work {
			tags = append(tags, "go.work")
		} else {
			tags = append(tags, "go.mod")
		}
		for _, o := range ops {
			tags = append(tags, "op:"+o.Name)
		}
		if edEmitAbs {
			run := edRunSession(work, file, nil)
			if !run.ParseErr {
				g.Emit(edAbsStepLine(work, run.Start, ops), hit, tags...)
			}
		}
		if edEmitSession {
			g.Emit(edSessionLine(work, file, ops), hit, tags...)
			if g.Chance(4) {
				f2, o2, h2 := edGenSessionOpt(g.Rand, work, false)
				out := g.Emit(edSessionLine(work, f2, o2), h2, "no-cleanup-before-bulk")
				if strings.HasPrefix(out, "panic") {
					g.st.Tags["impl-panic-on-cleared-entry"]++
				}
			}
		}
	}
}

func genC08(g *Gen, n int) { edGenCommon(g, n, 0) }

func edSubseq(need, have []string) bool {
	j := 0
	for _, h := range have {
		if j < len(need) && h == need[j] {
			j++
		}
	}
	return j == len(need)
}

func edInText(coms []string, text []byte) bool {
	for _, c := range coms {
		if !strings.Contains(string(text), c) {
			return false
		}
	}
	return true
}

func edEqStrs(a, b []string) bool {
	if len(a) != len(b) {
		return false
	}
	for i := range a {
		if a[i] != b[i] {
			return false
		}
	}
	return true
}

// edCheckC08 runs one session and checks the C08 statement; returns the failure signature ("" = holds).
func edCheckC08(work bool, file string, ops []edOp) (sig, info string) {
	run := edRunSession(work, file, ops)
	if run.ParseErr {
		return "", ""
	}
	if run.Panic != "" {
		return "c08-panic:" + run.Panic, ""
	}
	if run.Reparsed == nil {
		return "c08-reparse-fails", string(run.Formatted)
	}
	abs, res := edAbsRun(work, run.Start, ops)
	for i := range res {
		if res[i] != run.Res[i] {
			return "c08-op-result:" + ops[i].Name, "abstract " + res[i] + " impl " + run.Res[i]
		}
	}
	// directives of the strict re-parse = prediction, as multisets, per collection
	want := strings.Fields(abs.render(true))
	got := strings.Fields(run.Reparsed.render(true))
	typed := strings.Fields(run.Typed.render(true))
	names := []string{"module", "go", "toolchain"}
	names = append(names, edKindName[:]...)
	knownSig, knownInfo := "", ""
	defer func() {
		if sig == "" {
			sig, info = knownSig, knownInfo
		}
	}()
	for i := range want {
		if want[i] == got[i] {
			continue
		}
		name := names[i]
		if name == "retract" && want[i] == typed[i] {
			// the prediction agrees with the typed list, so the difference is typed-vs-reparse: name its cause
			if d := edRetractDetail(run); d != "" {
				name = d
			}
		}
		if name == "require" && want[i] == typed[i] && edRequireDetail(run.Typed, run.Reparsed) == "require-indirect" {
			// prediction = typed list, only indirect flags differ from the re-parse: name the recorded structural cause
			if d := edIndirectDetail(run); d == edSigRemainder || d == edSigEmptyBlockSuffix {
				name = d
			}
		}
		s, inf := "c08-directives:"+name, "predicted "+want[i]+" reparsed "+got[i]
		if !edKnownCause(s) {
			return s, inf
		}
		knownSig, knownInfo = s, inf
	}
	// untouched lines survive with tokens + Before + Suffix comments
	var fin, re []edLineRec
	if work {
		fin, re = edTreeLines(run.Work.Syntax), edTreeLines(run.ReWork.Syntax)
	} else {
		fin, re = edTreeLines(run.Mod.Syntax), edTreeLines(run.ReMod.Syntax)
	}
	if len(fin) != len(re) {
		return "c08-reparse-line-count", ""
	}
	pos := map[interface{}]int{}
	for i, l := range fin {
		pos[l.Ptr] = i
		if !edEqStrs(l.Tokens, re[i].Tokens) {
			return "c08-reparse-line-tokens", strings.Join(l.Tokens, " ") + " vs " + strings.Join(re[i].Tokens, " ")
		}
	}
	for id, orig := range run.Lines {
		if abs.Touched[id] {
			continue
		}
		k, ok := pos[orig.Ptr]
		if !ok {
			return "c08-untouched-line-lost", strings.Join(orig.Tokens, " ")
		}
		if !edEqStrs(re[k].Tokens, orig.Tokens) {
			return "c08-untouched-line-tokens", strings.Join(orig.Tokens, " ") + " became " + strings.Join(re[k].Tokens, " ")
		}
		// comments are compared on the in-memory tree (a re-parse may attach a comment that is followed by
		// a blank line to a separate comment block), and must also be present in the formatted text
		if !edSubseq(orig.Before, fin[k].Before) || !edInText(orig.Before, run.Formatted) {
			return "c08-untouched-line-before-comments", strings.Join(orig.Tokens, " ")
		}
		if !edSubseq(orig.Suffix, fin[k].Suffix) || !edInText(orig.Suffix, run.Formatted) {
			return "c08-untouched-line-suffix-comments", strings.Join(orig.Tokens, " ")
		}
	}
	return "", ""
}

// edShrink removes ops while the same signature keeps firing.
func edShrink(work bool, file string, ops []edOp, sig string, chk func(bool, string, []edOp) (string, string)) []edOp {
	changed := true
	for changed {
		changed = false
		for i := len(ops) - 1; i >= 0; i-- {
			cand := append(append([]edOp{}, ops[:i]...), ops[i+1:]...)
			if s, _ := chk(work, file, cand); s == sig {
				ops = cand
				changed = true
			}
		}
	}
	return ops
}

// edShrinkFile removes lines of the starting file while the same signature keeps firing.
func edShrinkFile(work bool, file string, ops []edOp, sig string, chk func(bool, string, []edOp) (string, string)) string {
	lines := strings.SplitAfter(file, "\n")
	changed := true
	for changed {
		changed = false
		for _, w := range []int{3, 2, 1} {
			for i := len(lines) - w; i >= 0; i-- {
				if i+w > len(lines) {
					continue
				}
				cand := append(append([]string{}, lines[:i]...), lines[i+w:]...)
				if s, _ := chk(work, strings.Join(cand, ""), ops); s == sig {
					lines = cand
					changed = true
				}
			}
		}
	}
	return strings.Join(lines, "")
}

// deterministic sessions of the recorded finding "empty-block-suffix-comment", run on every check: a line is put
// into `verb () // comment`, Cleanup collapses the block and appends the block's end-of-line comment to the line
var edFixedSessions = []struct {
	work bool
	file string
	ops  []edOp
}{
	{false, "module m\nrequire () // indirect\n", []edOp{{Name: "require", A: []string{"example.com/a", "v1.0.0"}}, {Name: "cleanup"}}},
	{false, "module m\nretract () // why\n", []edOp{{Name: "retract", A: []string{"v1.0.0", "v1.0.0", ""}}, {Name: "cleanup"}}},
	{true, "go 1.21\nuse () // why\n", []edOp{{Name: "use", A: []string{"./a", ""}}, {Name: "cleanup"}}},
}

func edOracleLoop(g *Gen, n int, tag string, chk func(bool, string, []edOp) (string, string)) {
	seen := map[string]bool{}
	for _, fx := range edFixedSessions {
		g.Case(tag + ":fixed")
		if sig, info := chk(fx.work, fx.file, fx.ops); sig != "" && !seen[sig] {
			seen[sig] = true
			g.Fail(sig, info+" || file: "+strings.ReplaceAll(fx.file, "\n", "\\n"), edSessionLine(fx.work, fx.file, fx.ops))
		}
	}
	for i := 0; i < n; i++ {
		work := g.Chance(25)
		file, ops, _ := edGenSession(g.Rand, work)
		g.Case(tag)
		sig, info := chk(work, file, ops)
		if sig == "" || seen[sig] {
			continue
		}
		seen[sig] = true
		ops = edShrink(work, file, ops, sig, chk)
		file = edShrinkFile(work, file, ops, sig, chk)
		ops = edShrink(work, file, ops, sig, chk)
		_, info = chk(work, file, ops)
		g.Fail(sig, info+" || file: "+strings.ReplaceAll(file, "\n", "\\n"), edSessionLine(work, file, ops))
	}
}

func oracleC08(g *Gen, n int) { edOracleLoop(g, n, "c08-session", edCheckC08) }
