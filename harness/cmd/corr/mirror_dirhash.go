package main

func init() {
	mirror("dirhash.hash1")
}
