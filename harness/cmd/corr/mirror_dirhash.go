package main

func init() {
	mirror("dirhash.hash1", "dirhash.dirfiles", "dirhash.hashdir", "dirhash.dirfilesat", "dirhash.hashdirat", "dirhash.dirfilesrel", "dirhash.hashdirrel")
}
