package main

// util_clreplay.go — `client.lookup`: one instance of the real sumdb.Client over a REPLAY ClientOps.
//
// The op line carries the whole environment: the successive answers of ReadRemote / ReadCache / ReadConfig per file
// and the successive results of WriteConfig.  The implementation side runs the real Client over clReplayOps; the model
// side (lean/ModVerif/Drv/Client.lean, `client.lookup`) runs Model/Client.lean over the same answers.  Both print
//
//	<result>;<result>… <effects> <reads>
//
// (results of the lookups in order; the WriteCache / WriteConfig / SecurityError calls in order, payloads as digests;
// digest of the sorted multiset of read operations with their success flag).
//
// Ed25519 is not modelled in Lean: the op line carries the public key and the table of (text, signature) pairs that
// ed25519.Verify accepts under it, computed here with the real crypto/ed25519 for every signature line occurring in any
// answer.  The implementation side ignores the table (it verifies for real).
//
// clSessions cuts the operation log of a scenario run (util_client.go) into one session per client instance.

import (
	"bytes"
	"crypto/ed25519"
	"crypto/sha256"
	"encoding/base64"
	"encoding/hex"
	"errors"
	"fmt"
	"os"
	"sort"
	"strconv"
	"strings"
	"sync"
	"time"

	"golang.org/x/mod/sumdb"
	"golang.org/x/mod/sumdb/tlog"
)

type clReplayRead struct {
	kind string // r c f
	file string
	data []byte
	ok   bool
}

type clSession struct {
	h       int
	nosumdb string
	pub     []byte
	reads   []clReplayRead
	writes  []string // o c e
	looks   [][2]string
}

type clReplayOps struct {
	mu     sync.Mutex
	reads  []clReplayRead
	used   []bool
	writes []string
	nw     int
	effs   []string
	rlog   []string
}

func clDig(b []byte) string {
	h := sha256.Sum256(b)
	return hex.EncodeToString(h[:])[:12]
}

func (o *clReplayOps) read(kind, file string) ([]byte, bool) {
	o.mu.Lock()
	defer o.mu.Unlock()
	var data []byte
	ok := false
	for i := range o.reads {
		if !o.used[i] && o.reads[i].kind == kind && o.reads[i].file == file {
			o.used[i] = true
			data, ok = append([]byte(nil), o.reads[i].data...), o.reads[i].ok
			break
		}
	}
	flag := "0"
	if ok {
		flag = "1"
	}
	o.rlog = append(o.rlog, kind+" "+hx(file)+" "+flag)
	return data, ok
}

func (o *clReplayOps) ReadRemote(path string) ([]byte, error) {
	d, ok := o.read("r", path)
	if !ok {
		return nil, clErrHTTP
	}
	return d, nil
}

func (o *clReplayOps) ReadCache(file string) ([]byte, error) {
	d, ok := o.read("c", file)
	if !ok {
		return nil, os.ErrNotExist
	}
	return d, nil
}

func (o *clReplayOps) ReadConfig(file string) ([]byte, error) {
	d, ok := o.read("f", file)
	if !ok {
		return nil, errors.New("clconfig: no such file")
	}
	return d, nil
}

func (o *clReplayOps) WriteConfig(file string, old, new []byte) error {
	o.mu.Lock()
	defer o.mu.Unlock()
	res := "e"
	if o.nw < len(o.writes) {
		res = o.writes[o.nw]
		o.nw++
	}
	o.effs = append(o.effs, "wf."+res+"."+hx(file)+"."+clDig(old)+"."+clDig(new))
	switch res {
	case "o":
		return nil
	case "c":
		return sumdb.ErrWriteConflict
	}
	return errors.New("clconfig: write refused")
}

func (o *clReplayOps) WriteCache(file string, data []byte) {
	o.mu.Lock()
	defer o.mu.Unlock()
	o.effs = append(o.effs, "wc."+hx(file)+"."+clDig(data))
}

func (o *clReplayOps) Log(msg string) {}

func (o *clReplayOps) SecurityError(msg string) {
	o.mu.Lock()
	defer o.mu.Unlock()
	o.effs = append(o.effs, "sec."+clDig(clCanonSec([]byte(msg))))
}

// clCanonSec replaces the text of an error inside a SecurityError message ("\tinternal error: %v\n") by its canonical
// kind; everything else is kept byte for byte.
func clCanonSec(msg []byte) []byte {
	const mark = "proof of misbehavior:\n\t"
	i := bytes.Index(msg, []byte(mark))
	if i < 0 {
		return msg
	}
	j := i + len(mark) + 44 // the recomputed hash, base64
	if j > len(msg) {
		return msg
	}
	tail := msg[j:]
	const ie = "\tinternal error: "
	if !bytes.HasPrefix(tail, []byte(ie)) || string(tail) == ie+"generated inconsistent proof\n" {
		return msg
	}
	text := strings.TrimSuffix(string(tail[len(ie):]), "\n")
	out := append([]byte(nil), msg[:j]...)
	return append(out, []byte(ie+clErrKind(errors.New(text))+"\n")...)
}

// clRunSession runs the lookups of a session on a fresh real Client over the replay ops.
func clRunSession(s *clSession) string {
	ops := &clReplayOps{reads: s.reads, used: make([]bool, len(s.reads)), writes: s.writes}
	cl := sumdb.NewClient(ops)
	if s.h > 0 {
		cl.SetTileHeight(s.h)
	}
	if s.nosumdb != "" {
		cl.SetGONOSUMDB(s.nosumdb)
	}
	var res []string
	for _, pv := range s.looks {
		var lines []string
		var err error
		done := make(chan struct{})
		go func() {
			defer close(done)
			defer func() {
				if r := recover(); r != nil {
					err = fmt.Errorf("panic: %v", r)
				}
			}()
			lines, err = cl.Lookup(pv[0], pv[1])
		}()
		select {
		case <-done:
		case <-time.After(clLookupTimeout):
			return "hang"
		}
		k := clErrKind(err)
		if err != nil && strings.HasPrefix(err.Error(), "panic:") {
			k = "panic"
		}
		if err == nil {
			k = "ok:" + itoa(len(lines)) + ":" + clDig([]byte(strings.Join(lines, "\n")))
		}
		res = append(res, k)
	}
	ops.mu.Lock()
	defer ops.mu.Unlock()
	effs := "_"
	if len(ops.effs) > 0 {
		effs = strings.Join(ops.effs, ",")
	}
	rl := append([]string(nil), ops.rlog...)
	sort.Strings(rl)
	return strings.Join(res, ";") + " " + effs + " " + clDig([]byte(strings.Join(rl, "\n")))
}

// ---------------------------------------------------------------------------------------------
// line encoding

func clHexOrBang(r clReplayRead) string {
	if !r.ok {
		return "!"
	}
	return hx(string(r.data))
}

// clVerdicts: every (text, signature) pair, taken from the signature lines of every answer, that ed25519.Verify accepts.
func clVerdicts(pub []byte, reads []clReplayRead) []string {
	seen := map[string]bool{}
	var out []string
	try := func(msg []byte) {
		split := bytes.LastIndex(msg, []byte("\n\n"))
		if split < 0 {
			return
		}
		text, sigs := msg[:split+1], msg[split+2:]
		for _, line := range bytes.Split(sigs, []byte("\n")) {
			if !bytes.HasPrefix(line, []byte("— ")) {
				continue
			}
			line = line[len("— "):]
			i := bytes.IndexByte(line, ' ')
			if i < 0 {
				continue
			}
			raw, err := base64.StdEncoding.DecodeString(string(line[i+1:]))
			if err != nil || len(raw) < 5 {
				continue
			}
			if len(pub) == ed25519.PublicKeySize && ed25519.Verify(pub, text, raw[4:]) {
				k := hx(string(text)) + "." + hx(string(raw[4:]))
				if !seen[k] {
					seen[k] = true
					out = append(out, k)
				}
			}
		}
	}
	for _, r := range reads {
		if !r.ok {
			continue
		}
		try(r.data)
		if _, _, rest, err := tlog.ParseRecord(r.data); err == nil {
			try(rest)
		}
	}
	return out
}

func (s *clSession) line() string {
	var rs, ls []string
	for _, r := range s.reads {
		rs = append(rs, r.kind+"."+hx(r.file)+"."+clHexOrBang(r))
	}
	for _, l := range s.looks {
		ls = append(ls, hx(l[0])+"."+hx(l[1]))
	}
	j := func(l []string) string {
		if len(l) == 0 {
			return "_"
		}
		return strings.Join(l, ",")
	}
	return fmt.Sprintf("client.lookup %d %s %s %s %s %s %s", s.h, hx(s.nosumdb), hx(string(s.pub)),
		j(clVerdicts(s.pub, s.reads)), j(rs), j(s.writes), j(ls))
}

func clParseSession(args []string) (*clSession, bool) {
	if len(args) != 7 {
		return nil, false
	}
	s := &clSession{}
	var err error
	if s.h, err = strconv.Atoi(args[0]); err != nil || s.h < 0 || s.h > 30 {
		return nil, false
	}
	bad := false
	un := func(x string) string {
		if x == "-" {
			return ""
		}
		b, err := hex.DecodeString(x)
		if err != nil {
			bad = true
		}
		return string(b)
	}
	list := func(x string) []string {
		if x == "_" {
			return nil
		}
		return strings.Split(x, ",")
	}
	s.nosumdb = un(args[1])
	s.pub = []byte(un(args[2]))
	for _, r := range list(args[4]) {
		p := strings.Split(r, ".")
		if len(p) != 3 || (p[0] != "r" && p[0] != "c" && p[0] != "f") {
			return nil, false
		}
		rr := clReplayRead{kind: p[0], file: un(p[1])}
		if p[2] != "!" {
			rr.ok = true
			rr.data = []byte(un(p[2]))
		}
		s.reads = append(s.reads, rr)
	}
	for _, w := range list(args[5]) {
		if w != "o" && w != "c" && w != "e" {
			return nil, false
		}
		s.writes = append(s.writes, w)
	}
	for _, l := range list(args[6]) {
		p := strings.Split(l, ".")
		if len(p) != 2 {
			return nil, false
		}
		s.looks = append(s.looks, [2]string{un(p[0]), un(p[1])})
	}
	if bad {
		return nil, false
	}
	return s, true
}

// clKeyPub extracts the Ed25519 public key from a verifier key "<name>+<hash>+<base64(alg ‖ key)>".
func clKeyPub(vkey string) []byte {
	p := strings.SplitN(strings.TrimSpace(vkey), "+", 3)
	if len(p) != 3 {
		return nil
	}
	raw, err := base64.StdEncoding.DecodeString(p[2])
	if err != nil || len(raw) != 33 {
		return nil
	}
	return raw[1:]
}

// clSessions cuts the operation log of a (sequential) scenario run into one session per client instance.
func clSessions(out *clOutcome) []*clSession {
	var all []*clSession
	cur := map[int]*clSession{}
	start := map[int]int{}
	flush := func(c, end int) {
		s := cur[c]
		if s == nil {
			return
		}
		for _, lk := range out.looks {
			if lk.c == c && lk.g == "s" && lk.from >= start[c] && lk.to <= end {
				s.looks = append(s.looks, [2]string{lk.path, lk.vers})
			}
		}
		if len(s.looks) > 0 {
			all = append(all, s)
		}
		delete(cur, c)
	}
	for i, ev := range out.env.trace {
		switch ev.Kind {
		case "new":
			flush(ev.C, i)
			cur[ev.C] = &clSession{h: out.sc.h, nosumdb: out.nosumdbOf[ev.C], pub: clKeyPub(out.w.vkey)}
			start[ev.C] = i
		case "rr", "rc", "rf":
			if s := cur[ev.C]; s != nil {
				k := map[string]string{"rr": "r", "rc": "c", "rf": "f"}[ev.Kind]
				s.reads = append(s.reads, clReplayRead{kind: k, file: ev.File, data: append([]byte(nil), ev.Data...), ok: ev.Err == ""})
			}
		case "wf":
			if s := cur[ev.C]; s != nil {
				s.writes = append(s.writes, map[string]string{"": "o", "conflict": "c", "err": "e"}[ev.Err])
			}
		}
	}
	var cs []int
	for c := range cur {
		cs = append(cs, c)
	}
	sort.Ints(cs)
	for _, c := range cs {
		flush(c, len(out.env.trace))
	}
	return all
}

func init() {
	impls["client.lookup"] = func(args []string) string {
		s, ok := clParseSession(args)
		if !ok {
			return "bad-op"
		}
		return clRunSession(s)
	}
}
