package main

// shared helpers of the modfile checks (C20, C02): regexps compiled from the source texts of the
// unexported regexps in modfile/rule.go (pinned by the translator in Tie/Modfile), timers.

import (
	"regexp"
	"time"
)

var c20LaxGoVersionRE = regexp.MustCompile(`^v?(([1-9][0-9]*)\.(0|[1-9][0-9]*))([^0-9].*)$`)
var c20DeprecatedRE = regexp.MustCompile(`(?s)(?:^|\n\n)Deprecated: *(.*?)(?:$|\n\n)`)

func c20TimeAfter(d time.Duration) <-chan time.Time { return time.After(d) }
