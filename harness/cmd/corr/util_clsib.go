package main

// util_clsib.go — NAME-RELATED records in one log (used by C01; hooked into clGetWorld by the world seed).
//
// CLASS: worlds in which the module path of one record is a proper SUFFIX (with or without a separator:
// `mirror.example/rsc.io/quote`, `my-rsc.io/quote`, `xrsc.io/quote`) or a proper PREFIX (`rsc.io/quote/sub`) of the
// module path of another record of the same log, both at the SAME version, with their own hashes.  Anyone can get such
// a record into a real log by publishing a module at `<own host>/<path>`.
//
// Why it was missing: clMakeRec draws paths from a list of unrelated names and puts the record number into the version,
// so no two records of a world ever shared a version, and no line of any response ever contained the
// `path version ` of another record, at its start or anywhere else.  The only binding between a lookup request and its response is the
// line filter of Client.Lookup (`checkRecord` proves inclusion of the record, not that it is about the requested module —
// O9), so "returns EXACTLY the go.sum lines of the authenticated record" can only be told apart from "returns whatever
// in the response looks like a line for path@version" when a fully authentic response of a name-related record is
// substituted (swap of two honest responses, over the network or through the cache).
//
// Worlds with seed >= clSibSeedBase are built this way; all other worlds are bit-for-bit what they were.

import (
	"crypto/sha256"
	"encoding/base64"
	"fmt"
	"strings"
)

const clSibSeedBase = 1000000

// longer path = prefix + base path (base path is a proper suffix)
var clSibPre = []string{"mirror.example/", "proxy.corp.example/vendor/", "x", "my-", "go."}

// longer path = base path + suffix (base path is a proper prefix)
var clSibPost = []string{"/sub", "/v2", "-go"}

// clSibRec: with probability 1/2 (and when the log already has a record) replace the freshly drawn record by a record
// that is name-related to an earlier one: same version, longer path, own hashes.
func clSibRec(r *Rand, l *clLog, rec clRec) clRec {
	if len(l.recs) == 0 || r.Intn(2) != 0 {
		return rec
	}
	base := l.recs[r.Intn(len(l.recs))]
	var path string
	if r.Intn(4) == 0 {
		path = base.path + clSibPost[r.Intn(len(clSibPost))]
	} else {
		path = clSibPre[r.Intn(len(clSibPre))] + base.path
	}
	vers := base.vers
	if _, dup := l.byKey[path+"@"+vers]; dup {
		return rec
	}
	if _, ok := clLookupFile(path, vers); !ok {
		return rec
	}
	h1 := sha256.Sum256([]byte(fmt.Sprintf("sib|%s|%s|zip", path, vers)))
	h2 := sha256.Sum256([]byte(fmt.Sprintf("sib|%s|%s|mod", path, vers)))
	text := fmt.Sprintf("%s %s h1:%s\n%s %s/go.mod h1:%s\n", path, vers, base64.StdEncoding.EncodeToString(h1[:]),
		path, vers, base64.StdEncoding.EncodeToString(h2[:]))
	return clRec{path: path, vers: vers, text: []byte(text)}
}

// clNameRelated: the ordered pairs (i, j), i != j, of records of l[:n] with the same version where one path is a
// proper suffix or a proper prefix of the other.
func clNameRelated(l *clLog, n int) [][2]int {
	var out [][2]int
	if n > len(l.recs) {
		n = len(l.recs)
	}
	for i := 0; i < n; i++ {
		for j := 0; j < n; j++ {
			a, b := l.recs[i], l.recs[j]
			if i == j || a.vers != b.vers || a.path == b.path {
				continue
			}
			if strings.HasSuffix(a.path, b.path) || strings.HasSuffix(b.path, a.path) ||
				strings.HasPrefix(a.path, b.path) || strings.HasPrefix(b.path, a.path) {
				out = append(out, [2]int{i, j})
			}
		}
	}
	return out
}
