//go:build !race

package main

// clRaceBuild is true when the harness is built with -race (then no lock-free sampling of c.latest is done).
const clRaceBuild = false
