package main

// C03: the UNIFORM-LOG class — valid inclusion / consistency tuples in trees of up to 2^63-1 records.
//
// Why it was missing. Every valid tuple of the C03 generator and oracle came from a log that is built record
// by record (at most a few hundred records, proofs of at most ~10 hashes); the sizes near 2^62 / 2^63 were
// only ever paired with RANDOM proofs, which are rejected. So nothing covered "a VALID proof in a tree of
// 2^40 … 2^63-1 records": proofs of 41 … 64 hashes, in particular the maximal ones — an audit path of
// ceil(log2 t) = 63 hashes and a consistency proof of ceil(log2 t) + 1 = 64 hashes (old size not a power of
// two, t > 2^62) — and the completeness half of the property ("the proof the prover returns is the RFC 6962
// proof and the checker accepts it") was never exercised where proof length, level count or int64 range are
// at their limits.
//
// The class. A log all of whose records are the same: the hash of a complete subtree then depends only on
// its level, so (a) the RFC 6962 definitions MTH / PATH / PROOF can be evaluated for any size in O(64^2)
// hashes (independent generator: mth, path, proof below — no code shared with package tlog), and (b) a
// synthetic tlog.HashReader can serve any stored hash index (ReadHashes below: index -> level by this file's
// own arithmetic), so that the real ProveRecord / ProveTree run at sizes up to 2^62+1 (the largest size whose
// stored hash indexes fit int64). The oracle statements are the unchanged ones of c03.go: prover = RFC 6962
// proof, the prover's proof is accepted, checker = RFC 9162 verifier on the valid tuple and on every mutation.

import (
	"math/bits"

	"golang.org/x/mod/sumdb/tlog"
)

type c03Uniform struct {
	rec string
	lvl [64]tlog.Hash // lvl[i] = MTH of 2^i copies of rec
}

func c03NewUniform(rec string) *c03Uniform {
	u := &c03Uniform{rec: rec}
	u.lvl[0] = rfcLeaf(rec)
	for i := 1; i < len(u.lvl); i++ {
		u.lvl[i] = rfcNode(u.lvl[i-1], u.lvl[i-1])
	}
	return u
}

// c03UniformProverMax: the largest tree size the provers can be asked about: the last record of such a
// tree is record 2^62, whose level-0 hash has stored index 2^63-1.
const c03UniformProverMax = int64(1)<<62 + 1

// c03StoredBefore: the number of hashes stored before the level-0 hash of record n (Crosby–Wallach order:
// record n is followed by one hash per trailing 1 bit of n), i.e. 2n - popcount(n).
func c03StoredBefore(n uint64) uint64 { return 2*n - uint64(bits.OnesCount64(n)) }

// ReadHashes serves the stored hashes of the infinite uniform log: index x belongs to the largest record n
// with c03StoredBefore(n) <= x and is the hash of level x - c03StoredBefore(n) (a complete subtree).
func (u *c03Uniform) ReadHashes(idx []int64) ([]tlog.Hash, error) {
	out := make([]tlog.Hash, len(idx))
	for i, x := range idx {
		if x < 0 {
			return nil, errTlogReader
		}
		lo, hi := uint64(0), uint64(1)<<62 // c03StoredBefore(2^62) = 2^63-1 >= x
		for lo < hi {
			mid := lo + (hi-lo+1)/2
			if c03StoredBefore(mid) <= uint64(x) {
				lo = mid
			} else {
				hi = mid - 1
			}
		}
		l := uint64(x) - c03StoredBefore(lo)
		if l >= uint64(len(u.lvl)) {
			return nil, errTlogReader
		}
		out[i] = u.lvl[l]
	}
	return out, nil
}

// c03Split64: the largest power of two strictly smaller than n (n >= 2).
func c03Split64(n uint64) uint64 { return 1 << uint(bits.Len64(n-1)-1) }

// mth: RFC 6962 §2.1 MTH of n copies of the record (n >= 1).
func (u *c03Uniform) mth(n uint64) tlog.Hash {
	if n&(n-1) == 0 {
		return u.lvl[bits.TrailingZeros64(n)]
	}
	k := c03Split64(n)
	return rfcNode(u.lvl[bits.TrailingZeros64(k)], u.mth(n-k))
}

// path: RFC 6962 §2.1.1 PATH(m, D[n]).
func (u *c03Uniform) path(m, n uint64) []tlog.Hash {
	if n <= 1 {
		return nil
	}
	k := c03Split64(n)
	if m < k {
		return append(u.path(m, k), u.mth(n-k))
	}
	return append(u.path(m-k, n-k), u.mth(k))
}

// proof: RFC 6962 §2.1.2 PROOF(m, D[n]) = SUBPROOF(m, D[n], true), 0 < m <= n.
func (u *c03Uniform) proof(m, n uint64) []tlog.Hash { return u.subproof(m, n, true) }

func (u *c03Uniform) subproof(m, n uint64, b bool) []tlog.Hash {
	if m == n {
		if b {
			return nil
		}
		return []tlog.Hash{u.mth(n)}
	}
	k := c03Split64(n)
	if m <= k {
		return append(u.subproof(m, k, b), u.mth(n-k))
	}
	return append(u.subproof(m-k, n-k, false), u.mth(k))
}

func (u *c03Uniform) recordTuple(t, n int64) c03Tuple {
	return c03Tuple{p: u.path(uint64(n), uint64(t)), t: t, th: u.mth(uint64(t)), n: n, h: u.lvl[0], what: "uniform-valid"}
}

func (u *c03Uniform) treeTuple(t, n int64) c03Tuple {
	return c03Tuple{p: u.proof(uint64(n), uint64(t)), t: t, th: u.mth(uint64(t)), n: n, h: u.mth(uint64(n)), what: "uniform-valid"}
}

// c03UniformTreeSizes: the tree sizes of the sweep — 2^k-1, 2^k, 2^k+1 for the given exponents, the int64
// extremes, and sizes with two / many high bits set.
func c03UniformTreeSizes(r *Rand, exps []int) []int64 {
	var out []int64
	for _, k := range exps {
		p := int64(1) << uint(k)
		out = append(out, p-1, p, p+1)
	}
	out = append(out, 1<<63-1, 1<<63-2, 3<<60, 1<<62+1<<61, 1<<62+1<<61+1, 1<<62+5, 1<<62-5)
	for i := 0; i < 4; i++ {
		out = append(out, int64(r.U64()>>1)|1<<62, int64(r.U64()>>2)|1<<61, int64(r.U64()>>uint(2+r.Intn(40)))|1<<20)
	}
	return out
}

// c03UniformOldSizes: old tree sizes 1 <= n <= t for a tree of t records (record numbers are these minus one):
// leaves deep on the left (smallest n, not powers of two: the descent goes through every level and the proof
// has the maximal length), powers of two, around the split point and around its half, the right edge, random.
func c03UniformOldSizes(r *Rand, t int64) []int64 {
	cand := []int64{1, 2, 3, 4, 5, 6, 7, t, t - 1, t - 2, t / 2, t/2 + 1, t/2 - 1, t/3 + 1}
	if t >= 2 {
		k := int64(c03Split64(uint64(t)))
		cand = append(cand, k, k+1, k-1, k/2, k/2+5, k/2-1, k+(t-k)/2, k+(t-k)/2+1)
	}
	for i := 0; i < 3; i++ {
		cand = append(cand, 1+int64(r.U64()>>1)%t, 1+int64(r.U64()>>uint(1+r.Intn(62)))%t)
	}
	seen := map[int64]bool{}
	var out []int64
	for _, n := range cand {
		if n >= 1 && n <= t && !seen[n] {
			seen[n] = true
			out = append(out, n)
		}
	}
	return out
}
