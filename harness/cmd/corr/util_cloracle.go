package main

// util_cloracle.go — implementation-only statements of C01 / C13 / C14 over the outcome of a scenario
// (results of the lookups + the log of every external operation), judged against the TRUE logs of the world.
// Each check is a transcription of a clause of the property; none may fire on a correct client.

import (
	"bytes"
	"fmt"
	"sort"
	"strings"

	"golang.org/x/mod/module"
	"golang.org/x/mod/sumdb/note"
	"golang.org/x/mod/sumdb/tlog"
)

type clFinding struct {
	sig  string
	info string
}

func (w *clWorld) trueLogs() []*clLog {
	if w.B != nil {
		return []*clLog{w.A, w.B}
	}
	return []*clLog{w.A}
}

// authenticText: the record text is the text of a record of a true log (the leaf hash is what the client can check).
// Returns the logs/ids carrying it.
func (w *clWorld) authenticText(text []byte) (ids map[string]int, ok bool) {
	ids = map[string]int{}
	h := tlog.RecordHash(text)
	for _, l := range w.trueLogs() {
		if id, found := l.leaf[h]; found {
			ids[l.tag] = id
			ok = true
		}
	}
	return ids, ok
}

func clLookupFile(path, vers string) (remote string, ok bool) {
	ep, err := module.EscapePath(path)
	if err != nil {
		return "", false
	}
	ev, err := module.EscapeVersion(strings.TrimSuffix(vers, "/go.mod"))
	if err != nil {
		return "", false
	}
	return "/lookup/" + ep + "@" + ev, true
}

func clFilter(prefix string, data string) []string {
	var out []string
	for _, line := range strings.Split(data, "\n") {
		if strings.HasPrefix(line, prefix) {
			out = append(out, line)
		}
	}
	return out
}

func clSameLines(a, b []string) bool {
	if len(a) != len(b) {
		return false
	}
	for i := range a {
		if a[i] != b[i] {
			return false
		}
	}
	return true
}

// headsSeen collects, per client, every validly signed head handed to it up to trace position `upto`
// (configuration reads, tree notes inside lookup responses from network or cache).
func clHeadsSeen(out *clOutcome, c int, upto int) []clHead {
	var hs []clHead
	for _, ev := range out.env.trace {
		if ev.Seq >= upto {
			break
		}
		if ev.C != c || ev.Err != "" {
			continue
		}
		switch {
		case ev.Kind == "rf" && ev.File == clName+"/latest":
			if h := out.w.classifyHead(ev.Data); h.valid && h.n > 0 {
				hs = append(hs, h)
			}
		case (ev.Kind == "rr" && strings.HasPrefix(ev.File, "/lookup/")) || (ev.Kind == "rc" && strings.HasPrefix(ev.File, clName+"/lookup/")):
			if _, _, rest, err := tlog.ParseRecord(ev.Data); err == nil && len(rest) > 0 {
				if h := out.w.classifyHead(rest); h.valid && h.n > 0 {
					hs = append(hs, h)
				}
			}
		}
	}
	return hs
}

// coveredBy: record (log tag -> id) lies inside a validly signed head the client has been given.
func clCovered(ids map[string]int, heads []clHead) bool {
	for _, h := range heads {
		if id, ok := ids["A"]; ok && h.onA && int64(id) < h.n {
			return true
		}
		if id, ok := ids["B"]; ok && h.onB && int64(id) < h.n {
			return true
		}
	}
	return false
}

// clCheckAuthentic: C01's clauses on results and on everything written (also used by C13 and C14 runs).
func clCheckAuthentic(out *clOutcome) []clFinding {
	var fs []clFinding
	w := out.w
	tr := out.env.trace
	// --- returned lines
	for _, lk := range out.looks {
		if lk.kind != "ok" {
			continue
		}
		remote, ok := clLookupFile(lk.path, lk.vers)
		if !ok {
			fs = append(fs, clFinding{"C01 lookup ok for a path/version that cannot be escaped", lk.path + "@" + lk.vers})
			continue
		}
		// the data the client used: the last successful read of the lookup file (cache) or path (network) by this
		// client before the lookup returned
		var data []byte
		found := false
		upto := len(tr)
		for _, ev := range tr {
			if ev.Seq >= lk.to {
				break
			}
			if ev.C != lk.c || ev.Err != "" {
				continue
			}
			if (ev.Kind == "rc" && ev.File == clName+remote) || (ev.Kind == "rr" && ev.File == remote) {
				data, found, upto = ev.Data, true, ev.Seq+1
			}
		}
		if lk.to > upto {
			upto = lk.to
		}
		if !found {
			fs = append(fs, clFinding{"C01 lookup ok although no cache or network read supplied the record", lk.path + "@" + lk.vers})
			continue
		}
		_, text, rest, err := tlog.ParseRecord(data)
		if err != nil {
			fs = append(fs, clFinding{"C01 lookup ok on a response that is not a well-formed record", lk.path + "@" + lk.vers})
			continue
		}
		ids, auth := w.authenticText(text)
		if !auth {
			fs = append(fs, clFinding{"C01 lookup returned ok for a record that is in no signed log (forged record accepted)", fmt.Sprintf("%s@%s text=%q", lk.path, lk.vers, text)})
			continue
		}
		// the tree note of this very response counts as seen
		heads := clHeadsSeen(out, lk.c, upto)
		if !clCovered(ids, heads) {
			fs = append(fs, clFinding{"C01 lookup returned ok for a record not covered by any signed tree head the client was given", fmt.Sprintf("%s@%s ids=%v", lk.path, lk.vers, ids)})
		}
		// exactly the lines of the authenticated record (O3: Lookup filters the whole response, so lines of the
		// signed tree note text with that prefix are returned too; they are signed, hence authenticated)
		want := clFilter(lk.path+" "+lk.vers+" ", string(text))
		if len(rest) > 0 {
			if n, err := note.Open(rest, note.VerifierList(w.verifier)); err == nil {
				want = append(want, clFilter(lk.path+" "+lk.vers+" ", n.Text)...)
			}
		}
		// signature lines and the id line cannot carry the prefix of an escapable module path; state it anyway
		if !clSameLines(lk.lines, want) {
			fs = append(fs, clFinding{"C01 lookup returned lines that are not exactly the lines of the authenticated record", fmt.Sprintf("%s@%s got=%q want=%q", lk.path, lk.vers, lk.lines, want)})
		}
	}
	// --- everything written
	lastRead := map[string][]byte{} // client/goroutine -> last value returned by ReadConfig(latest)
	haveRead := map[string]bool{}
	for _, ev := range tr {
		if ev.C < 0 {
			continue
		}
		switch ev.Kind {
		case "rf":
			if ev.File == clName+"/latest" && ev.Err == "" {
				lastRead[itoa(ev.C)+ev.G] = ev.Data
				haveRead[itoa(ev.C)+ev.G] = true
			}
		case "wc":
			switch {
			case strings.HasPrefix(ev.File, clName+"/lookup/"):
				_, text, rest, err := tlog.ParseRecord(ev.Data)
				if err != nil {
					fs = append(fs, clFinding{"C01 malformed record written to the cache", ev.File})
					break
				}
				if _, auth := w.authenticText(text); !auth {
					fs = append(fs, clFinding{"C01 unauthenticated record written to the cache", fmt.Sprintf("%s text=%q", ev.File, text)})
				}
				if len(rest) > 0 {
					if h := w.classifyHead(rest); !h.valid || !(h.onA || h.onB) {
						fs = append(fs, clFinding{"C01 record written to the cache carries a tree head that is not a signed head of a true log", ev.File})
					}
				}
				// the client writes the bytes it fetched for that very path
				okSrc := false
				for _, e2 := range tr {
					if e2.Seq < ev.Seq && e2.C == ev.C && e2.Kind == "rr" && e2.Err == "" && clName+e2.File == ev.File && bytes.Equal(e2.Data, ev.Data) {
						okSrc = true
					}
				}
				if !okSrc {
					fs = append(fs, clFinding{"C01 record written to the cache is not the response fetched for that file", ev.File})
				}
			case strings.HasPrefix(ev.File, clName+"/tile/"):
				t, err := tlog.ParseTilePath(ev.File[len(clName)+1:])
				if err != nil || t.H != out.sc.h || t.L < 0 {
					fs = append(fs, clFinding{"C01 cache write under a malformed tile name", ev.File})
					break
				}
				okTile := false
				for _, l := range w.trueLogs() {
					if d, ok := l.tileData(t); ok && bytes.Equal(d, ev.Data) {
						okTile = true
					}
				}
				if !okTile {
					fs = append(fs, clFinding{"C01 tile written to the cache is not byte-identical to the true tile", ev.File})
				}
			default:
				fs = append(fs, clFinding{"C01 cache write to an unexpected file name", ev.File})
			}
		case "wf":
			if ev.File != clName+"/latest" {
				fs = append(fs, clFinding{"C01 configuration write to an unexpected file", ev.File})
				break
			}
			h := w.classifyHead(ev.Data)
			if len(ev.Data) == 0 || !h.valid || !(h.onA || h.onB) {
				fs = append(fs, clFinding{"C01 value written to the stored latest tree head is not a validly signed head of a true log", fmt.Sprintf("new=%q", ev.Data)})
			}
			if !haveRead[itoa(ev.C)+ev.G] || !bytes.Equal(lastRead[itoa(ev.C)+ev.G], ev.Old) {
				fs = append(fs, clFinding{"C13 WriteConfig old value is not the value the client last read", ""})
			}
		}
	}
	return fs
}

// clCheckTimeline: C13 — the stored head only moves forward along one log.
func clCheckTimeline(out *clOutcome) []clFinding {
	var fs []clFinding
	w := out.w
	hist := out.env.cfgHist
	var prev clHead
	havePrev := false
	for i, cv := range hist {
		h := w.classifyHead(cv.val)
		if !h.valid || !(h.onA || h.onB) {
			if cv.by >= 0 {
				fs = append(fs, clFinding{"C13 stored head is not a validly signed head of a true log", fmt.Sprintf("step %d", i)})
			}
			havePrev = false
			continue
		}
		if havePrev && cv.by >= 0 {
			if h.n < prev.n {
				fs = append(fs, clFinding{"C13 stored head size decreased", fmt.Sprintf("%d -> %d", prev.n, h.n)})
			} else if !w.prefixOf(prev, h) {
				fs = append(fs, clFinding{"C13 stored head moved to a tree that does not contain the previous one (fork accepted)", fmt.Sprintf("%d -> %d", prev.n, h.n)})
			}
		}
		prev, havePrev = h, true
	}
	// in-memory latest per client never regresses (sampled at quiescent points / after each step)
	for c, ss := range out.latestSamples {
		for i := 1; i < len(ss); i++ {
			if ss[i] >= 0 && ss[i-1] >= 0 && ss[i] < ss[i-1] {
				fs = append(fs, clFinding{"C13/C14 in-memory latest tree size regressed", fmt.Sprintf("client %d: %d -> %d", c, ss[i-1], ss[i])})
				break
			}
		}
	}
	return fs
}

func clIndent(b []byte) []byte { return bytes.Replace(b, []byte("\n"), []byte("\n\t"), -1) }

// clCheckSecurity: whenever a lookup is reported as a security error, the callback ran and its message carries two
// validly signed, mutually inconsistent heads (both complete signed notes, indented as the client prints them).
// Sequential lookups only (uses the lookup's trace window).
func clCheckSecurity(out *clOutcome) []clFinding {
	var fs []clFinding
	w := out.w
	for _, lk := range out.looks {
		if lk.g != "s" {
			continue
		}
		var secs [][]byte
		for _, ev := range out.env.trace[lk.from:lk.to] {
			if ev.Kind == "sec" && ev.C == lk.c {
				secs = append(secs, ev.Data)
			}
		}
		if lk.kind == "err:security" && len(secs) == 0 {
			// results are cached per client instance (initErr, the per-file once-cache): a repeated report is the same
			// report; the callback must have run earlier on this instance
			earlier := false
			for _, ev := range out.env.trace[:lk.from] {
				if ev.C == lk.c && ev.Kind == "new" {
					earlier = false
				}
				if ev.C == lk.c && ev.Kind == "sec" {
					earlier = true
				}
			}
			if !earlier {
				fs = append(fs, clFinding{"C13 lookup failed with a security error but the security callback was not invoked", lk.key})
			}
			continue
		}
		if len(secs) > 0 && lk.kind != "err:security" {
			fs = append(fs, clFinding{"C13 security callback invoked but the lookup did not fail with a security error", lk.key + " -> " + lk.kind})
		}
		for _, msg := range secs {
			// both signed heads: every validly signed head the client had been given whose indented text occurs in msg
			var inMsg []clHead
			seen := map[string]bool{}
			cands := [][]byte{}
			for _, ev := range out.env.trace[:lk.to] {
				if ev.C != lk.c || ev.Err != "" {
					continue
				}
				if ev.Kind == "rf" && ev.File == clName+"/latest" && len(ev.Data) > 0 {
					cands = append(cands, ev.Data)
				}
				if ev.Kind == "rr" || ev.Kind == "rc" {
					if _, _, rest, err := tlog.ParseRecord(ev.Data); err == nil && len(rest) > 0 {
						cands = append(cands, rest)
					}
				}
			}
			for _, cnd := range cands {
				if seen[string(cnd)] {
					continue
				}
				seen[string(cnd)] = true
				if h := w.classifyHead(cnd); h.valid && bytes.Contains(msg, clIndent(cnd)) {
					inMsg = append(inMsg, h)
				}
			}
			okPair := false
			for i := range inMsg {
				for j := range inMsg {
					a, b := inMsg[i], inMsg[j]
					if a.n <= b.n && !w.prefixOf(a, b) {
						okPair = true
					}
				}
			}
			if !okPair {
				fs = append(fs, clFinding{"C13 security callback message does not carry two inconsistent signed heads", lk.key})
			}
		}
	}
	return fs
}

// clHonestLines: the server's go.sum lines for a lookup (true log A).
func (w *clWorld) honestLines(l *clLog, path, vers string) ([]string, bool) {
	id, ok := l.byKey[path+"@"+strings.TrimSuffix(vers, "/go.mod")]
	if !ok {
		return nil, false
	}
	return clFilter(path+" "+vers+" ", string(l.recs[id].text)), true
}

// clCheckHonest: with an honest server and honest cache every lookup succeeds with exactly the server's lines.
func clCheckHonest(out *clOutcome, tagPrefix string) []clFinding {
	var fs []clFinding
	for _, lk := range out.looks {
		if lk.private {
			continue
		}
		want, ok := out.w.honestLines(out.w.A, lk.path, lk.vers)
		if !ok {
			continue
		}
		if lk.kind != "ok" {
			fs = append(fs, clFinding{tagPrefix + " lookup failed although server and cache are honest", fmt.Sprintf("%s -> %s (%v)", lk.key, lk.kind, lk.err)})
			continue
		}
		if len(want) == 0 || !clSameLines(lk.lines, want) {
			fs = append(fs, clFinding{tagPrefix + " lookup result differs from the server's go.sum lines", fmt.Sprintf("%s got=%q want=%q", lk.key, lk.lines, want)})
		}
	}
	return fs
}

// clCheckFetchOnce: per client instance, each distinct lookup (cache file / remote path) is read at most once.
// Tile FILES can legitimately be read more than once: the once-cache is keyed by tile including its width, and a
// partial tile falls back to the file of the full tile, which a later, larger tree reads again under its own key.
// Such re-reads are returned as the second result (observations), not as findings.
func clCheckFetchOnce(out *clOutcome) []clFinding {
	fs, _ := clCheckFetchOnce2(out)
	return fs
}

func clCheckFetchOnce2(out *clOutcome) ([]clFinding, int) {
	tileRereads := 0
	var fs []clFinding
	cnt := map[string]int{}
	epoch := map[int]int{}
	for _, ev := range out.env.trace {
		if ev.C < 0 {
			continue
		}
		if ev.Kind == "new" {
			epoch[ev.C]++
		}
		if ev.Kind == "rc" || ev.Kind == "rr" {
			cnt[fmt.Sprintf("%d.%d %s %s", ev.C, epoch[ev.C], ev.Kind, ev.File)]++
		}
	}
	keys := make([]string, 0, len(cnt))
	for k := range cnt {
		keys = append(keys, k)
	}
	sort.Strings(keys)
	for _, k := range keys {
		if cnt[k] > 1 {
			if strings.Contains(k, "/tile/") {
				tileRereads++
				continue
			}
			fs = append(fs, clFinding{"C14 a lookup was fetched more than once by one client", fmt.Sprintf("%s x%d", k, cnt[k])})
		}
	}
	return fs, tileRereads
}

// clFailSeen bounds the number of reports per signature (Gen keeps 50 failures in all; one frequent signature — a
// recorded known finding, say — must not crowd out a different one found later in the same run).
var clFailSeen = map[string]int{}

func clReport(g *Gen, fs []clFinding, sc *clScenario) {
	for _, f := range fs {
		clFailSeen[f.sig]++
		g.st.OracleTags["finding/"+f.sig]++
		if clFailSeen[f.sig] <= 4 {
			g.Fail(f.sig, f.info, sc.String())
		}
	}
}
