module verifharness

go 1.22.0

require golang.org/x/mod v0.0.0

replace golang.org/x/mod => /repo
